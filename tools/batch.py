"""Batch-crate pipeline: many (settings, call history) cases -> real typify -> ONE cargo workspace of
shard crates -> compiled generated types that a check can drive (de / ser / FromStr / TryFrom /
Display / Default / builder) through a line protocol.

    b = Batch(ctx_or_name, shards=12)
    c = b.add_case(calls, settings={}, tag="...")
    b.prepare()                      # one tvh_ir process over all cases; fills c.calls, c.dump, c.code, ...
    b.build(extra_items=None)        # writes the crates, cargo build, isolates failures; fills c.compiled, ...
    answers = b.run([(c, "TypeName", "de", '{"a":1}'), ...])

See /verif/CONTRIBUTING.md, section "The batch pipeline".
"""
import fcntl, hashlib, json, os, re, shutil, subprocess, sys, time
from concurrent.futures import ThreadPoolExecutor

VERIF = os.path.dirname(os.path.dirname(os.path.abspath(__file__)))
REPO = "/repo"
HARNESS = os.path.join(VERIF, "harness")
TVH_IR = os.path.join(HARNESS, "target", "debug", "tvh_ir")
ROOT = os.path.join(VERIF, ".cache", "batch")
TARGET = os.path.join(ROOT, "target")          # shared by every batch: dependencies compile once
ENV = dict(os.environ, CARGO_NET_OFFLINE="true", CARGO_TARGET_DIR=TARGET, CARGO_TERM_COLOR="never")
ENV.pop("RUSTFLAGS", None)

NAMED = ("struct", "enum", "newtype")
SERDE_OPS = ("de", "de_value", "rt")
STR_OPS = ("fromstr", "tryfrom_str", "tryfrom_string", "tryfrom_refstring")
BUILD_OPS = ("build", "build_str", "build_refstr", "unbuild")
ALL_OPS = SERDE_OPS + STR_OPS + ("display", "default") + BUILD_OPS
BASE_BOUNDS = [
    ("Debug", "::std::fmt::Debug"),
    ("Clone", "::std::clone::Clone"),
    ("Serialize", "::serde::Serialize"),
    ("DeserializeOwned", "::serde::de::DeserializeOwned"),
    ("FromRef", "for<'a> ::std::convert::From<&'a T>"),
]
IMPL_BOUNDS = {"FromStr": "::std::str::FromStr", "Display": "::std::fmt::Display",
               "Default": "::std::default::Default"}
MAX_ROUNDS = 8


def J(obj):
    """payload helper: compact JSON text of a python value"""
    return json.dumps(obj, separators=(",", ":"), ensure_ascii=False)


def canon(text):
    """canonical form of a JSON text (keys sorted, compact); HashMap-backed maps serialise in random key order"""
    return json.dumps(json.loads(text), sort_keys=True, separators=(",", ":"), ensure_ascii=False)


def split_answer(ans):
    """'ok <a>\\t<b>' -> ('ok', ['<a>', '<b>']);  'err msg' -> ('err', ['msg']);  'panic' -> ('panic', [])"""
    st, _, rest = ans.partition(" ")
    return st, (rest.split("\t") if rest else [])


# ------------------------------------------------------------------------------------------ Rust
CARGO_WS = """[workspace]
resolver = "2"
members = [%(members)s]

[profile.dev]
opt-level = 0
debug = 0
incremental = false
codegen-units = 16
panic = "unwind"
"""

CARGO_SHARD = """[package]
name = "%(pkg)s"
version = "0.0.0"
edition = "2021"

[[bin]]
name = "%(pkg)s"
path = "src/main.rs"

[dependencies]
serde = { version = "1.0.219", features = ["derive"] }
serde_json = "1.0.140"
regress = "0.10.3"
chrono = { version = "0.4.39", features = ["serde"] }
uuid = { version = "1.16.0", features = ["serde"] }
"""

H_RS = r'''// shared helpers of the generated dispatchers (same text in every shard)
#![allow(warnings)]
use serde::{de::DeserializeOwned, Serialize};
use serde_json::Value;
use std::fmt::Display;
use std::panic::{catch_unwind, AssertUnwindSafe};
use std::str::FromStr;

pub type Set = serde_json::Map<String, Value>;

pub fn noop() -> String { "noop".to_string() }
fn js<T: Serialize>(v: &T) -> Result<String, String> {
    serde_json::to_string(v).map_err(|e| format!("ser_err {}", e))
}
fn okjs<T: Serialize>(v: &T) -> String {
    match js(v) { Ok(s) => format!("ok {}", s), Err(e) => e }
}
fn text(p: &str) -> Option<String> { serde_json::from_str::<String>(p).ok() }

pub fn de<T: DeserializeOwned + Serialize>(p: &str) -> String {
    match serde_json::from_str::<T>(p) { Ok(v) => okjs(&v), Err(e) => format!("err {}", e) }
}
pub fn de_value<T: DeserializeOwned + Serialize>(p: &str) -> String {
    let v: Value = match serde_json::from_str(p) { Ok(v) => v, Err(_) => return "badpayload".into() };
    match serde_json::from_value::<T>(v) { Ok(v) => okjs(&v), Err(e) => format!("err {}", e) }
}
pub fn rt<T: DeserializeOwned + Serialize>(p: &str) -> String {
    let v = match serde_json::from_str::<T>(p) { Ok(v) => v, Err(e) => return format!("err {}", e) };
    let w = match js(&v) { Ok(w) => w, Err(e) => return e };
    let v2 = match serde_json::from_str::<T>(&w) { Ok(v) => v, Err(e) => return format!("err2 {}\t{}", w, e) };
    match js(&v2) { Ok(w2) => format!("ok {}\t{}", w, w2), Err(e) => format!("ser_err2 {}\t{}", w, e) }
}
pub fn fromstr<T: FromStr + Serialize>(p: &str) -> String {
    let s = match text(p) { Some(s) => s, None => return "badpayload".into() };
    match s.parse::<T>() { Ok(v) => okjs(&v), Err(_) => "err".into() }
}
pub fn tryfrom_str<T: for<'a> TryFrom<&'a str> + Serialize>(p: &str) -> String {
    let s = match text(p) { Some(s) => s, None => return "badpayload".into() };
    let r = match T::try_from(s.as_str()) { Ok(v) => okjs(&v), Err(_) => "err".into() };
    r
}
pub fn tryfrom_string<T: TryFrom<String> + Serialize>(p: &str) -> String {
    let s = match text(p) { Some(s) => s, None => return "badpayload".into() };
    match T::try_from(s.clone()) { Ok(v) => okjs(&v), Err(_) => "err".into() }
}
pub fn tryfrom_refstring<T: for<'a> TryFrom<&'a String> + Serialize>(p: &str) -> String {
    let s = match text(p) { Some(s) => s, None => return "badpayload".into() };
    let r = match T::try_from(&s) { Ok(v) => okjs(&v), Err(_) => "err".into() };
    r
}
pub fn de_dbg<T: DeserializeOwned + ::std::fmt::Debug>(p: &str) -> String {
    match serde_json::from_str::<T>(p) { Ok(v) => okjs(&format!("{:?}", v)), Err(e) => format!("err {}", e) }
}
pub fn fromstr_dbg<T: FromStr + ::std::fmt::Debug>(p: &str) -> String {
    let s = match text(p) { Some(s) => s, None => return "badpayload".into() };
    match s.parse::<T>() { Ok(v) => okjs(&format!("{:?}", v)), Err(_) => "err".into() }
}
pub fn display<T: DeserializeOwned + Display>(p: &str) -> String {
    match serde_json::from_str::<T>(p) {
        Ok(v) => okjs(&format!("{}", v)),
        Err(e) => format!("err {}", e),
    }
}
pub fn default<T: Default + Serialize>(_p: &str) -> String { okjs(&T::default()) }
pub fn unbuild<T, B>(p: &str) -> String
where T: DeserializeOwned + Serialize, B: From<T> + TryInto<T>, <B as TryInto<T>>::Error: Display {
    let v = match serde_json::from_str::<T>(p) { Ok(v) => v, Err(e) => return format!("badvalue {}", e) };
    finish::<T, B>(B::from(v))
}
pub fn build(p: &str, known: &[&str], f: impl FnOnce(&Set) -> Result<String, String>) -> String {
    let v: Value = match serde_json::from_str(p) { Ok(v) => v, Err(_) => return "badpayload".into() };
    let set = match v.get("set").and_then(|s| s.as_object()) { Some(s) => s, None => return "badpayload".into() };
    if let Some(k) = set.keys().find(|k| !known.contains(&k.as_str())) { return format!("badpayload unknown property {}", k); }
    match f(set) { Ok(s) => s, Err(s) => s }
}
pub fn val<T: DeserializeOwned>(name: &str, v: &Value) -> Result<T, String> {
    serde_json::from_str::<T>(&v.to_string()).map_err(|_| format!("badvalue {}", name))
}
pub fn as_string(v: &Value) -> Option<String> { v.as_str().map(|s| s.to_string()) }
pub fn finish<T: Serialize, B: TryInto<T>>(b: B) -> String where B::Error: Display {
    match b.try_into() { Ok(v) => okjs(&v), Err(e) => format!("err {}", e) }
}
pub fn guard(f: impl FnOnce() -> String) -> String {
    match catch_unwind(AssertUnwindSafe(f)) {
        Ok(s) => if s.contains('\n') || s.contains('\r') { s.replace('\n', "\\n").replace('\r', "\\r") } else { s },
        Err(_) => "panic".into(),
    }
}
pub fn serve(route: fn(&str, u64, &str, &str) -> String) {
    std::panic::set_hook(Box::new(|_| {}));
    let t = std::thread::Builder::new().stack_size(512 << 20).spawn(move || {
        use std::io::BufRead;
        let stdin = std::io::stdin();
        for line in stdin.lock().lines() {
            let line = match line { Ok(l) => l, Err(_) => break };
            if line.is_empty() { continue; }
            let mut it = line.splitn(4, ' ');
            let (c, t, op, pl) = (it.next().unwrap_or(""), it.next().unwrap_or(""), it.next().unwrap_or(""), it.next().unwrap_or(""));
            if op == "__abort" { std::process::abort(); }      // self-test hook: a request that kills the process
            let ans = match (t.parse::<u64>(), serde_json::from_str::<String>(pl)) {
                (Ok(t), Ok(p)) => guard(|| route(c, t, op, &p)),
                _ => "badrequest".to_string(),
            };
            println!("{}", ans);
        }
    }).unwrap();
    let _ = t.join();
}
'''

LINTS = "#![allow(warnings, clippy::all)]\n"


def _rs_str(s):
    """Rust string literal"""
    out = []
    for ch in s:
        if ch in '"\\':
            out.append("\\" + ch)
        elif ch < " " or ch == "\x7f":
            out.append("\\u{%x}" % ord(ch))
        else:
            out.append(ch)
    return '"' + "".join(out) + '"'


class Unit:
    """A separately removable piece of a case's assert/ops module."""
    __slots__ = ("file", "type", "what", "fn", "arm", "active", "errors")

    def __init__(self, file, type_, what, fn=None, arm=None):
        self.file, self.type, self.what, self.fn, self.arm = file, type_, what, fn, arm
        self.active, self.errors = True, []


class Case:
    def __init__(self, idx, calls, settings, tag, ops_types=None):
        self.idx, self.tag = idx, tag if tag is not None else "case%d" % idx
        self.ops_types = None if ops_types is None else set(ops_types)   # names/ids to generate ops for (None: all)
        self.request = {"settings": settings or {}, "calls": calls}
        # from tvh_ir
        self.error = None          # request-level error (bad settings, ...)
        self.calls, self.dump, self.pre_cycles = [], None, None
        self.messages = []         # per call: typify's error text / panic message, or None
        self.render_message = None # panic message of to_stream()
        self.render, self.code, self.parses, self.types, self.uses = None, "", False, [], {}
        # from build
        self.shard = None
        self.skipped = None        # reason the case was never handed to rustc
        self.compiled = False
        self.rustc_errors = []     # errors located in the generated code (case_<n>.rs)
        self.assert_errors = []    # [{"type","bound",code,message,rendered}]: removed assertions
        self.ops_errors = []       # [{"type","op",...}]: removed dispatch arms
        self.assert_ok = True      # False: the whole assert module had to be dropped
        self.ops_ok = True
        self._units = []
        self._by_name, self._by_id = {}, {}

    # -- introspection helpers
    def type(self, name_or_id):
        """entry of c.types by Type::name() or by id"""
        if isinstance(name_or_id, int):
            return self._by_id.get(name_or_id)
        return self._by_name.get(name_or_id)

    def named_types(self):
        return [t for t in self.types if t.get("kind") in NAMED]

    def ops(self, name_or_id):
        """set of ops compiled into the dispatcher for that type"""
        t = self.type(name_or_id)
        if not (t and self.compiled and self.ops_ok):
            return set()
        return {u.what for u in self._units if u.file == "ops" and u.active and u.type == t["id"]}

    def failed_calls(self):
        return [r for r in self.calls if not r.startswith("ok")]

    def _index(self):
        self._by_name, self._by_id = {}, {}
        for t in self.types:
            self._by_id[t["id"]] = t
            if "name" in t:
                self._by_name.setdefault(t["name"], t)

    def __repr__(self):
        return "<Case %d %s>" % (self.idx, self.tag)


class Batch:
    def __init__(self, ctx_or_name, shards=12, assertions=True, ops=ALL_OPS, ops_for="all",
                 allow_failed_calls=False, jobs=None, verbose=True):
        """ops: which operations to generate; ops_for: 'all' (serde ops also for unnamed entries such as
        Vec<T>) or 'named'; assertions: emit the compile-time trait-bound assertions."""
        if isinstance(ctx_or_name, str):
            self.name, self._log = ctx_or_name, None
        else:
            self.name = "%s_%s" % (ctx_or_name.prop, ctx_or_name.tier)
            self._log = ctx_or_name.log
        self.name = re.sub(r"[^A-Za-z0-9_]", "_", self.name)
        self.dir = os.path.join(ROOT, self.name)
        self.nshards, self.assertions, self.opset, self.ops_for = shards, assertions, tuple(ops), ops_for
        self.allow_failed_calls = allow_failed_calls
        self.jobs = jobs or os.cpu_count() or 8
        self.verbose = verbose
        self.cases = []
        self.timings = {}
        self.cache_hit = False
        self._prepared = 0
        self._t0 = time.time()
        os.makedirs(self.dir, exist_ok=True)

    def log(self, *a):
        if self._log:
            self._log("batch:", *a)
        elif self.verbose:
            print("[batch %s %6.1fs]" % (self.name, time.time() - self._t0), *a, flush=True)

    # ------------------------------------------------------------------ cases / tvh_ir
    def add_case(self, calls, settings=None, tag=None, ops_types=None):
        """ops_types: restrict the generated operations to these type names / ids (big schemas: compile time
        grows with #types x #ops); assertions are still emitted for every named type."""
        c = Case(len(self.cases), calls, settings, tag, ops_types)
        self.cases.append(c)
        return c

    def prepare(self):
        """run the real typify (harness binary tvh_ir, one process) over all cases not yet prepared"""
        t = time.time()
        todo = self.cases[self._prepared:]
        if not todo:
            return
        p = subprocess.run(["cargo", "build", "--offline", "--bin", "tvh_ir"], cwd=HARNESS,
                           capture_output=True, text=True, env=dict(os.environ, CARGO_NET_OFFLINE="true"))
        if p.returncode != 0:
            raise RuntimeError("tvh_ir does not build:\n" + p.stderr[-3000:])
        import vlib as _vlib
        lines = _vlib.run_isolating(TVH_IR, [json.dumps(c.request) for c in todo])
        for c, line in zip(todo, lines):
            if line is None:
                c.error = "abort: the harness process died on this request (stack overflow)"
                continue
            if line == "panic":
                c.error = "harness panic"
                continue
            a = json.loads(line)
            if "error" in a:
                c.error = a["error"]
                continue
            c.calls, c.dump, c.pre_cycles = a["calls"], a["dump"], a["pre_cycles"]
            c.messages, c.render_message = a.get("messages", []), a.get("render_message")
            c.render, c.code, c.parses = a["render"], a["code"], a["parses"]
            c.types, c.uses = a["types"], a["uses"]
            c._index()
        self._prepared = len(self.cases)
        self.timings["prepare_s"] = round(self.timings.get("prepare_s", 0) + time.time() - t, 2)
        self.log("prepare: %d cases through tvh_ir in %.1fs" % (len(todo), time.time() - t))

    # ------------------------------------------------------------------ code generation
    def _units_for(self, c, extra):
        units = []
        named = c.named_types()
        if self.assertions:
            for t in named:
                for bname, bound in BASE_BOUNDS:
                    units.append(Unit("assert", t["id"], bname,
                                      "const _: fn() = || { fn a<T: %s>() {} a::<%s>(); };" % (bound, t["ident"])))
                for impl, bound in IMPL_BOUNDS.items():
                    if t["has_impl"].get(impl):
                        units.append(Unit("assert", t["id"], impl,
                                          "const _: fn() = || { fn a<T: %s>() {} a::<%s>(); };" % (bound, t["ident"])))
            # what has_impl claims for the types WITHOUT a name of their own (tuples, arrays, options, natives ..) is asserted too
            if not c.request["settings"].get("type_mod"):
                for t in c.types:
                    if t.get("kind") in NAMED or t.get("panic") or not isinstance(t.get("ident"), str): continue
                    for impl, bound in IMPL_BOUNDS.items():
                        if (t.get("has_impl") or {}).get(impl):
                            units.append(Unit("assert", t["id"], impl,
                                              "const _: fn() = || { fn a<T: %s>() {} a::<%s>(); };" % (bound, t["ident"])))
        for i, item in enumerate(extra):
            units.append(Unit("assert", None, "extra%d" % i, item))
        ops = set(self.opset)
        n = 0
        for t in c.types:
            if t.get("panic"):
                continue
            tid, ident, is_named = t["id"], t["ident"], t["kind"] in NAMED
            if not is_named and self.ops_for != "all":
                continue
            if c.ops_types is not None and not (t["name"] in c.ops_types or tid in c.ops_types):
                continue

            def arm(op, call):
                units.append(Unit("ops", tid, op, None, '(%d, "%s") => %s,' % (tid, op, call)))
            for op in SERDE_OPS:
                if op in ops:
                    arm(op, "crate::h::%s::<%s>(p)" % (op, ident))
            if not is_named:
                continue
            if t["has_impl"].get("FromStr"):
                for op in STR_OPS:
                    if op in ops:
                        arm(op, "crate::h::%s::<%s>(p)" % (op, ident))
            # the VALUE (its Debug text), not its serialisation: opt-in ops for checks that compare which variant was built
            if "de_dbg" in ops:
                arm("de_dbg", "crate::h::de_dbg::<%s>(p)" % ident)
            if t["has_impl"].get("FromStr") and "fromstr_dbg" in ops:
                arm("fromstr_dbg", "crate::h::fromstr_dbg::<%s>(p)" % ident)
            if t["has_impl"].get("Display") and "display" in ops:
                arm("display", "crate::h::display::<%s>(p)" % ident)
            if t["has_impl"].get("Default") and "default" in ops:
                arm("default", "crate::h::default::<%s>(p)" % ident)
            if t["kind"] == "struct" and t.get("builder"):
                if "unbuild" in ops:
                    arm("unbuild", "crate::h::unbuild::<%s, %s>(p)" % (ident, t["builder"]))
                props = t.get("props", [])
                known = ", ".join(_rs_str(p["name"]) for p in props)
                stringy = []
                for p in props:
                    pt = c.type(p["type_id"])
                    stringy.append(bool(pt and pt.get("kind") in ("newtype", "enum") and pt.get("has_impl", {}).get("FromStr")))
                variants = [("build", None)]
                if any(stringy):
                    variants += [("build_str", "s"), ("build_refstr", "s.as_str()")]
                for op, sarg in variants:
                    if op not in ops:
                        continue
                    n += 1
                    body = ["fn op%d(p: &str) -> ::std::string::String { crate::h::build(p, &[%s], |set| { let mut b = %s::builder();"
                            % (n, known, ident)]
                    for p, st in zip(props, stringy):
                        nm, pty = p["name"], p["type_ident"]
                        normal = "b.%s(crate::h::val::<%s>(%s, v)?)" % (nm, pty, _rs_str(nm))
                        if sarg and st:
                            setter = ("if let ::std::option::Option::Some(s) = crate::h::as_string(v) { b.%s(%s) } else { %s }"
                                      % (nm, sarg, normal))
                        else:
                            setter = normal
                        body.append("  if let ::std::option::Option::Some(v) = set.get(%s) { b = %s; }" % (_rs_str(nm), setter))
                    body.append("  ::std::result::Result::Ok(crate::h::finish::<%s, _>(b)) }) }" % ident)
                    units.append(Unit("ops", tid, op, "\n".join(body), '(%d, "%s") => op%d(p),' % (tid, op, n)))
        return units

    def _header(self, c):
        h = LINTS + "use super::case_%d::*;\n" % c.idx
        tm = c.request["settings"].get("type_mod")
        if tm:
            h += "use super::case_%d as %s;\n" % (c.idx, tm)
        return h

    def _write_case_modules(self, c):
        """(re)write case_<n>_assert.rs / case_<n>_ops.rs from the active units; remember line -> unit"""
        src = os.path.join(self.dir, "shard%d" % c.shard, "src")
        c._lines = {"assert": {}, "ops": {}}
        # assert module
        text = self._header(c)
        ln = text.count("\n")
        for u in c._units:
            if u.file == "assert" and u.active:
                k = u.fn.count("\n") + 1
                for i in range(k):
                    c._lines["assert"][ln + 1 + i] = u
                text += u.fn + "\n"
                ln += k
        _write(os.path.join(src, "case_%d_assert.rs" % c.idx), text)
        # ops module
        text = self._header(c)
        ln = text.count("\n")
        arms = []
        for u in c._units:
            if u.file == "ops" and u.active:
                if u.fn:
                    k = u.fn.count("\n") + 1
                    for i in range(k):
                        c._lines["ops"][ln + 1 + i] = u
                    text += u.fn + "\n"
                    ln += k
                arms.append(u)
        text += "pub fn dispatch(id: u64, op: &str, p: &str) -> ::std::string::String {\n    match (id, op) {\n"
        ln += 2
        for u in arms:
            c._lines["ops"][ln + 1] = u
            text += "        " + u.arm + "\n"
            ln += 1
        text += "        _ => crate::h::noop(),\n    }\n}\n"
        _write(os.path.join(src, "case_%d_ops.rs" % c.idx), text)

    def _write_main(self, k, cases):
        mods, arms = [], []
        for c in cases:
            mods.append("mod case_%d;" % c.idx)
            if c.assert_ok:
                mods.append("mod case_%d_assert;" % c.idx)
            if c.ops_ok:
                mods.append("mod case_%d_ops;" % c.idx)
                arms.append('        "%d" => case_%d_ops::dispatch(t, op, p),' % (c.idx, c.idx))
            else:
                arms.append('        "%d" => "noops".to_string(),' % c.idx)
        text = ("#![allow(warnings)]\nmod h;\n" + "\n".join(mods) +
                "\nfn route(c: &str, t: u64, op: &str, p: &str) -> String {\n    match c {\n" + "\n".join(arms) +
                "\n        _ => \"nocase\".to_string(),\n    }\n}\nfn main() { h::serve(route); }\n")
        _write(os.path.join(self.dir, "shard%d" % k, "src", "main.rs"), text)

    def _pkg(self, k):
        return "tvb_%s_s%d" % (self.name.lower(), k)

    # ------------------------------------------------------------------ build
    def _key(self, extras):
        h = hashlib.sha256()
        def add(x):
            h.update(x if isinstance(x, bytes) else x.encode()); h.update(b"\0")
        for c in self.cases:
            add(json.dumps(c.request, sort_keys=True))
            add(json.dumps(None if c.ops_types is None else sorted(map(str, c.ops_types))))
        add(json.dumps(extras, sort_keys=True))
        add(json.dumps([self.nshards, self.assertions, self.opset, self.ops_for, self.allow_failed_calls]))
        add(_git(["rev-parse", "HEAD"]))
        add(_git(["diff", "HEAD"]))
        for f in sorted(_git(["ls-files", "--others", "--exclude-standard"]).decode().split("\n")):
            if f:
                add(f)
                try:
                    add(open(os.path.join(REPO, f), "rb").read())
                except OSError:
                    pass
        add(open(os.path.abspath(__file__), "rb").read())
        add(open(os.path.join(HARNESS, "src", "bin", "tvh_ir.rs"), "rb").read())
        return h.hexdigest()

    def build(self, extra_items=None):
        """generate the crates, compile, isolate failures. extra_items(case) -> str | [str]: Rust items
        appended to the case's assert module (each list element is dropped on its own if it does not compile)."""
        t_all = time.time()
        self.prepare()
        extras = {}
        for c in self.cases:
            e = extra_items(c) if (extra_items and not c.error) else []
            extras[c.idx] = [e] if isinstance(e, str) else [x for x in (e or []) if x]
        key = self._key(extras)
        lock = open(os.path.join(self.dir, ".lock"), "w")
        fcntl.flock(lock, fcntl.LOCK_EX)
        try:
            if self._load_state(key, extras):
                self.cache_hit = True
                self.timings["build_s"] = round(time.time() - t_all, 2)
                self.log("build: cache hit (%s), %d/%d cases compiled" %
                         (key[:12], sum(c.compiled for c in self.cases), len(self.cases)))
                return
            self._build(key, extras)
        finally:
            fcntl.flock(lock, fcntl.LOCK_UN); lock.close()
        self.timings["build_s"] = round(time.time() - t_all, 2)
        self.log("build: %.1fs total, %d/%d cases compiled, %d never handed to rustc" %
                 (time.time() - t_all, sum(c.compiled for c in self.cases), len(self.cases),
                  sum(1 for c in self.cases if c.skipped)))

    def _eligible(self, c):
        if c.error:
            return "request_error"
        if "panic" in c.calls:
            return "call_panic"
        if c.failed_calls() and not self.allow_failed_calls:
            return "call_failed"
        if c.render != "ok":
            return "render_panic"
        if not c.parses:
            return "noparse"
        return None

    def _assign(self, extras):
        for c in self.cases:
            c.skipped = self._eligible(c)
            c.compiled, c.shard = False, None
            c.rustc_errors, c.assert_errors, c.ops_errors, c.assert_ok, c.ops_ok = [], [], [], True, True
            c._units = [] if c.skipped else self._units_for(c, extras[c.idx])
        live = [c for c in self.cases if not c.skipped]
        n = max(1, min(self.nshards, len(live)))
        load = [0] * n
        for c in sorted(live, key=lambda c: (-len(c.code), c.idx)):       # longest first, least loaded shard
            k = min(range(n), key=lambda i: (load[i], i))
            c.shard = k
            load[k] += len(c.code) + 4000
        return n

    def _build(self, key, extras):
        n = self._assign(extras)
        # ---- lay out the workspace
        for f in os.listdir(self.dir):
            if f.startswith("shard") or f in ("bin", "KEY", "state.json"):
                p = os.path.join(self.dir, f)
                shutil.rmtree(p) if os.path.isdir(p) else os.remove(p)
        _write(os.path.join(self.dir, "Cargo.toml"),
               CARGO_WS % {"members": ", ".join('"shard%d"' % k for k in range(n))})
        shutil.copy(os.path.join(REPO, "Cargo.lock"), os.path.join(self.dir, "Cargo.lock"))
        shutil.copy(os.path.join(REPO, "rust-toolchain.toml"), os.path.join(self.dir, "rust-toolchain.toml"))
        _write(os.path.join(self.dir, ".cargo", "config.toml"),
               "[net]\noffline = true\n\n[build]\ntarget-dir = \"%s\"\n" % TARGET)
        os.makedirs(os.path.join(self.dir, "bin"), exist_ok=True)
        shards = {k: [c for c in self.cases if c.shard == k] for k in range(n)}
        for k, cs in shards.items():
            _write(os.path.join(self.dir, "shard%d" % k, "Cargo.toml"), CARGO_SHARD % {"pkg": self._pkg(k)})
            _write(os.path.join(self.dir, "shard%d" % k, "src", "h.rs"), H_RS)
            for c in cs:
                _write(os.path.join(self.dir, "shard%d" % k, "src", "case_%d.rs" % c.idx), LINTS + c.code)
                self._write_case_modules(c)
        # ---- rounds
        active = {k: list(cs) for k, cs in shards.items()}     # cases still in main.rs
        dirty = set(range(n))
        done = {}
        rounds = []
        for rnd in range(1, MAX_ROUNDS + 1):
            if not dirty:
                break
            t = time.time()
            for k in dirty:
                self._write_main(k, active[k])
            ok, errs, unattr = self._cargo(sorted(dirty))
            nxt = set()
            for k in sorted(dirty):
                if k in ok and not errs.get(k) and not unattr.get(k):
                    done[k] = ok[k]
                    continue
                changed = self._apply_errors(k, active, errs.get(k, {}))
                if not changed:
                    # nothing attributable: split the shard's cases by bisection builds
                    self._bisect(k, active, unattr.get(k, []))
                nxt.add(k)
            rounds.append(round(time.time() - t, 1))
            self.log("build round %d: %d shard(s) in %.1fs, %d clean" % (rnd, len(dirty), time.time() - t, len(dirty) - len(nxt)))
            dirty = nxt
        for k in dirty:      # gave up: nothing of this shard is available
            for c in active[k]:
                c.rustc_errors.append({"code": None, "message": "shard did not converge in %d rounds" % MAX_ROUNDS,
                                       "rendered": "", "line": None})
            active[k] = []
        self.timings["rounds_s"] = rounds
        for k, exe in done.items():
            dst = os.path.join(self.dir, "bin", "shard%d" % k)
            shutil.copy(exe, dst)
            for c in active[k]:
                c.compiled = True
        self._save_state(key, extras)

    def _cargo(self, ks, keep_going=True):
        """cargo build of the given shards. Returns (ok: {k: exe}, errs: {k: {case_idx: {file: [err]}}}, unattr: {k: [err]})"""
        cmd = ["cargo", "build", "--offline", "--message-format=json", "-j", str(self.jobs)]
        if keep_going:
            cmd.append("--keep-going")
        for k in ks:
            cmd += ["-p", self._pkg(k)]
        p = subprocess.run(cmd, cwd=self.dir, capture_output=True, text=True, env=ENV)
        pk = {self._pkg(k): k for k in ks}
        ok, errs, unattr, failed = {}, {}, {}, set()
        for line in p.stdout.split("\n"):
            if not line.startswith("{"):
                continue
            try:
                m = json.loads(line)
            except ValueError:
                continue
            name = (m.get("target") or {}).get("name")
            if m.get("reason") == "compiler-artifact" and name in pk and m.get("executable"):
                ok[pk[name]] = m["executable"]
            if m.get("reason") != "compiler-message" or name not in pk:
                continue
            d = m["message"]
            if d.get("level") not in ("error", "error: internal compiler error"):
                continue
            if not d.get("spans") and re.match(r"aborting due to|could not compile", d.get("message", "")):
                continue
            k = pk[name]
            failed.add(k)
            e = {"code": (d.get("code") or {}).get("code"), "message": d.get("message"),
                 "rendered": d.get("rendered") or ""}
            loc = _locate(d)
            if loc is None and any(re.search(r"(^|/)(h|main)\.rs$", sp.get("file_name") or "") for sp in d.get("spans") or []):
                raise RuntimeError("batch.py bug: error in the fixed part of a shard crate:\n" + e["rendered"])
            if loc is None:
                unattr.setdefault(k, []).append(e)
            else:
                idx, which, ln = loc
                # `line`: for the generated code, the line within c.code (the lint header is not counted)
                e["line"] = ln - LINTS.count("\n") if (which == "code" and ln) else ln
                errs.setdefault(k, {}).setdefault(idx, {}).setdefault(which, []).append(e)
        for k in ks:
            if k not in ok and k not in failed:
                # no binary and no diagnostics: rustc crashed, linker error, dependency failure, ...
                unattr.setdefault(k, []).append({"code": None, "message": "cargo failed without diagnostics",
                                                 "rendered": p.stderr[-3000:]})
            if k in failed:
                ok.pop(k, None)
        return ok, errs, unattr

    def _apply_errors(self, k, active, by_case):
        """drop what the diagnostics point at. Returns True if anything was removed."""
        changed = False
        for c in list(active[k]):
            e = by_case.get(c.idx)
            if not e:
                continue
            if e.get("code"):
                c.rustc_errors += e["code"]
                active[k].remove(c)
                changed = True
                continue
            rewrite = False
            for which, store in (("assert", c.assert_errors), ("ops", c.ops_errors)):
                fatal = []
                for err in e.get(which, []):
                    u = c._lines[which].get(err["line"])
                    if u is None:
                        fatal.append(err)
                        continue
                    if u.active:
                        u.active = False
                        rewrite = changed = True
                    t = c.type(u.type) if u.type is not None else None
                    rec = dict(err, type=t["name"] if t else None)
                    rec["bound" if which == "assert" else "op"] = u.what
                    store.append(rec)
                if fatal:      # error outside any unit (header, dispatch skeleton): the module goes
                    store += [dict(x, type=None, **{("bound" if which == "assert" else "op"): None}) for x in fatal]
                    if which == "assert" and c.assert_ok:
                        c.assert_ok, changed = False, True
                    if which == "ops" and c.ops_ok:
                        c.ops_ok, changed = False, True
            if rewrite:
                self._write_case_modules(c)
        return changed

    def _bisect(self, k, active, unattr):
        """errors that point at no case file: find the culprits by building subsets of the shard"""
        cases = list(active[k])
        self.log("shard %d: %d unattributable error(s), bisecting %d cases: %s"
                 % (k, len(unattr), len(cases), (unattr[0]["message"] if unattr else "")[:200]))
        good = []

        def solve(cs):
            if not cs:
                return
            self._write_main(k, good + cs)
            ok, errs, un = self._cargo([k], keep_going=False)
            if k in ok:
                good.extend(cs)
                return
            if errs.get(k) and self._apply_errors(k, {k: cs}, errs[k]):
                return solve([c for c in cs if not c.rustc_errors])
            if len(cs) == 1:
                cs[0].rustc_errors += [dict(x, line=None) for x in (un.get(k) or unattr)]
                return
            solve(cs[:len(cs) // 2]); solve(cs[len(cs) // 2:])
        solve(cases)
        active[k] = [c for c in cases if c in good]

    # ------------------------------------------------------------------ cache state
    def _save_state(self, key, extras):
        st = {"key": key, "cases": []}
        for c in self.cases:
            st["cases"].append({
                "shard": c.shard, "skipped": c.skipped, "compiled": c.compiled, "rustc_errors": c.rustc_errors,
                "assert_errors": c.assert_errors, "ops_errors": c.ops_errors, "assert_ok": c.assert_ok,
                "ops_ok": c.ops_ok, "inactive": [i for i, u in enumerate(c._units) if not u.active]})
        st["timings"] = self.timings
        _write(os.path.join(self.dir, "state.json"), json.dumps(st))
        _write(os.path.join(self.dir, "KEY"), key)

    def _load_state(self, key, extras):
        try:
            if open(os.path.join(self.dir, "KEY")).read().strip() != key:
                return False
            st = json.load(open(os.path.join(self.dir, "state.json")))
        except (OSError, ValueError):
            return False
        if st.get("key") != key or len(st["cases"]) != len(self.cases):
            return False
        for s in st["cases"]:
            if s["compiled"] and not os.path.exists(os.path.join(self.dir, "bin", "shard%d" % s["shard"])):
                return False
        for c, s in zip(self.cases, st["cases"]):
            c.shard, c.skipped, c.compiled = s["shard"], s["skipped"], s["compiled"]
            c.rustc_errors, c.assert_errors, c.ops_errors = s["rustc_errors"], s["assert_errors"], s["ops_errors"]
            c.assert_ok, c.ops_ok = s["assert_ok"], s["ops_ok"]
            c._units = [] if c.skipped else self._units_for(c, extras[c.idx])
            for i in s["inactive"]:
                c._units[i].active = False
        return True

    # ------------------------------------------------------------------ run
    def run(self, requests, timeout=120):
        """requests: [(case, type_name_or_id, op, payload_str)] -> [answer], same order.
        Answers: what the dispatcher printed (`ok ...`, `err ...`, `panic`, `noop`, `badvalue ...`, ...), or
        `nocompile` (case not in a binary), `notype`, `abort` (the request killed the process), `timeout`."""
        t0 = time.time()
        ans = [None] * len(requests)
        per = {}
        for i, (c, ty, op, payload) in enumerate(requests):
            if not c.compiled:
                ans[i] = "nocompile"; continue
            t = c.type(ty)
            if t is None:
                ans[i] = "notype"; continue
            if not c.ops_ok:
                ans[i] = "noops"; continue
            per.setdefault(c.shard, []).append((i, "%d %d %s %s" % (c.idx, t["id"], op, json.dumps(payload))))
        def work(k):
            exe = os.path.join(self.dir, "bin", "shard%d" % k)
            items = per[k]
            pos = 0
            while pos < len(items):
                inp = "".join(l + "\n" for _, l in items[pos:])
                proc = subprocess.Popen([exe], stdin=subprocess.PIPE, stdout=subprocess.PIPE,
                                        stderr=subprocess.DEVNULL, text=True, encoding="utf-8",
                                        errors="replace")
                killed = False
                try:
                    out, _ = proc.communicate(inp, timeout=timeout)
                except subprocess.TimeoutExpired:
                    proc.kill(); killed = True
                    out, _ = proc.communicate()
                lines = out.split("\n")
                lines.pop()       # text after the last newline: "" or a truncated answer
                lines = lines[:len(items) - pos]
                for j, l in enumerate(lines):
                    ans[items[pos + j][0]] = l
                pos += len(lines)
                if pos < len(items):          # the process died (or hung) on request `pos`
                    ans[items[pos][0]] = "timeout" if killed else "abort"
                    pos += 1
        with ThreadPoolExecutor(max_workers=min(self.jobs, max(1, len(per)))) as ex:
            list(ex.map(work, sorted(per)))
        self.timings["run_s"] = round(self.timings.get("run_s", 0) + time.time() - t0, 2)
        return ans

    def summary(self):
        """per-case one-liners, for logs"""
        out = []
        for c in self.cases:
            st = "compiled" if c.compiled else ("skipped:" + c.skipped if c.skipped else
                                               "rustc:" + ",".join(sorted({str(e["code"]) for e in c.rustc_errors})))
            extra = ""
            if c.assert_errors:
                extra += " assert-:%s" % ",".join("%s/%s" % (e["type"], e["bound"]) for e in c.assert_errors)
            if c.ops_errors:
                extra += " ops-:%s" % ",".join("%s/%s" % (e["type"], e["op"]) for e in c.ops_errors)
            out.append("case %3d %-40s shard=%s %s%s" % (c.idx, c.tag[:40], c.shard, st, extra))
        return out


# ------------------------------------------------------------------------------------------ helpers
def _write(path, text):
    os.makedirs(os.path.dirname(path), exist_ok=True)
    with open(path, "w", encoding="utf-8") as f:
        f.write(text)


def _git(args):
    return subprocess.run(["git"] + args, cwd=REPO, capture_output=True).stdout


_CASE_FILE = re.compile(r"(?:^|/)case_(\d+)(?:_(assert|ops))?\.rs$")


_CASE_TEXT = re.compile(r"\bcase_(\d+)(?:_(assert|ops))?(?:::|\.rs)")


def _locate_span(diag):
    spans = sorted(diag.get("spans") or [], key=lambda s: not s.get("is_primary"))
    for sp in spans:
        while sp:
            m = _CASE_FILE.search(sp.get("file_name") or "")
            if m:
                return int(m.group(1)), (m.group(2) or "code"), sp.get("line_start")
            sp = (sp.get("expansion") or {}).get("span")
    for ch in diag.get("children") or []:
        loc = _locate_span(ch)
        if loc:
            return loc
    return None


def _locate(diag):
    """(case idx, 'code'|'assert'|'ops', line) of a diagnostic: primary span first, macro expansions unwound,
    then the spans of the notes; failing that (rustc's query-cycle and post-monomorphisation errors carry a dummy
    span) the first `case_<n>::` path mentioned in the text, generated code preferred."""
    loc = _locate_span(diag)
    if loc:
        return loc
    texts = [diag.get("message") or ""] + [c.get("message") or "" for c in diag.get("children") or []]
    found = [(int(m.group(1)), m.group(2) or "code") for t in texts for m in _CASE_TEXT.finditer(t)]
    for f in found:
        if f[1] == "code":
            return f[0], "code", None
    if found:
        return found[0][0], found[0][1], None
    return None

"""M0 for what the `enum` keyword becomes (convert.rs convert_enum_string / convert_typed_enum / convert_unknown_enum, util.rs
StringValidator): the real TypeSpace (harness tvh_disp, the schema as the definition `T`) against Model/ConvertEnum.lean
(drv_enum) over   type (absent / string / integer / number / boolean)  x  value lists (strings in ASCII and multi-byte at and
around the length bounds, numbers, Booleans, null, mixtures, the empty list, repetitions)  x  string constraints (minLength,
maxLength, pattern, combinations). Compared: the kind of the resulting type, the variant names of a string enum IN ORDER, the
admitted values of a typed enumeration, the Option wrapping, errors and panics."""
import itertools, json
import vlib

VALUES = [["a", "b"], ["a"], [], ["é", "éé", "abc"], ["\U0001F600", "ab", "abcd"], ["a", None], [None], [None, None], ["a", 1], ["x", "x"],
          [1, 2, 3], [1, None], [1.5, 2], [1, "a", None], [True], [True, False], [True, None], ["", "a"], ["ab", "日本", "a b"],
          [0, -1, 18446744073709551615], [1.0, 2], [[1], [2]], [{"k": 1}], ["a", ["b"]], ["long-value-here", "s"]]
TYPES = [None, "string", "integer", "number", "boolean"]
STRV = [{}, {"maxLength": 1}, {"maxLength": 2}, {"minLength": 2}, {"minLength": 2, "maxLength": 3}, {"pattern": "^[a-z]+$"},
        {"pattern": "^.$"}, {"maxLength": 2, "pattern": "^a"}, {"maxLength": 0}]

def schemas():
    out = []
    for ty in TYPES:
        for vs in VALUES:
            for sv in (STRV if ty == "string" else [{}]):
                s = dict(sv); s["enum"] = vs
                if ty is not None: s["type"] = ty
                out.append(s)
    return out

def proj(r):
    """the part of a description both sides give"""
    if r == "panic" or not isinstance(r, dict): return r
    if r.get("r") == "err": return {"r": "err", "kind": r.get("kind")}
    k = r.get("kind")
    if k == "enum": return {"kind": "enum", "variants": r.get("variants")}
    if k == "option": return {"kind": "option", "inner_desc": proj(r.get("inner_desc"))}
    if k == "newtype": return {"kind": "newtype", "over": r.get("over"), "values": r.get("values")}
    return {"kind": k}

def stage(ctx):
    ss = schemas()
    lines = [json.dumps(s) for s in ss]
    real = vlib.run_isolating(vlib.tvh("disp"), lines)
    model = vlib.run_side("model", "enum", lines, "enum")
    stats = {"schemas": len(ss), "compared": 0, "other_arm": 0, "by_kind": {}}
    dis = []
    for s, r, m in zip(ss, real, model):
        if m.startswith("other "): stats["other_arm"] += 1; continue
        rr = "panic" if r == "panic" else (json.loads(r) if r else "aborted")
        mm = json.loads(m)
        stats["compared"] += 1
        a, b = proj(rr), proj(mm)
        key = a if isinstance(a, str) else (a.get("r") or a.get("kind"))
        stats["by_kind"][key] = stats["by_kind"].get(key, 0) + 1
        if a != b: dis.append({"schema": s, "real": a, "model": b})
    return stats, dis

if __name__ == "__main__":
    class Ctx: pass
    st, dis = stage(Ctx())
    print(st); print(len(dis))
    for d in dis[:40]: print(json.dumps(d)[:400])

"""M3: Serde/StrConv/Builder models (Lean, drv_ir) vs the compiled generated code (batch pipeline)."""
import json, re, subprocess
import vlib
from batch import split_answer

def _rf(x):
    # f32-typed members print with f32 precision in the compiled code; the model keeps the decimal: compare
    # non-integral floats to 6 significant digits (floats are not what any property here is about)
    if isinstance(x, float) and x != int(x): return float('%.6g' % x)
    if isinstance(x, list): return [_rf(y) for y in x]
    if isinstance(x, dict): return {k: _rf(v) for k, v in x.items()}
    return x

def canon(text):
    return json.dumps(_rf(json.loads(text)), sort_keys=True, separators=(',', ':'), ensure_ascii=False)

def model_answers(cases, requests):
    """cases: list of batch Case (with .dump, .settings); requests: [(case, type_name, op, payload_str)]"""
    lines = []; idx = {}
    for c in cases:
        idx[id(c)] = "c%d" % len(idx)
        lines.append("ir %s %s" % (idx[id(c)], json.dumps({"dump": c.dump, "settings": getattr(c, "settings", {}) or {}})))
    nreg = len(lines)
    for (c, ty, op, payload) in requests:
        lines.append("%s %s %s %s" % (op, idx[id(c)], ty, payload) if payload != "" else "%s %s %s" % (op, idx[id(c)], ty))
    p = subprocess.run([vlib.drv("ir")], input="\n".join(lines) + "\n", capture_output=True, text=True)
    if p.returncode != 0: raise RuntimeError("drv_ir failed: " + p.stderr[-2000:])
    out = p.stdout.split("\n")[:-1]
    if len(out) != len(lines): raise RuntimeError("drv_ir: %d answers for %d lines" % (len(out), len(lines)))
    bad = [o for o in out[:nreg] if o != "ok"]
    return out[nreg:], len(bad)

BUILD_OPS = ("build", "build_str", "build_refstr")
def _build_err(msg):
    """builder error text up to the property name: the model does not carry the inner conversion error's text"""
    m = re.match(r"(error converting supplied value for [^:]*):", msg)
    return m.group(1) if m else msg

def norm_real(op, ans):
    """canonical (status, payload) of a compiled-code answer"""
    st, parts = split_answer(ans)
    if st == "ok":
        try: return ("ok", tuple(canon(p) for p in parts))
        except Exception: return ("ok?", tuple(parts))
    if st in ("err", "err2", "ser_err"):
        if op in BUILD_OPS and parts: return ("err", (_build_err("\t".join(parts)),))
        return ("err", ())
    if st == "badvalue": return ("badvalue", tuple(parts[:1]))
    return (st, ())

def norm_model(op, ans):
    st, _, rest = ans.partition(" ")
    if st == "ok":
        parts = rest.split("\t")
        try: return ("ok", tuple(canon(p) for p in parts))
        except Exception: return ("ok?", tuple(parts))
    if st == "err":
        if op in BUILD_OPS and rest: return ("err", (_build_err(rest),))
        return ("err", ())
    if st == "badvalue": return ("badvalue", (rest,))
    return (st, ())

SKIP_MODEL = {"unsupported", "fuel", "se-unsupported", "se-fuel", "de2-unsupported", "no-case", "badjson"}
SKIP_REAL = {"noop", "nocompile", "notype", "noops", "timeout"}

def nested_default_case(c):
    """the dump has a default (member state or type-level) in which a struct value omits a member that has its own
    default: the emitted default function writes `Default::default()` there (known finding C06-nested-default,
    refuted in Lean: C06Findings.default_value_full_false), so compiled code and `Serde.deStruct`/`dflt` (which use
    `de d`; equal to the emitted expression inside WFDefault by C06.default_value_partial) legitimately differ."""
    if getattr(c, "_nested_default", None) is not None: return c._nested_default
    from props.c06 import omits_defaulted_member
    r = False
    try:
        for tid, e in (c.dump or {}).get("entries", {}).items():
            if e.get("default") is not None and omits_defaulted_member(c.dump, tid, e["default"]): r = True; break
            pss = [e.get("props", [])] + [v["details"].get("struct", []) for v in e.get("variants", []) if isinstance(v.get("details"), dict)]
            for ps in pss:
                for p in ps:
                    if isinstance(p.get("state"), dict) and omits_defaulted_member(c.dump, p["type_id"], p["state"]["default"]): r = True
            if r: break
    except Exception: r = False
    c._nested_default = r
    return r

def compare(b, cases, requests):
    """returns dict(real=[], model=[], disagreements=[(request, real, model)], skipped_model=n, skipped_real=n)"""
    real = b.run(requests)
    model, badir = model_answers(cases, requests)
    dis = []; sm = sr = 0; status = {}; known_c06 = 0
    for rq, ra, ma in zip(requests, real, model):
        op = rq[2]
        nr, nm = norm_real(op, ra), norm_model(op, ma)
        status[nr[0]] = status.get(nr[0], 0) + 1
        if nm[0] in SKIP_MODEL or nm[0].startswith("se-") and nm[0] != "se-err": sm += 1; continue
        if nr[0] in SKIP_REAL: sr += 1; continue
        if nr != nm:
            if nested_default_case(rq[0]): known_c06 += 1
            else: dis.append((rq, ra, ma))
    return {"real": real, "model": model, "disagreements": dis, "skipped_model": sm, "skipped_real": sr, "attributed_C06_nested_default": known_c06,
            "bad_ir": badir, "real_status": status}

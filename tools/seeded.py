#!/usr/bin/env python3
"""Seeded-change bookkeeping.
  seeded.py import <Cxx>            copy /tmp/seed_<Cxx>/out/<k> to /verif/seeded/<Cxx>-<k>
  seeded.py verify <id>..           scratch worktree: patch applies, workspace builds, whole test suite passes (unedited)
  seeded.py run <id> [Cyy ..]       apply to /repo, run the quick check(s) (default: the seed's own property), restore /repo
Nothing here is used by a registered check; scratch lives under /tmp and is removed."""
import json, os, shutil, subprocess, sys, time
SEED = "/verif/seeded"
def sh(cmd, **kw): return subprocess.run(cmd, shell=True, text=True, stdout=subprocess.PIPE, stderr=subprocess.STDOUT, **kw)
def meta(id):
    p = os.path.join(SEED, id, "meta.json"); return p, (json.load(open(p)) if os.path.exists(p) else {})
def cmd_import(prop):
    src = "/tmp/seed_%s/out" % prop
    for k in sorted(os.listdir(src)):
        d = os.path.join(SEED, "%s-%s" % (prop, k)); os.makedirs(d, exist_ok=True)
        for f in os.listdir(os.path.join(src, k)): shutil.copy(os.path.join(src, k, f), d)
        print("imported", d)
def cmd_verify(ids):
    wt, tgt = "/tmp/seedverify_wt", "/tmp/seedverify_target"
    sh("git -C /repo worktree remove --force %s; git -C /repo worktree prune" % wt)
    r = sh("git -C /repo worktree add --detach %s HEAD" % wt); assert r.returncode == 0, r.stdout
    try:
        for id in ids:
            p, m = meta(id)
            sh("git -C %s checkout -- . && git -C %s clean -fdq" % (wt, wt))
            a = sh("git -C %s apply %s/%s/patch.diff" % (wt, SEED, id))
            if a.returncode != 0: m["confirmed"] = {"applies": False, "log": a.stdout[-800:]}; json.dump(m, open(p, "w"), indent=1); print(id, "DOES NOT APPLY"); continue
            t = time.time()
            r = sh("cd %s && CARGO_TARGET_DIR=%s cargo test --workspace --no-fail-fast --offline" % (wt, tgt))
            ok = r.returncode == 0
            res = [l for l in r.stdout.splitlines() if l.startswith("test result")]
            m["confirmed"] = {"applies": True, "tests_pass": ok, "test_results": len(res), "head": sh("git -C /repo rev-parse --short HEAD").stdout.strip(), "seconds": int(time.time() - t)}
            if not ok: m["confirmed"]["log"] = "\n".join([l for l in r.stdout.splitlines() if "FAILED" in l or "panicked" in l or l.startswith("error")][:20])
            json.dump(m, open(p, "w"), indent=1); print(id, "tests_pass=%s" % ok, "(%ds)" % (time.time() - t))
    finally:
        sh("git -C /repo worktree remove --force %s; git -C /repo worktree prune; rm -rf %s" % (wt, tgt))
def cmd_run(id, props):
    p, m = meta(id)
    props = props or [m.get("property") or id.split("-")[0]]
    st = sh("git -C /repo status --porcelain").stdout.strip()
    if st: print("refusing: /repo working tree is not clean:\n" + st); return 2
    a = sh("git -C /repo apply %s/%s/patch.diff" % (SEED, id))
    if a.returncode != 0: print("patch does not apply", a.stdout); return 2
    out = {}
    try:
        for pr in props:
            t = time.time()
            r = sh("cd /verif && ./check %s quick" % pr)
            v = [l for l in r.stdout.splitlines() if l.startswith("VIOLATION")]
            out[pr] = {"exit": r.returncode, "violations": v[:6], "seconds": int(time.time() - t)}
            for k, l in enumerate(v[:3]):
                rp = l.split("replay=")[1].split()[0]
                if os.path.exists(rp): shutil.copy(rp, os.path.join(SEED, id, "replay-%s-%d.json" % (pr, k)))
            print(id, pr, "exit=%d" % r.returncode, v[:2])
    finally:
        sh("git -C /repo checkout -- .")
    m.setdefault("detected_by", {}).update(out); json.dump(m, open(p, "w"), indent=1)
    return 0
if __name__ == "__main__":
    c = sys.argv[1]
    if c == "import": cmd_import(sys.argv[2])
    elif c == "verify": cmd_verify(sys.argv[2:])
    elif c == "run": sys.exit(cmd_run(sys.argv[2], sys.argv[3:]))

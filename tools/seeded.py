#!/usr/bin/env python3
"""Seeded-change bookkeeping.
  seeded.py import <Cxx>            copy /tmp/seed_<Cxx>/out/<k> to /verif/seeded/<Cxx>-<k>
  seeded.py verify <id>..           scratch worktree: patch applies, workspace builds, whole test suite passes (unedited)
  seeded.py run <id> [Cyy ..]       apply to /repo, run the quick check(s) (default: the seed's own property), restore /repo
  seeded.py snap [dir]              frozen copy of /verif for `run` (SEED_SNAP=<dir>): /verif may then be edited while seeds run
Nothing here is used by a registered check; scratch lives under /tmp and is removed."""
import json, os, shutil, subprocess, sys, time
SEED = "/verif/seeded"
def sh(cmd, **kw): return subprocess.run(cmd, shell=True, text=True, stdout=subprocess.PIPE, stderr=subprocess.STDOUT, **kw)
def meta(id):
    p = os.path.join(SEED, id, "meta.json"); return p, (json.load(open(p)) if os.path.exists(p) else {})
def cmd_import(prop, rnd=1):
    """round 1: /tmp/seed_<Cxx>/out/{1,2} -> <Cxx>-1, -2; round r: /tmp/seed<r>_<Cxx>/out/{1,2} -> <Cxx>-(2r-1), -(2r)"""
    src = ("/tmp/seed_%s/out" % prop) if rnd == 1 else ("/tmp/seed%d_%s/out" % (rnd, prop))
    for k in sorted(os.listdir(src)):
        if not os.path.exists(os.path.join(src, k, "patch.diff")): continue
        n = int(k) + 2 * (rnd - 1) if k.isdigit() else k
        d = os.path.join(SEED, "%s-%s" % (prop, n)); os.makedirs(d, exist_ok=True)
        for f in os.listdir(os.path.join(src, k)):
            sp = os.path.join(src, k, f)
            if os.path.isdir(sp):
                shutil.copytree(sp, os.path.join(d, f), dirs_exist_ok=True, ignore=shutil.ignore_patterns("target"))
            elif os.path.getsize(sp) < 2_000_000: shutil.copy(sp, d)
        print("imported", d)
def cmd_verify(ids):
    wt, tgt = "/tmp/seedverify_wt", "/tmp/seedverify_target"
    sh("git -C /repo worktree remove --force %s; git -C /repo worktree prune" % wt)
    r = sh("git -C /repo worktree add --detach %s HEAD" % wt); assert r.returncode == 0, r.stdout
    try:
        for id in ids:
            p, m = meta(id)
            sh("git -C %s checkout -- . && git -C %s clean -fdq" % (wt, wt))
            a = sh("git -C %s apply %s/%s/patch.diff" % (wt, SEED, id))
            if a.returncode != 0: m["confirmed"] = {"applies": False, "log": a.stdout[-800:]}; json.dump(m, open(p, "w"), indent=1); print(id, "DOES NOT APPLY"); continue
            t = time.time()
            r = sh("cd %s && CARGO_TARGET_DIR=%s cargo test --workspace --no-fail-fast --offline" % (wt, tgt))
            ok = r.returncode == 0
            res = [l for l in r.stdout.splitlines() if l.startswith("test result")]
            m["confirmed"] = {"applies": True, "tests_pass": ok, "test_results": len(res), "head": sh("git -C /repo rev-parse --short HEAD").stdout.strip(), "seconds": int(time.time() - t)}
            if not ok: m["confirmed"]["log"] = "\n".join([l for l in r.stdout.splitlines() if "FAILED" in l or "panicked" in l or l.startswith("error")][:20])
            json.dump(m, open(p, "w"), indent=1); print(id, "tests_pass=%s" % ok, "(%ds)" % (time.time() - t))
    finally:
        sh("git -C /repo worktree remove --force %s; git -C /repo worktree prune; rm -rf %s" % (wt, tgt))
def cmd_run(id, props):
    """runs inside a private mount namespace with overlays over /repo and /verif: the patch is applied to the
    overlay copy of /repo, the checks run from the overlay copy of /verif, nothing outside is modified"""
    p, m = meta(id)
    props = props or [m.get("property") or id.split("-")[0]]
    tmp = "/tmp/sv_%s" % id
    sh("rm -rf %s" % tmp)
    for d in ("vu", "vw", "ru", "rw", "out"): os.makedirs(os.path.join(tmp, d))
    snap = os.environ.get("SEED_SNAP")          # a frozen copy of /verif (seeded.py snap): /verif can be edited while seeds run
    lower = ("mkdir -p {t}/live {t}/cu {t}/cw; mount --bind /verif {t}/live\n"
             "mount -t overlay overlay -o lowerdir=%s,upperdir={t}/vu,workdir={t}/vw /verif\n"
             "mkdir -p /verif/.cache; mount -t overlay overlay -o lowerdir={t}/live/.cache,upperdir={t}/cu,workdir={t}/cw /verif/.cache\n" % snap) if snap and os.path.isdir(snap) else \
            "mount -t overlay overlay -o lowerdir=/verif,upperdir={t}/vu,workdir={t}/vw /verif\n"
    script = ("set -e\n" + lower + """mount -t overlay overlay -o lowerdir=/repo,upperdir={t}/ru,workdir={t}/rw /repo
cd /repo && git checkout -q -- . && git apply {seed}/{id}/patch.diff
cd /verif
set +e
for pr in {props}; do
  s=$(date +%s); ./check $pr quick > {t}/out/$pr.log 2>&1; echo "rc=$? t=$(( $(date +%s) - s ))" >> {t}/out/$pr.log
  for f in $(grep '^VIOLATION' {t}/out/$pr.log | sed 's/.*replay=//; s/ .*//' | head -3); do cp $f {t}/out/ 2>/dev/null; done
done
""").format(t=tmp, seed=SEED, id=id, props=" ".join(props))
    open(tmp + "/run.sh", "w").write(script)
    r = sh("unshare --mount bash %s/run.sh" % tmp)
    if r.returncode != 0: print("namespace run failed:", r.stdout[-1500:])
    out = {}
    for pr in props:
        lp = "%s/out/%s.log" % (tmp, pr)
        if not os.path.exists(lp): continue
        lines = open(lp).read().splitlines()
        os.makedirs("/tmp/seedlogs", exist_ok=True); shutil.copy(lp, "/tmp/seedlogs/%s_%s.log" % (id, pr))
        v = [l for l in lines if l.startswith("VIOLATION")]
        rc = [l for l in lines if l.startswith("rc=")]
        out[pr] = {"exit": int(rc[-1].split()[0][3:]) if rc else None, "seconds": int(rc[-1].split()[1][2:]) if rc else None, "violations": v[:6]}
        print(id, pr, out[pr]["exit"], v[:2])
    for f in os.listdir(tmp + "/out"):
        if f.endswith(".json"): shutil.copy(os.path.join(tmp, "out", f), os.path.join(SEED, id, "replay-" + f))
    m.setdefault("detected_by", {}).update(out); json.dump(m, open(p, "w"), indent=1)
    sh("rm -rf %s" % tmp)
    return 0
def cmd_table():
    """markdown table of the seeded changes and which check reports them (spliced into DESIGN.md 0.6)"""
    rows = ["| seed | what the change does | needs | reported by (quick check) |", "|------|----------------------|-------|---------------------------|"]
    for id in sorted(os.listdir(SEED)):
        _, m = meta(id)
        if not m: continue
        det = []
        for pr, r in sorted(m.get("detected_by", {}).items()):
            if r.get("exit") == 1 and r.get("violations"):
                det.append("%s%s" % (pr, " (no failing input found: broken obligation only)" if all("no-failing-input" in v for v in r["violations"]) else " with a failing input"))
            else: det.append("%s: NOT reported" % pr)
        cell = lambda t: (t or "").replace("|", "/").replace("\n", " ")
        rows.append("| %s | %s | %s | %s |" % (id, cell(m.get("summary"))[:260], cell(m.get("needs") or m.get("mechanism"))[:200], "; ".join(det) or "not run"))
    text = "\n".join(rows) + "\n"
    d = open("/verif/DESIGN.md").read()
    a, b = "<!-- seeded-table-begin -->\n", "<!-- seeded-table-end -->\n"
    if a in d and b in d:
        d = d[:d.index(a) + len(a)] + text + d[d.index(b):]
        open("/verif/DESIGN.md", "w").write(d)
    print(text)
if __name__ == "__main__":
    c = sys.argv[1]
    if c == "table": cmd_table(); sys.exit(0)
    if c == "import": cmd_import(sys.argv[2], int(sys.argv[3]) if len(sys.argv) > 3 else 1)
    elif c == "verify": cmd_verify(sys.argv[2:])
    elif c == "run": sys.exit(cmd_run(sys.argv[2], sys.argv[3:]))
    elif c == "snap":
        d = sys.argv[2] if len(sys.argv) > 2 else "/tmp/verif_snap"
        r = sh("mkdir -p %s && rsync -a --delete --exclude /.cache --exclude /.git /verif/ %s/" % (d, d)); print(r.stdout, "snapshot in", d, "(export SEED_SNAP=%s)" % d)

"""M0 for `util.rs all_mutually_exclusive` (the test by which convert_any_of chooses an enum or the struct of flattened optional
subtypes): the real function (harness tvh_excl, hook verif_all_mutually_exclusive) against Model/Exclusive.lean (drv_excl) on
* every ordered pair of a fixed pool of schema shapes (booleans, typed / untyped, enumerations, constants, type lists, arrays in
  every arm of array_schemas_mutually_exclusive, objects in every arm of object_schemas_mutually_exclusive, subschema-only
  schemas, references that resolve / do not resolve / carry siblings), random triples and quadruples of the pool,
* the branch lists of every anyOf / oneOf of generated documents (with the document's definitions).
The model answers `none` exactly where the source panics (`unwrap()` on a required name without a property, `todo!()` in resolve, a
missing definition); everywhere else the two must agree."""
import copy, itertools, json, subprocess
import vlib

S = {"type": "string"}; I = {"type": "integer"}
def _obj(props, req=(), **kw):
    o = {"type": "object", "properties": props}
    if req: o["required"] = list(req)
    o.update(kw); return o

POOL = [True, False, {}, S, I, {"type": "number"}, {"type": "boolean"}, {"type": "null"}, {"type": ["string", "null"]}, {"type": ["integer", "string"]},
        {"type": ["null"]}, {"enum": [1, 2]}, {"enum": ["a", "b"]}, {"enum": [None]}, {"enum": [1.5, "x", None]}, {"type": "string", "enum": ["a"]},
        {"const": "a"}, {"type": "string", "const": "b"}, {"type": "string", "format": "uuid"}, {"type": "integer", "minimum": 0},
        {"type": "string", "maxLength": 3}, {"type": "array", "items": S}, {"type": "array", "items": I},
        {"type": "array", "items": [S, I], "minItems": 2, "maxItems": 2}, {"type": "array", "items": [I, I, I], "minItems": 3, "maxItems": 3},
        {"type": "array", "items": S, "maxItems": 1}, {"type": "array", "items": S, "minItems": 2}, {"type": "array", "items": [S], "minItems": 1, "maxItems": 2},
        {"type": "array", "items": S, "uniqueItems": True}, {"type": "array"}, {"type": "array", "minItems": 3}, {"type": "array", "maxItems": 2},
        _obj({"a": I}), _obj({"a": I}, ["a"]), _obj({"b": S}, ["b"]), _obj({"a": I, "b": S}, ["a"]), _obj({"a": I}, [], additionalProperties=False),
        _obj({"t": {"type": "string", "enum": ["x"]}, "v": I}, ["t"]), _obj({"t": {"type": "string", "enum": ["y"]}, "w": S}, ["t"]),
        _obj({"t": {"const": "x"}, "u": S}, ["t"]), _obj({"t": S, "u": {"const": "y"}}, ["u"]), _obj({"t": {"enum": ["x"]}}, ["t", "zz"]),
        _obj({}, ["q"]), {"type": "object"}, {"type": "object", "required": ["a"]}, {"type": "object", "additionalProperties": S},
        _obj({"a": I}, title="T"), _obj({"a": I}, ["a"], description="d"), {"allOf": [_obj({"a": I}, ["a"]), _obj({"c": S})]}, {"anyOf": [S, I]},
        {"oneOf": [_obj({"a": I}, ["a"]), S]}, {"not": S}, {"not": _obj({"a": I}, ["a"])}, {"allOf": [S], "title": "x"}, {"allOf": [S], "anyOf": [I]},
        {"if": S, "then": I}, {"allOf": []}, {"$ref": "#/definitions/A"}, {"$ref": "#/definitions/B", "description": "d"},
        {"$ref": "#/definitions/A", "type": "object"}, {"$ref": "#/definitions/Missing"}, {"type": "object", "properties": {}, "required": []},
        {"title": "only"}, {"format": "x"}, {"type": "string", "enum": []}, {"enum": []}, {"deprecated": False, "allOf": [I]}, {"deprecated": True, "allOf": [I]}]
DEFS = {"A": _obj({"x": I}, ["x"]), "B": {"type": "string", "enum": ["p", "q"]}, "C": {"$ref": "#/definitions/A"}}

def requests(rng, ndocs, nrandom):
    import gen
    reqs = [{"defs": DEFS, "schemas": [a, b]} for a, b in itertools.product(POOL, POOL)]
    for _ in range(nrandom):
        reqs.append({"defs": DEFS, "schemas": [copy.deepcopy(rng.choice(POOL)) for _ in range(rng.choice([3, 3, 4]))]})
    for i in range(ndocs):
        d = gen.gen_universe(rng, 3 + i % 5, gen.FEATURE_SETS["unions"] if i % 2 else gen.FEATURE_SETS["all"])
        for _, s in gen.iter_schemas(d):
            if isinstance(s, dict):
                for comb in ("anyOf", "oneOf"):
                    if isinstance(s.get(comb), list) and len(s[comb]) >= 2:
                        reqs.append({"defs": d.get("definitions", {}), "schemas": s[comb]})
    return reqs

def _run(binary, lines):
    p = subprocess.run([binary], input="\n".join(lines) + "\n", capture_output=True, text=True)
    return p.stdout.split("\n")[:-1] if p.returncode == 0 else None

def stage(ctx, thorough=False):
    """-> (stats, disagreements)"""
    reqs = requests(ctx.rng, 400 if thorough else 30, 3000 if thorough else 300)
    lines = [json.dumps(r) for r in reqs]
    real = _run(vlib.tvh("excl"), lines); model = _run(vlib.drv("excl"), lines)
    if real is None or model is None or len(real) != len(lines) or len(model) != len(lines):
        return {"requests": len(lines), "ran": False}, [{"what": "a side of the correspondence did not answer every request",
                                                         "real": None if real is None else len(real), "model": None if model is None else len(model)}]
    stats = {"requests": len(lines), "ran": True, "agree_true": 0, "agree_false": 0, "real_panics_model_none": 0, "model_none_real_answers": 0, "badrequest": 0}
    dis = []
    for r, m, l in zip(real, model, reqs):
        if r == "badrequest": stats["badrequest"] += 1
        elif r == m: stats["agree_true" if r == "true" else "agree_false"] += 1
        elif r == "panic" and m == "none": stats["real_panics_model_none"] += 1
        else:
            # (the model answers `none` only where the source panics; an answer of the source it has none for is a gap)
            if m == "none": stats["model_none_real_answers"] += 1
            dis.append({"request": l, "real": r, "model": m})
    return stats, dis

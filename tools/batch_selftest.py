#!/usr/bin/env python3
"""Self-test / demo of the batch pipeline (tools/batch.py).

    python3 tools/batch_selftest.py [--name selftest] [--shards N] [--fresh] [--fresh-target]

~40 cases from /repo/typify/tests/schemas/*.json (plain and with struct_builder), ~10 hand-written ones,
and cases known not to compile on this tree. Checks that failures are isolated, prints per-op answers and
wall times. Exit status 0 iff every expectation holds.
"""
import argparse, glob, json, os, shutil, sys, time

sys.path.insert(0, os.path.dirname(os.path.abspath(__file__)))
import batch
from batch import Batch, J, canon, split_answer


def obj(props, required=(), **kw):
    return dict({"type": "object", "properties": props, "required": list(required)}, **kw)


def defs(**d):
    return [{"defs": d}]


HAND = {
    "struct_opt_default": (defs(Thing=obj({
        "name": {"type": "string"},
        "count": {"type": "integer", "default": 7},
        "flag": {"type": "boolean", "default": True},
        "note": {"type": "string"}}, ["name"])), {"struct_builder": True}),
    "enum_external": (defs(Ext={"oneOf": [
        {"type": "object", "properties": {"A": {"type": "integer"}}, "required": ["A"], "additionalProperties": False},
        {"type": "object", "properties": {"B": {"type": "string"}}, "required": ["B"], "additionalProperties": False}]}), {}),
    "enum_internal": (defs(Int={"oneOf": [
        obj({"kind": {"enum": ["a"]}, "x": {"type": "integer"}}, ["kind", "x"]),
        obj({"kind": {"enum": ["b"]}, "y": {"type": "string"}}, ["kind", "y"])]}), {}),
    "enum_adjacent": (defs(Adj={"oneOf": [
        obj({"t": {"enum": ["a"]}, "c": {"type": "integer"}}, ["t", "c"]),
        obj({"t": {"enum": ["b"]}, "c": {"type": "string"}}, ["t", "c"])]}), {}),
    "enum_untagged": (defs(Unt={"oneOf": [{"type": "integer"}, {"type": "string"}, {"type": "boolean"}]}), {}),
    "string_newtype": (defs(Short={"type": "string", "maxLength": 4, "minLength": 2, "pattern": "^[a-z]+$"},
                            Plain={"type": "string"},
                            Holder=obj({"s": {"$ref": "#/definitions/Short"}, "p": {"$ref": "#/definitions/Plain"}}, ["s"])),
                       {"struct_builder": True}),
    "simple_enum": (defs(Color={"type": "string", "enum": ["red", "green", "dark-blue"], "default": "green"}), {}),
    "tuple": (defs(Pair={"type": "array", "items": [{"type": "string"}, {"type": "integer"}], "minItems": 2, "maxItems": 2}), {}),
    "map": (defs(Dict={"type": "object", "additionalProperties": {"type": "integer"}},
                 WithMap=obj({"m": {"type": "object", "additionalProperties": {"type": "string"}}})),
            {"map_type": "::std::collections::BTreeMap"}),
    "recursive": (defs(Node=obj({"value": {"type": "integer"},
                                 "children": {"type": "array", "items": {"$ref": "#/definitions/Node"}},
                                 "next": {"$ref": "#/definitions/Node"}}, ["value"])), {}),
    "history": ([{"defs_list": [["zed", obj({"a": {"type": "integer"}}, ["a"])], ["alpha", {"type": "string", "enum": ["x", "y"]}]]},
                 {"type": {"type": "array", "items": {"$ref": "#/definitions/alpha"}}, "name": "lst"}], {"type_mod": "types"}),
}
# the settings typify's own fixture test (typify/tests/schemas.rs) applies
SUITE = {"struct_builder": True,
         "replace": [{"name": "HandGeneratedType", "replace": "String", "impls": ["Display"]}],
         "patch": [{"name": "TypeThatNeedsMoreDerives", "rename": "TypeThatHasMoreDerives", "derives": ["Eq", "PartialEq"]}],
         "convert": [{"schema": {"enum": [1, "one"]}, "type": "serde_json::Value", "impls": ["Display"]}],
         "crates": [{"name": "std", "version": "1.0.0"}]}
BAD = {
    # defects of the pinned tree (DESIGN.md section 5, #3 #8 #4); a `fix:` commit in /repo may remove them
    "dup_field": (defs(Dup=obj({"foo-bar": {"type": "string"}, "foo_bar": {"type": "string"}})), {}),
    "brace_enum": (defs(Brace={"type": "string", "enum": ["a{b", "{}"]}), {}),
    "nullable_same_name": (defs(Foo={"oneOf": [obj({"a": {"type": "integer"}}), {"type": "null"}]}), {}),
    # cannot compile whatever typify does: a replacement by a type that does not exist
    "unresolved_replace": (defs(Gone={"type": "string"}, User=obj({"g": {"$ref": "#/definitions/Gone"}}, ["g"])),
                           {"replace": [{"name": "Gone", "replace": "::no_such_crate::Nope"}]}),
    "unit_default": (defs(U=obj({"n": {"type": "null", "default": None}})), {}),      # render panics (defect 9)
    "bad_call": ([{"type": {"type": "string", "enum": []}, "name": "Empty"}], {}),       # add_type fails
}


def main():
    ap = argparse.ArgumentParser()
    ap.add_argument("--name", default="selftest")
    ap.add_argument("--shards", type=int, default=12)
    ap.add_argument("--big", action="store_true", help="add typify-impl/tests/{github,vega}.json")
    ap.add_argument("--fresh", action="store_true", help="forget this batch's cache (KEY) first")
    ap.add_argument("--fresh-target", action="store_true", help="also delete the shared target dir (dependencies rebuild)")
    a = ap.parse_args()
    if a.fresh_target:
        shutil.rmtree(batch.TARGET, ignore_errors=True)
    if a.fresh or a.fresh_target:
        shutil.rmtree(os.path.join(batch.ROOT, a.name), ignore_errors=True)

    t0 = time.time()
    b = Batch(a.name, shards=a.shards)
    fx = {}
    for path in sorted(glob.glob("/repo/typify/tests/schemas/*.json")):
        root = json.load(open(path))
        nm = os.path.basename(path)[:-5]
        fx[nm] = b.add_case([{"root": root}], tag=nm)
        fx[nm + "+b"] = b.add_case([{"root": root}], {"struct_builder": True}, tag=nm + "+builder")
    for nm in ("type-with-modified-generation", "x-rust-type", "maps"):
        root = json.load(open("/repo/typify/tests/schemas/%s.json" % nm))
        fx[nm + "+suite"] = b.add_case([{"root": root}], SUITE, tag=nm + "+suite")
    if a.big:
        for nm in ("github", "vega"):
            fx[nm] = b.add_case([{"root": json.load(open("/repo/typify-impl/tests/%s.json" % nm))}], {"struct_builder": True}, tag=nm,
                                ops_types=["Repository", "User"] if "--big-all-ops" not in sys.argv else None)
    hand = {k: b.add_case(calls, st, tag=k) for k, (calls, st) in HAND.items()}
    bad = {k: b.add_case(calls, st, tag=k) for k, (calls, st) in BAD.items()}
    b.prepare()

    def extra(c):      # caller-supplied bounds: one that holds, one that does not
        if c is hand["simple_enum"]:
            return ["const _: fn() = || { fn a<T: ::std::marker::Copy + ::std::hash::Hash + ::std::cmp::Ord>() {} a::<Color>(); };",
                    "const _: fn() = || { fn a<T: ::std::default::Default>() {} a::<super::case_%d::error::ConversionError>(); };" % c.idx]
        return []
    b.build(extra_items=extra)
    t_build = time.time() - t0
    print("\n".join(b.summary()))

    for c in b.cases:
        if c.skipped:
            print("skipped %-40s %s calls=%s %s" % (c.tag, c.skipped, c.calls, [m[:150] for m in c.messages + [c.render_message] if m]))
    fails = []
    def expect(cond, what):
        print(("PASS " if cond else "FAIL ") + what)
        if not cond:
            fails.append(what)

    # ---- isolation
    for k in ("dup_field", "brace_enum", "nullable_same_name", "unresolved_replace"):
        c = bad[k]
        print("known-bad %-20s calls=%s skipped=%s compiled=%s rustc=%s" % (k, c.calls, c.skipped, c.compiled,
              [(e["code"], e["line"], e["message"][:70]) for e in c.rustc_errors]))
    d = bad["dup_field"]
    expect(d.skipped == "call_failed" or (not d.compiled and any(e["code"] == "E0124" for e in d.rustc_errors)),
           "dup_field: rejected by rustc with E0124 (or, once fixed in /repo, rejected by typify)")
    br = bad["brace_enum"]
    expect((not br.compiled and br.rustc_errors) or b.run([(br, "Brace", "display", J("a{b"))]) == ['ok "a{b"'],
           "brace_enum: rejected by rustc (or, once fixed in /repo, Display prints the raw value)")
    u = bad["unresolved_replace"]
    expect(not u.compiled and u.rustc_errors and all(e["code"] in ("E0433", "E0412", "E0432") for e in u.rustc_errors),
           "unresolved_replace rejected by rustc, errors attributed to its own file only")
    expect(bad["unit_default"].skipped in ("render_panic", "call_failed"), "unit_default never reaches rustc: %s" % bad["unit_default"].skipped)
    expect(bad["bad_call"].skipped == "call_failed", "bad_call never reaches rustc: %s %s" % (bad["bad_call"].skipped, bad["bad_call"].calls))
    good = list(hand.values())
    expect(all(c.compiled for c in good), "all hand-written good cases compiled: %s" % [c.tag for c in good if not c.compiled])
    nfx = sum(c.compiled for c in fx.values())
    print("fixtures compiled: %d/%d; not compiled: %s" % (nfx, len(fx), [(c.tag, c.skipped or [e["code"] for e in c.rustc_errors]) for c in fx.values() if not c.compiled]))
    expect(nfx >= len(fx) - 4, "at least all but 4 fixture cases compiled")
    se = hand["simple_enum"]
    expect([e["bound"] for e in se.assert_errors] == ["extra1"] and se.compiled,
           "caller's false bound is reported as an assert error, its true bound and the case survive: %s" % [(e["bound"], e["code"]) for e in se.assert_errors])
    for c in b.cases:
        for e in c.assert_errors:
            print("  assertion removed: case %s type %s bound %s: %s %s" % (c.tag, e["type"], e["bound"], e["code"], e["message"][:90]))
        for e in c.ops_errors:
            print("  op removed: case %s type %s op %s: %s %s" % (c.tag, e["type"], e["op"], e["code"], e["message"][:90]))

    # ---- operations
    T, S, N, H = hand["struct_opt_default"], hand["string_newtype"], hand["recursive"], hand["history"]
    reqs = [
        (T, "Thing", "de", J({"name": "n"})),
        (T, "Thing", "de", J({"count": 1})),
        (T, "Thing", "de_value", J({"name": "n", "count": 3, "zzz": 1})),
        (T, "Thing", "rt", J({"name": "n", "note": "x"})),
        (T, "Thing", "default", ""),
        (T, "Thing", "build", J({"set": {"name": "bob", "count": 2}})),
        (T, "Thing", "build", J({"set": {"count": 2}})),
        (T, "Thing", "build", J({"set": {"name": 5}})),
        (T, "Thing", "unbuild", J({"name": "n"})),
        (S, "Short", "fromstr", J("abc")),
        (S, "Short", "fromstr", J("abcde")),
        (S, "Short", "tryfrom_str", J("ab")),
        (S, "Short", "tryfrom_string", J("A")),
        (S, "Short", "tryfrom_refstring", J("abcd")),
        (S, "Short", "de", J("ab1")),
        (S, "Short", "display", J("abc")),
        (S, "Plain", "display", J("hello world")),
        (S, "Plain", "tryfrom_str", J("x")),
        (S, "Holder", "build_str", J({"set": {"s": "abc", "p": "q"}})),
        (S, "Holder", "build_str", J({"set": {"s": "TOO-LONG"}})),
        (S, "Holder", "build_refstr", J({"set": {"s": "x"}})),
        (S, "Holder", "build", J({"set": {"s": "abc"}})),
        (hand["simple_enum"], "Color", "fromstr", J("dark-blue")),
        (hand["simple_enum"], "Color", "display", J("dark-blue")),
        (hand["simple_enum"], "Color", "default", ""),
        (hand["simple_enum"], "Color", "de", J("purple")),
        (hand["enum_external"], "Ext", "rt", J({"A": 3})),
        (hand["enum_internal"], "Int", "rt", J({"kind": "b", "y": "s"})),
        (hand["enum_adjacent"], "Adj", "rt", J({"t": "a", "c": 1})),
        (hand["enum_untagged"], "Unt", "rt", J(True)),
        (hand["tuple"], "Pair", "rt", J(["a", 1])),
        (hand["tuple"], "Pair", "de", J(["a"])),
        (hand["map"], "Dict", "rt", J({"b": 1, "a": 2})),
        (N, "Node", "rt", J({"value": 1, "children": [{"value": 2}], "next": {"value": 3}})),
        (N, "Node", "de", "[" * 100000),                       # recursion limit, not a crash
        (H, "Zed", "de", J({"a": 1})),
        (H, int(H.calls[1].split(":")[1]), "de", J(["x", "y"])),      # unnamed Vec<Alpha> by id
        (bad["dup_field"], "Dup", "de", "{}"),
        (T, "Nope", "de", "{}"),
        (T, "Thing", "fromstr", J("x")),
    ]
    t1 = time.time()
    ans = b.run(reqs)
    t_run = time.time() - t1
    for (c, ty, op, pl), x in zip(reqs, ans):
        print("  %-18s %-8s %-18s %-46s -> %s" % (c.tag, ty, op, pl[:46], x[:110]))
    A = dict(((c.tag, ty, op, pl), x) for (c, ty, op, pl), x in zip(reqs, ans))
    def ans_of(i):
        return ans[i]
    expect(ans_of(0) == 'ok {"count":7,"flag":true,"name":"n"}', "de fills defaults")
    expect(ans_of(1).startswith("err "), "de rejects a missing required property")
    st, ws = split_answer(ans_of(3))
    expect(st == "ok" and canon(ws[0]) == canon(ws[1]), "rt is idempotent on Thing")
    expect(ans_of(5) == 'ok {"count":2,"flag":true,"name":"bob"}', "builder builds")
    expect(ans_of(6).startswith("err ") and "name" in ans_of(6), "builder error names the missing property")
    expect(ans_of(7) == "badvalue name", "builder payload with an ill-typed value is reported")
    expect(ans_of(9) == 'ok "abc"' and ans_of(10) == "err", "FromStr enforces maxLength")
    expect(ans_of(12) == "err" and ans_of(13) == 'ok "abcd"', "TryFrom<String>/<&String> enforce the pattern")
    expect(ans_of(14).startswith("err "), "Deserialize enforces the pattern")
    expect(ans_of(19).startswith("err ") and "for s:" in ans_of(19), "build_str conversion error names the property")
    expect(ans_of(22) == 'ok "dark-blue"' and ans_of(23) == 'ok "dark-blue"', "simple enum FromStr/Display use the wire name")
    expect(ans_of(24) == 'ok "green"', "simple enum Default")
    expect(ans_of(34).startswith("err "), "deep nesting hits serde_json's recursion limit")
    expect(ans_of(36) == 'ok ["x","y"]', "unnamed type addressed by id")
    expect(ans_of(37) == "nocompile" and ans_of(38) == "notype" and ans_of(39) == "noop", "nocompile / notype / noop")

    # ---- a request that kills the process: answered `abort`, the rest still answered
    reqs2 = [(T, "Thing", "de", J({"name": "a"})), (T, "Thing", "__abort", ""), (T, "Thing", "de", J({"name": "b"}))]
    if os.environ.get("BATCH_SELFTEST_ABORT", "1") == "1":
        ans2 = b.run(reqs2)
        print("  abort demo:", ans2)
        expect(ans2[0].startswith("ok ") and ans2[1] == "abort" and ans2[2].startswith("ok "), "abort is confined to the killing request")

    total = time.time() - t0
    print("timings: %s" % json.dumps(b.timings))
    print("cases=%d shards=%d cache_hit=%s prepare+build=%.1fs run=%.2fs total=%.1fs"
          % (len(b.cases), a.shards, b.cache_hit, t_build, t_run, total))
    print("SELFTEST " + ("OK" if not fails else "FAILED: %s" % fails))
    sys.exit(1 if fails else 0)


if __name__ == "__main__":
    main()

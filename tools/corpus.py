"""Shared corpus of awkward schema documents: the canonical witnesses of every known finding (all properties) and a
few hand-written documents that combine features the per-property generators keep apart. Any check may run its
own question over these (C12 renders each twice and in fresh processes, C01 compiles them, ...)."""
import json, os
VERIF = os.path.dirname(os.path.dirname(os.path.abspath(__file__)))

def _docs_of(w):
    if not isinstance(w, dict): return []
    out = []
    if "calls" in w:
        for c in w["calls"]:
            for k in ("root", "schema"):
                if isinstance(c.get(k), dict): out.append((c[k], w.get("settings") or {}))
            if isinstance(c.get("defs"), dict): out.append(({"definitions": c["defs"]}, w.get("settings") or {}))
    elif "schemas" in w and "defs" in w:
        out.append(({"title": "Merged", "allOf": w["schemas"], "definitions": w["defs"]}, {}))
    elif any(k in w for k in ("type", "properties", "definitions", "oneOf", "anyOf", "allOf", "enum")) and "value" not in w:
        out.append((w if ("title" in w or "definitions" in w) else dict(w, title="W"), {}))
    return out

def _twin_unions():
    A = {"type": "object", "properties": {"branch": {"type": "string"}}}
    B = {"type": "object", "properties": {"reason": {"type": "string"}, "merged": {"type": "boolean"}}}
    def body(t): return {"type": "object", "properties": {"target": t, "n": {"type": "integer"}}, "required": ["target"]}
    k = lambda v: {"type": "string", "enum": [v]}
    return {
        "external": {"oneOf": [{"type": "object", "properties": {"Opened": body(A)}, "required": ["Opened"], "additionalProperties": False},
                               {"type": "object", "properties": {"Closed": body(B)}, "required": ["Closed"], "additionalProperties": False}]},
        "adjacent": {"oneOf": [{"type": "object", "properties": {"kind": k("opened"), "detail": body(A)}, "required": ["kind", "detail"]},
                               {"type": "object", "properties": {"kind": k("closed"), "detail": body(B)}, "required": ["kind", "detail"]}]},
        "internal": {"oneOf": [{"type": "object", "properties": {"kind": k("opened"), "target": A}, "required": ["kind", "target"]},
                               {"type": "object", "properties": {"kind": k("closed"), "target": B}, "required": ["kind", "target"]}]},
        "untagged": {"oneOf": [{"type": "object", "properties": {"target": A, "o": {"type": "integer"}}, "required": ["target", "o"], "additionalProperties": False},
                               {"type": "object", "properties": {"target": B, "c": {"type": "integer"}}, "required": ["target", "c"], "additionalProperties": False}]}}

HAND = [
    # two (type, property) pairs whose default functions get the same name (defaults::foo_bar_baz)
    {"definitions": {"Foo": {"type": "object", "properties": {"bar_baz": {"type": "string", "default": "a"}}},
                     "FooBar": {"type": "object", "properties": {"baz": {"type": "string", "default": "b"}}}}},
    {"definitions": {"Foo": {"type": "object", "properties": {"bar": {"type": "object", "properties": {"baz": {"type": "integer", "default": 7}}}}},
                     "FooBar": {"type": "object", "properties": {"baz": {"type": "array", "items": {"type": "string"}, "default": ["x"]}}}}},
    # several tag candidates in one oneOf (two required one-value string members, distinct per branch)
    {"definitions": {"Ev": {"oneOf": [
        {"type": "object", "properties": {"object": {"type": "string", "enum": ["a"]}, "type": {"type": "string", "enum": ["x"]}, "n": {"type": "integer"}}, "required": ["object", "type"]},
        {"type": "object", "properties": {"object": {"type": "string", "enum": ["b"]}, "type": {"type": "string", "enum": ["y"]}, "s": {"type": "string"}}, "required": ["object", "type"]}]}}},
    {"definitions": {"Ev3": {"oneOf": [
        {"type": "object", "properties": {"kind": {"type": "string", "enum": ["k%d" % i]}, "tag": {"type": "string", "enum": ["t%d" % i]}, "zz": {"type": "string", "enum": ["z%d" % i]}}, "required": ["kind", "tag", "zz"]}
        for i in range(3)]}}},
    # renamed property + flattened map + struct default
    {"definitions": {"Headers": {"type": "object", "properties": {"Content-Type": {"type": "string"}, "retries": {"type": "integer"}},
                                 "additionalProperties": {"type": "string"}},
                     "Request": {"type": "object", "properties": {"headers": {"$ref": "#/definitions/Headers", "default": {"Content-Type": "text/plain", "retries": 3, "X-Trace": "on"}}}}}},
    # a default on a member of every container kind, empty and non-empty (an explicitly empty container is not an absent member)
    {"definitions": {"Dc": {"type": "object", "required": ["name"], "properties": {
        "name": {"type": "string"},
        "labels": {"type": "object", "additionalProperties": {"type": "string"}, "default": {"tier": "standard"}},
        "counts": {"type": "object", "additionalProperties": {"type": "integer"}, "default": {}},
        "plain": {"type": "object", "additionalProperties": {"type": "string"}},
        "tags": {"type": "array", "items": {"type": "string"}, "default": ["a", "b"]},
        "none": {"type": "array", "items": {"type": "string"}, "default": []},
        "uniq": {"type": "array", "items": {"type": "integer"}, "uniqueItems": True, "default": [1, 2]},
        "opt": {"type": ["string", "null"], "default": "x"},
        "nul": {"type": ["integer", "null"], "default": None},
        "flag": {"type": "boolean", "default": True},
        "inner": {"type": "object", "properties": {"a": {"type": "integer"}, "b": {"type": "array", "items": {"type": "integer"}}}, "default": {"a": 1}}}},
                     # REQUIRED members that carry the empty default of their type: required all the same
                     "Rq": {"type": "object", "required": ["name", "tracks", "labels", "owner"], "properties": {
        "name": {"type": "string"}, "tracks": {"type": "array", "items": {"type": "string"}, "default": []},
        "labels": {"type": "object", "additionalProperties": {"type": "string"}, "default": {}},
        "owner": {"type": ["string", "null"], "default": None}}}}},
    # twins: two variants declare a member of ONE name with DIFFERENT in-line object shapes — under every tagging, the union
    # in-line (under a property) and as a definition
    {"title": "Twins", "type": "object", "properties": dict(
        [("in_" + tg, u) for tg, u in _twin_unions().items()]),
     "definitions": dict([("Def" + tg.capitalize(), u) for tg, u in _twin_unions().items()])},
    # typed integer enumerations that list the bounds of every recognised format (values beyond i64 included)
    {"definitions": dict(
        [("E" + f.capitalize(), {"type": "integer", "format": f, "enum": [lo, 0, hi] if lo < 0 else [0, 1, hi]})
         for f, lo, hi in (("int8", -128, 127), ("int16", -32768, 32767), ("int32", -2**31, 2**31 - 1), ("int64", -2**63, 2**63 - 1),
                           ("uint8", 0, 255), ("uint16", 0, 65535), ("uint32", 0, 2**32 - 1), ("uint64", 0, 2**64 - 1))] +
        [("Quota", {"type": "object", "required": ["limit"], "properties": {"limit": {"type": "integer", "format": "uint64", "enum": [0, 2**63, 2**64 - 1]},
                                                                               "burst": {"type": "integer", "minimum": 0, "enum": [10, 2**64 - 1]}}})])},
]

def file_documents():
    """documents kept under /verif/corpus (inputs on which some check once missed a change: unusual but legitimate schemas)"""
    out = []
    d = os.path.join(VERIF, "corpus")
    for f in sorted(os.listdir(d)) if os.path.isdir(d) else []:
        if f.endswith(".json"):
            try: out.append(("file:" + f[:-5], json.load(open(os.path.join(d, f)))))
            except Exception: pass
    return out

def documents(files=True):
    """[(id, document, settings)] — deduplicated by JSON text"""
    out = []; seen = set()
    p = os.path.join(VERIF, "KNOWN_FINDINGS.json")
    fs = json.load(open(p)).get("findings", []) if os.path.exists(p) else []
    for f in fs:
        for k, (d, s) in enumerate(_docs_of(f.get("witness"))):
            t = json.dumps([d, s], sort_keys=True)
            if t in seen or len(t) > 200000: continue
            seen.add(t); out.append(("finding:%s:%d" % (f["id"], k), d, s))
    for i, d in enumerate(HAND):
        t = json.dumps([d, {}], sort_keys=True)
        if t not in seen: seen.add(t); out.append(("hand:%d" % i, d, {}))
    for cid, d in (file_documents() if files else []):
        t = json.dumps([d, {}], sort_keys=True)
        if t not in seen and len(t) < 200000: seen.add(t); out.append((cid, d, {}))
    return out

_ANNOT = {"$ref", "title", "description", "$comment", "default", "examples", "definitions", "$defs", "$id", "$schema", "readOnly", "writeOnly", "deprecated"}

def ref_with_siblings(doc):
    """a `$ref` next to validation keywords somewhere in the document: draft-07 ignores the siblings, typify merges them; such
    documents are outside every fragment that is judged by the draft-07 validator"""
    def go(s, inside_value=False):
        if isinstance(s, list): return any(go(x) for x in s)
        if not isinstance(s, dict): return False
        if "$ref" in s and isinstance(s["$ref"], str) and (set(s) - _ANNOT): return True
        return any(go(v) for k, v in s.items() if k not in ("default", "enum", "const", "examples"))
    return go(doc)

def oracle_documents():
    """the hand-written and file documents that the draft-07 validator and typify read the same way"""
    return [(i, d, s) for i, d, s in documents() if i.startswith(("hand:", "file:")) and not ref_with_siblings(d)]

if __name__ == "__main__":
    for i, d, s in documents(): print(i, len(json.dumps(d)))

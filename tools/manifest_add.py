#!/usr/bin/env python3
"""usage: manifest_add.py <Cxx> <ref> <<< JSON {"text":..., "note":..., "technique":...}"""
import json, sys
pid, ref = sys.argv[1], sys.argv[2]
d = json.load(sys.stdin)
m = json.load(open('/verif/MANIFEST.json'))
m["checks"] = [c for c in m["checks"] if c["property_id"] != pid]
m["checks"].append({"property_id": pid, "quick_cmd": "./check %s quick" % pid, "thorough_cmd": "./check %s thorough" % pid,
  "evidence_file": "/verif/evidence/%s.json" % pid, "replay_cmd_template": "./check %s --replay {path}" % pid,
  "engine": "lean-model", "level_claimed": {"category": "proof", "text": d["text"], "design_ref": ref},
  "level_note": d["note"], "technique": d["technique"]})
m["checks"].sort(key=lambda c: c["property_id"])
claimed = {c["property_id"] for c in m["checks"]}
m["not_applicable"] = [x for x in m["not_applicable"] if x["property_id"] not in claimed]
for e in m["engines"]: e["serves_properties"] = sorted(claimed)
json.dump(m, open('/verif/MANIFEST.json', 'w'), indent=1)
print("claimed:", sorted(claimed))

"""Independent JSON-Schema draft-07 validity oracle (correspondence M4).  Run with python3-vt.

    from oracle import Oracle
    o = Oracle(doc)                       # doc: the whole schema document ($ref targets live in it)
    o.valid(value)                        # against the document root
    o.valid(value, {"$ref": "#/definitions/X"})   # against any subschema (refs resolved in doc)
    o.valid(value, "#/definitions/X/properties/a")  # or a JSON pointer into doc

    python3-vt tools/oracle.py < requests.jsonl > answers.txt       # bulk mode, see `main`

The judge is `jsonschema.Draft7Validator` (4.x) - independent of typify, of the Lean model and
of the small validator inside tools/gen.py.  Always draft-07, whatever `$schema` the document names.
`import oracle` works under plain python3 too (jsonschema is imported lazily); only constructing an
`Oracle` needs python3-vt.  `oracle.bulk(requests)` runs the CLI in a python3-vt subprocess.

Reading of `format` (the stock FORMAT_CHECKER of this sandbox knows neither uuid nor date-time):
  uuid       canonical 8-4-4-4-12 hex, either case (RFC 4122 text form).  Oracle(doc, uuid="rust")
             additionally admits what the Rust `uuid` 1.x crate's `parse_str` admits: 32 hex digits
             without hyphens, `urn:uuid:` + hyphenated, `{` hyphenated `}`.
             DIFFERENCES: Python's `uuid.UUID(s)` is laxer than both (it strips `urn:`/`uuid:` anywhere,
             braces, and *all* hyphens wherever they are), so it is not used for the decision;
             it is only used to cross-check the regular expressions in the self test.
  date-time  RFC 3339 `full-date "T" full-time` (`t`/`z` in lower case allowed as the RFC says,
             space separator NOT allowed, fractional seconds any length, offset `Z` or +-hh:mm,
             calendar-checked incl. leap years; second 60 accepted).  chrono's `DateTime<Utc>`
             parser is laxer (accepts a space separator) - that is on the accepting side.
  date       RFC 3339 full-date, calendar-checked.      time   RFC 3339 full-time.
  ipv4       dotted quad, no leading zeros (ipaddress.IPv4Address).   ipv6  ipaddress.IPv6Address
             without a zone id.    ip   ipv4 or ipv6.
  int8 int16 int32 int64 uint8 uint16 uint32 uint64 int uint
             RANGES (int/uint = 64 bit) applied to integer instances only; an integer-valued float
             (1.0) is an integer here, see below.  Non-integers are not constrained by the format.
  float double   no-op.            anything else   ignored (annotation), as the specification says.

Facts about draft-07 / this implementation that checks rely on (each is asserted in gen_selftest.py):
  * `1.0` IS an integer in draft-07 (`type: integer` accepts it; the integer-format ranges apply
    to it).  serde's i64 rejects it - a finding, not an oracle bug.
  * booleans are not numbers: `true` is not valid for `type: integer`, `enum: [1]`/`const: 1` do not
    admit `true`, `enum: [true]` does not admit `1`, and `uniqueItems` treats `[1, true]` and
    `[0, false]` as unique but `[1, 1.0]` as duplicates.  (Python's `True == 1` would say otherwise;
    jsonschema unbools before comparing.)
  * `pattern` is Python `re.search` (unanchored).  ECMA-262 differences do not matter for the safe
    pattern pool, with one exception that is repaired here: Python's `$` also matches before a
    trailing "\\n", ECMA's / Rust `regex`'s does not, so an unescaped `$` outside a character class
    is rewritten to `\\Z`.  (`\\d`, `\\w`, `\\s` remain Unicode-aware as in Rust `regex`; ECMA without
    the `u` flag is ASCII-only there.  The pool does not use them.)
  * string length (`minLength`/`maxLength`) counts Unicode code points (Python `len`), which for
    well-formed JSON equals Unicode scalar values = Rust `chars().count()`; not bytes, not UTF-16
    units, not grapheme clusters.
  * siblings of `$ref` are ignored in draft-07 (so `{"$ref":..., "default":...}` constrains nothing
    beyond the target).
  * `$ref` forms resolved inside the document: `#`, `#/definitions/X`, `#/$defs/X` and any other
    local JSON pointer; `~0`/`~1` unescaped and the fragment percent-decoded as RFC 6901 section 6
    says (typify does neither - it keys on the text after the last `/`).  A `$id` at the root is
    dropped before validation so relative references stay local.  A dangling `$ref` is an `error:`.
"""
import datetime, ipaddress, json, os, re, subprocess, sys

HERE = os.path.dirname(os.path.abspath(__file__))

INT_FORMATS = {
    "int8": (-2**7, 2**7 - 1), "int16": (-2**15, 2**15 - 1), "int32": (-2**31, 2**31 - 1),
    "int64": (-2**63, 2**63 - 1), "int": (-2**63, 2**63 - 1),
    "uint8": (0, 2**8 - 1), "uint16": (0, 2**16 - 1), "uint32": (0, 2**32 - 1),
    "uint64": (0, 2**64 - 1), "uint": (0, 2**64 - 1),
}

_HYPH = r"[0-9a-fA-F]{8}-[0-9a-fA-F]{4}-[0-9a-fA-F]{4}-[0-9a-fA-F]{4}-[0-9a-fA-F]{12}"
_UUID_STRICT = re.compile(r"\A" + _HYPH + r"\Z")
_UUID_RUST = re.compile(r"\A(?:" + _HYPH + r"|[0-9a-fA-F]{32}|urn:uuid:" + _HYPH + r"|\{" + _HYPH + r"\})\Z")
_DATE = re.compile(r"\A(\d{4})-(\d{2})-(\d{2})\Z", re.ASCII)
_TIME = re.compile(r"\A(\d{2}):(\d{2}):(\d{2})(\.\d+)?([zZ]|[+-](\d{2}):(\d{2}))\Z", re.ASCII)


def is_uuid(s, forms="strict"):
    return bool((_UUID_RUST if forms == "rust" else _UUID_STRICT).match(s))


def is_date(s):
    m = _DATE.match(s)
    if not m: return False
    try:
        datetime.date(int(m.group(1)), int(m.group(2)), int(m.group(3)))
    except ValueError:
        return False
    return True


def is_time(s):
    m = _TIME.match(s)
    if not m: return False
    hh, mm, ss = int(m.group(1)), int(m.group(2)), int(m.group(3))
    if hh > 23 or mm > 59 or ss > 60: return False
    if m.group(6) is not None and (int(m.group(6)) > 23 or int(m.group(7)) > 59): return False
    return True


def is_datetime(s):
    if len(s) < 11 or s[10] not in "Tt": return False
    return is_date(s[:10]) and is_time(s[11:])


def is_ipv4(s):
    try:
        ipaddress.IPv4Address(s)
    except ValueError:
        return False
    return s.isascii()


def is_ipv6(s):
    if "%" in s: return False
    try:
        ipaddress.IPv6Address(s)
    except ValueError:
        return False
    return s.isascii()


def ecma_to_py(pattern):
    """unescaped `$` outside a character class -> `\\Z` (see module docstring)"""
    out, i, in_cls = [], 0, False
    while i < len(pattern):
        c = pattern[i]
        if c == "\\" and i + 1 < len(pattern):
            out.append(pattern[i:i + 2]); i += 2; continue
        if in_cls:
            if c == "]": in_cls = False
        elif c == "[":
            in_cls = True
        elif c == "$":
            out.append("\\Z"); i += 1; continue
        elif c == ".":
            # ECMA-262 `.` excludes the four line terminators, Python's only \n; `\S`/`\s` agree on the pool's probes
            out.append("[^\\n\\r\\u2028\\u2029]"); i += 1; continue
        out.append(c); i += 1
    return "".join(out)


def _is_int_instance(v):
    if isinstance(v, bool): return False
    if isinstance(v, int): return True
    return isinstance(v, float) and v == v and v not in (float("inf"), float("-inf")) and v == int(v)


def make_format_checker(uuid="strict"):
    from jsonschema import FormatChecker
    fc = FormatChecker(formats=())          # start empty: nothing inherited from the stock checker

    def strfmt(name, pred):
        @fc.checks(name)
        def _check(v, _pred=pred):
            return True if not isinstance(v, str) else bool(_pred(v))

    strfmt("uuid", lambda s: is_uuid(s, uuid))
    strfmt("date-time", is_datetime)
    strfmt("date", is_date)
    strfmt("time", is_time)
    strfmt("ipv4", is_ipv4)
    strfmt("ipv6", is_ipv6)
    strfmt("ip", lambda s: is_ipv4(s) or is_ipv6(s))
    for name, (lo, hi) in INT_FORMATS.items():
        @fc.checks(name)
        def _range(v, _lo=lo, _hi=hi):
            return True if not _is_int_instance(v) else _lo <= int(v) <= _hi
    for name in ("float", "double"):
        fc.checks(name)(lambda v: True)
    return fc


def _make_validator_class():
    """Draft7Validator with `pattern` / `patternProperties` using the ECMA-`$` translation"""
    from jsonschema import Draft7Validator, validators
    from jsonschema.exceptions import ValidationError

    def pattern(validator, patrn, instance, schema):
        if validator.is_type(instance, "string") and not re.search(ecma_to_py(patrn), instance):
            yield ValidationError("%r does not match %r" % (instance, patrn))

    def pattern_properties(validator, pp, instance, schema):
        if not validator.is_type(instance, "object"): return
        for pat, sub in pp.items():
            for k, v in instance.items():
                if re.search(ecma_to_py(pat), k):
                    yield from validator.descend(v, sub, path=k, schema_path=pat)

    def additional_properties(validator, ap, instance, schema):
        if not validator.is_type(instance, "object"): return
        props = schema.get("properties", {})
        pats = [ecma_to_py(p) for p in schema.get("patternProperties", {})]
        extras = [k for k in instance if k not in props and not any(re.search(p, k) for p in pats)]
        if validator.is_type(ap, "object"):
            for k in extras:
                yield from validator.descend(instance[k], ap, path=k)
        elif ap is False and extras:
            yield ValidationError("additional properties not allowed: %s" % ", ".join(map(repr, extras)))

    return validators.extend(Draft7Validator, {"pattern": pattern, "patternProperties": pattern_properties,
                                               "additionalProperties": additional_properties})


_VCLS = None
_URI = "urn:verif:doc"


class Oracle:
    def __init__(self, doc, uuid="strict"):
        global _VCLS
        import referencing, referencing.jsonschema
        if _VCLS is None: _VCLS = _make_validator_class()
        if isinstance(doc, dict) and ("$id" in doc or "id" in doc or "$schema" in doc):
            # `$schema` too: jsonschema picks the validator class of a schema that carries one when it descends into it
            # (through `$ref: "#"` or a pointer to the root), which would silently drop the keyword overrides below
            doc = {k: v for k, v in doc.items() if k not in ("$id", "id", "$schema")}
        self.doc = doc
        self.fc = make_format_checker(uuid)
        res = referencing.Resource(contents=doc, specification=referencing.jsonschema.DRAFT7)
        self.registry = referencing.Registry().with_resource(_URI, res)
        self._cache = {}

    def _validator(self, schema):
        if schema is None: schema = "#"
        if isinstance(schema, str):
            key = "p:" + schema
            sch = {"$ref": _URI + schema}
        else:
            key = "s:" + json.dumps(schema, sort_keys=True)
            sch = _rebase(schema)
        v = self._cache.get(key)
        if v is None:
            v = _VCLS(sch, registry=self.registry, format_checker=self.fc)
            self._cache[key] = v
        return v

    def valid(self, value, schema=None):
        """True/False; raises on unresolvable references or malformed schemas"""
        return self._validator(schema).is_valid(value)

    def errors(self, value, schema=None, limit=5):
        """human-readable reasons (for replay files)"""
        out = []
        for e in self._validator(schema).iter_errors(value):
            out.append("/%s: %s" % ("/".join(map(str, e.absolute_path)), e.message[:200]))
            if len(out) >= limit: break
        return out


_NAME_MAPS = ("properties", "patternProperties", "definitions", "$defs", "dependencies")
_DATA_KEYS = ("enum", "const", "default", "examples")


def _rebase(schema):
    """rewrite local `$ref`s of an inline subschema so they resolve inside the registered document
    (keys of properties/definitions maps are member names, never keywords; enum/const/default are data)"""
    if isinstance(schema, dict):
        out = {}
        for k, v in schema.items():
            if k == "$ref" and isinstance(v, str) and v.startswith("#"): out[k] = _URI + v
            elif k in _DATA_KEYS: out[k] = v
            elif k in _NAME_MAPS and isinstance(v, dict): out[k] = {n: _rebase(x) for n, x in v.items()}
            else: out[k] = _rebase(v)
        return out
    if isinstance(schema, list): return [_rebase(x) for x in schema]
    return schema


def main(inp, out):
    """One request per line, one answer line per request (`true`, `false`, `error:<msg>`, or `ok`
    for a pure registration).  Request forms:
        {"doc": D, "schema": S, "value": V}           S = subschema object | "#/json/pointer" | null/absent (= root)
        {"doc_id": "k", "doc": D}                      register D under k (answer `ok`)
        {"doc_id": "k", "schema": S, "value": V}       use a registered document
        optional "uuid": "rust" selects the laxer uuid reading for that request's document
    Compiled validators are cached per document (by doc_id or by the document text) and per schema."""
    by_id, by_text = {}, {}
    for line in inp:
        line = line.strip()
        if not line:
            continue
        try:
            req = json.loads(line)
            uu = req.get("uuid", "strict")
            o = None
            if "doc" in req:
                key = (uu, json.dumps(req["doc"], sort_keys=True))
                o = by_text.get(key)
                if o is None:
                    o = by_text[key] = Oracle(req["doc"], uuid=uu)
                    if len(by_text) > 4096: by_text.pop(next(iter(by_text)))
                if "doc_id" in req: by_id[(uu, req["doc_id"])] = o
            elif "doc_id" in req:
                o = by_id.get((uu, req["doc_id"])) or by_id.get(("strict", req["doc_id"]))
                if o is not None and uu != "strict" and (uu, req["doc_id"]) not in by_id:
                    o = by_id[(uu, req["doc_id"])] = Oracle(o.doc, uuid=uu)
            if o is None: raise ValueError("no document")
            if "value" not in req:
                ans = "ok"
            else:
                ans = "true" if o.valid(req["value"], req.get("schema")) else "false"
        except Exception as e:      # noqa: BLE001 - every failure becomes an answer line
            ans = "error:" + (type(e).__name__ + ": " + str(e)).replace("\n", " ")[:300]
        out.write(ans + "\n")
    out.flush()


def bulk(requests, python="python3-vt", timeout=900):
    """run the CLI in a python3-vt subprocess (usable from plain python3):
    list of True / False / 'ok' / 'error:...' in request order"""
    data = "".join(json.dumps(r, ensure_ascii=False) + "\n" for r in requests).encode("utf-8")
    p = subprocess.run([python, os.path.join(HERE, "oracle.py")], input=data, capture_output=True, timeout=timeout)
    if p.returncode != 0:
        raise RuntimeError("oracle failed: " + p.stderr.decode("utf-8", "replace")[-2000:])
    return [True if l == "true" else False if l == "false" else l for l in p.stdout.decode("utf-8").splitlines()]


if __name__ == "__main__":
    import io
    main(io.TextIOWrapper(sys.stdin.buffer, encoding="utf-8"), io.TextIOWrapper(sys.stdout.buffer, encoding="utf-8"))

"""Helpers over the IR dump (TypeSpace::verif_dump())."""

def entries(dump): return {int(k): v for k, v in dump["entries"].items()}

def named(dump):
    """name -> (id, entry) for struct/enum/newtype entries (first wins, like the model)"""
    out = {}
    for k, e in sorted(entries(dump).items()):
        if e["kind"] in ("struct", "enum", "newtype") and e["name"] not in out:
            out[e["name"]] = (k, e)
    return out

def reachable(dump, tid, fuel=400):
    """ids of the entries reachable from `tid` (members, variants, items, keys, wrappers)"""
    es = entries(dump); seen = set(); work = [tid]
    while work and fuel > 0:
        i = work.pop(); fuel -= 1
        if i in seen or i not in es: continue
        seen.add(i); e = es[i]
        for k in ("type_id", "id", "key", "value"):
            if isinstance(e.get(k), int): work.append(e[k])
        for p in e.get("props") or []: work.append(p["type_id"])
        for v in e.get("variants") or []:
            dt = v["details"]
            if isinstance(dt, dict):
                if "item" in dt: work.append(dt["item"])
                work += list(dt.get("tuple") or [])
                work += [p["type_id"] for p in dt.get("struct") or []]
        work += [x for x in (e.get("ids") or []) if isinstance(x, int)]
        work += [x for x in (e.get("parameters") or []) if isinstance(x, int)]
    return seen

def is_simple_enum(e):
    return e["kind"] == "enum" and e["tag"] == "external" and e["variants"] and \
        all(v["details"] == "simple" for v in e["variants"]) and "AllSimpleVariants" in e["bespoke"]

def base_wire(dump, tid):
    """C11.BaseWire: simple external enum, newtype over String (with or without string constraints)"""
    es = entries(dump); e = es.get(tid)
    if e is None: return None
    if is_simple_enum(e): return "simple_enum"
    if e["kind"] == "newtype" and es.get(e["type_id"], {}).get("kind") == "string":
        c = e["constraints"]
        if c is None: return "str_newtype"
        if "string" in c: return "str_constrained"
    return None

def native_path(dump, tid):
    """path of the string-formatted native behind tid: the native itself, or an unconstrained newtype over one"""
    es = entries(dump); e = es.get(tid)
    if e is None: return None
    if e["kind"] == "native" and not e["parameters"] and ("FromStr" in e["impls"] or "Display" in e["impls"]): return e["type_name"]
    if e["kind"] == "newtype" and e["constraints"] is None:
        i = es.get(e["type_id"])
        if i and i["kind"] == "native" and not i["parameters"] and ("FromStr" in i["impls"] or "Display" in i["impls"]): return i["type_name"]
    return None

def native_paths(dump, tid):
    """every native path reachable through the string-wire structure of tid (newtype / untagged variants)"""
    es = entries(dump); e = es.get(tid); out = set()
    p = native_path(dump, tid)
    if p: out.add(p)
    if e and e["kind"] == "enum":
        for v in e["variants"]:
            d = v["details"]
            if isinstance(d, dict) and "item" in d: out |= native_paths(dump, d["item"])
    return out

def string_wire(dump, tid):
    """kinds C11 quantifies over: base kinds, newtypes over string-formatted natives, and untagged enums all of
    whose variants are items of those kinds"""
    es = entries(dump); e = es.get(tid)
    b = base_wire(dump, tid)
    if b: return b
    if e and e["kind"] == "newtype" and native_path(dump, tid): return "native_newtype"
    if e and e["kind"] == "enum" and e["tag"] == "untagged" and e["variants"]:
        items = [v["details"]["item"] if isinstance(v["details"], dict) and "item" in v["details"] else None for v in e["variants"]]
        if all(i is not None and base_wire(dump, i) for i in items): return "untagged_strings"
        if all(i is not None and (base_wire(dump, i) or native_path(dump, i)) for i in items): return "untagged_natives"
    return None

# probe pool for string-formatted natives: valid and near-valid spellings for the formats typify recognises and for
# formats a change might start recognising (times, durations, hostnames, uris, ...)
NATIVE_PROBES = [
    "2024-02-29T13:45:10Z", "2024-02-29T13:45:10.250Z", "2024-02-29T13:45:10+02:00", "2024-02-29 13:45:10 UTC", "2024-02-29 13:45:10Z",
    "2024-02-29t13:45:10z", "2024-02-29T13:45:10", "2024-02-29T13:45:10.250", "2024-02-29 13:45:10", "2024-02-29T13:45", "2023-02-29T00:00:00Z",
    "2024-02-29", "2024-2-9", "20240229", "+2024-02-29", "2024-13-01", "13:45:10", "13:45:10.5", "13:45:10Z", "13:45", "P1DT2H", "PT5S",
    "67e55044-10b1-426f-9247-bb680e5fe0c8", "67E55044-10B1-426F-9247-BB680E5FE0C8", "67e5504410b1426f9247bb680e5fe0c8",
    "urn:uuid:67e55044-10b1-426f-9247-bb680e5fe0c8", "{67e55044-10b1-426f-9247-bb680e5fe0c8}", "67e55044-10b1-426f-9247-bb680e5fe0c",
    "1.2.3.4", "01.2.3.4", "1.2.3", "255.255.255.255", "256.1.1.1", "::1", "0:0:0:0:0:0:0:1", "::ffff:1.2.3.4", "fe80::1%eth0", "[::1]",
    "1.2.3.4/24", "fd00::/8", "example.com", "http://example.com/a?b#c", "a@b.co", "42", "-1.5", "1e3", "true", "", " ", "x"]

def string_probes(dump, tid, rng):
    """probe strings for a string-wire type: members, non-members, odd casings, boundary lengths, multi-byte"""
    es = entries(dump); e = es[tid]
    out = ["", " ", "x", "X", "é", "日本", "a{b", "{}", "}}", "\"", "\\", "null", "0", "true"]
    def for_entry(e):
        if e["kind"] == "enum":
            for v in e["variants"]:
                r = v["raw_name"]
                out.extend([r, r.upper(), r.lower(), r + " ", " " + r, r[:-1], r + "x", v.get("ident_name") or r])
                d = v["details"]
                if isinstance(d, dict) and "item" in d and d["item"] in es: for_entry(es[d["item"]])
        elif e["kind"] == "newtype":
            c = e["constraints"] or {}
            s = c.get("string")
            if s:
                for n in (s.get("min"), s.get("max")):
                    if n is not None:
                        for k in (n - 1, n, n + 1):
                            if k >= 0: out.extend(["a" * k, "é" * k, "1" * k, "😀" * k, "ab" * (k // 2) + "a" * (k % 2)])
                p = s.get("pattern")
                if p:
                    out.extend(["abc", "ABC", "123", "a1z", "az", "a-z", "aaz", "000", "zzzz", "a.z"])
            inner = es.get(e["type_id"])
            if inner and inner["kind"] in ("enum", "newtype"): for_entry(inner)
    for_entry(e)
    if native_paths(dump, tid): out = NATIVE_PROBES + out
    seen = set(); res = []
    for s in out:
        if s not in seen: seen.add(s); res.append(s)
    return res

"""Helpers over the IR dump (TypeSpace::verif_dump())."""

def entries(dump): return {int(k): v for k, v in dump["entries"].items()}

def named(dump):
    """name -> (id, entry) for struct/enum/newtype entries (first wins, like the model)"""
    out = {}
    for k, e in sorted(entries(dump).items()):
        if e["kind"] in ("struct", "enum", "newtype") and e["name"] not in out:
            out[e["name"]] = (k, e)
    return out

def is_simple_enum(e):
    return e["kind"] == "enum" and e["tag"] == "external" and e["variants"] and \
        all(v["details"] == "simple" for v in e["variants"]) and "AllSimpleVariants" in e["bespoke"]

def base_wire(dump, tid):
    """C11.BaseWire: simple external enum, newtype over String (with or without string constraints)"""
    es = entries(dump); e = es.get(tid)
    if e is None: return None
    if is_simple_enum(e): return "simple_enum"
    if e["kind"] == "newtype" and es.get(e["type_id"], {}).get("kind") == "string":
        c = e["constraints"]
        if c is None: return "str_newtype"
        if "string" in c: return "str_constrained"
    return None

def string_wire(dump, tid):
    """kinds C11 quantifies over: base kinds and untagged enums all of whose variants are items of base kinds"""
    es = entries(dump); e = es.get(tid)
    b = base_wire(dump, tid)
    if b: return b
    if e and e["kind"] == "enum" and e["tag"] == "untagged" and e["variants"] and \
            all(isinstance(v["details"], dict) and "item" in v["details"] and base_wire(dump, v["details"]["item"])
                for v in e["variants"]):
        return "untagged_strings"
    return None

def string_probes(dump, tid, rng):
    """probe strings for a string-wire type: members, non-members, odd casings, boundary lengths, multi-byte"""
    es = entries(dump); e = es[tid]
    out = ["", " ", "x", "X", "é", "日本", "a{b", "{}", "}}", "\"", "\\", "null", "0", "true"]
    def for_entry(e):
        if e["kind"] == "enum":
            for v in e["variants"]:
                r = v["raw_name"]
                out.extend([r, r.upper(), r.lower(), r + " ", " " + r, r[:-1], r + "x", v.get("ident_name") or r])
                d = v["details"]
                if isinstance(d, dict) and "item" in d and d["item"] in es: for_entry(es[d["item"]])
        elif e["kind"] == "newtype":
            c = e["constraints"] or {}
            s = c.get("string")
            if s:
                for n in (s.get("min"), s.get("max")):
                    if n is not None:
                        for k in (n - 1, n, n + 1):
                            if k >= 0: out.extend(["a" * k, "é" * k, "1" * k, "😀" * k, "ab" * (k // 2) + "a" * (k % 2)])
                p = s.get("pattern")
                if p:
                    out.extend(["abc", "ABC", "123", "a1z", "az", "a-z", "aaz", "000", "zzzz", "a.z"])
            inner = es.get(e["type_id"])
            if inner and inner["kind"] in ("enum", "newtype"): for_entry(inner)
    for_entry(e)
    seen = set(); res = []
    for s in out:
        if s not in seen: seen.add(s); res.append(s)
    return res

"""Origin-crate pipeline (C04): universes of Rust type definitions with serde + schemars derives -> ONE cargo
package (one module per universe) -> a runner binary answering, per (universe, type):

    schema              -> `schemars::schema_for!(T)` as JSON
    ser <json>          -> ok <to_string(from_str::<T>(json))> | err <msg>     (validates + canonicalises a sample value)
    de <json>           -> the same computation (reads what the generated type wrote)
    eq <json>\\t<json>   -> ok true|false | err <msg>          (`PartialEq` on the two deserialised values)

    o = Origin(ctx_or_name); u = o.add(U); o.build(); answers = o.run([(u, "Type", "schema", ""), ...])

Mirrors tools/batch.py: work dir /verif/.cache/origin/<name>/, CARGO_TARGET_DIR shared with the batch pipeline,
/repo's Cargo.lock + rust-toolchain.toml copied, offline, failure isolation per universe (a universe whose source
does not compile is dropped and reported in `u.rustc_errors`: that is a bug of the generator), cache keyed on the sources.
"""
import fcntl, hashlib, json, os, re, shutil, subprocess, time
import gen_rust
from batch import TARGET, ENV, REPO, _write, CARGO_WS

VERIF = os.path.dirname(os.path.dirname(os.path.abspath(__file__)))
ROOT = os.path.join(VERIF, ".cache", "origin")

CARGO_PKG = """[package]
name = "%(pkg)s"
version = "0.0.0"
edition = "2021"

[[bin]]
name = "%(pkg)s"
path = "src/main.rs"

[dependencies]
serde = { version = "1.0.219", features = ["derive"] }
serde_json = "1.0.140"
schemars = "0.8.22"
"""

H_RS = r'''#![allow(warnings)]
use schemars::JsonSchema;
use serde::{de::DeserializeOwned, Serialize};
use std::panic::{catch_unwind, AssertUnwindSafe};

pub fn op<T: Serialize + DeserializeOwned + JsonSchema + PartialEq>(op: &str, p: &str) -> String {
    match op {
        "schema" => serde_json::to_string(&schemars::schema_for!(T)).unwrap(),
        "ser" | "de" => match serde_json::from_str::<T>(p) {
            Ok(v) => match serde_json::to_string(&v) { Ok(s) => format!("ok {}", s), Err(e) => format!("ser_err {}", e) },
            Err(e) => format!("err {}", e),
        },
        "eq" => {
            let mut it = p.splitn(2, '\t');
            let (a, b) = (it.next().unwrap_or(""), it.next().unwrap_or(""));
            match (serde_json::from_str::<T>(a), serde_json::from_str::<T>(b)) {
                (Ok(x), Ok(y)) => format!("ok {}", x == y),
                (Err(e), _) => format!("err first: {}", e),
                (_, Err(e)) => format!("err second: {}", e),
            }
        }
        _ => "badop".to_string(),
    }
}
pub fn guard(f: impl FnOnce() -> String) -> String {
    match catch_unwind(AssertUnwindSafe(f)) {
        Ok(s) => s.replace('\n', "\\n").replace('\r', "\\r"),
        Err(_) => "panic".into(),
    }
}
pub fn serve(route: fn(&str, &str, &str, &str) -> String) {
    std::panic::set_hook(Box::new(|_| {}));
    let t = std::thread::Builder::new().stack_size(256 << 20).spawn(move || {
        use std::io::BufRead;
        let stdin = std::io::stdin();
        for line in stdin.lock().lines() {
            let line = match line { Ok(l) => l, Err(_) => break };
            if line.is_empty() { continue; }
            let mut it = line.splitn(4, ' ');
            let (u, t, op, pl) = (it.next().unwrap_or(""), it.next().unwrap_or(""), it.next().unwrap_or(""), it.next().unwrap_or(""));
            let ans = match serde_json::from_str::<String>(pl) {
                Ok(p) => guard(|| route(u, t, op, &p)),
                Err(_) => "badrequest".to_string(),
            };
            println!("{}", ans);
        }
    }).unwrap();
    let _ = t.join();
}
'''

MOD_HEAD = "#![allow(warnings, clippy::all)]\nuse schemars::JsonSchema;\nuse serde::{Deserialize, Serialize};\nuse std::collections::{BTreeMap, BTreeSet, HashMap, HashSet};\n"


class Univ:
    def __init__(self, idx, U):
        self.idx, self.U, self.name = idx, U, U["name"]
        self.source = gen_rust.rust_source(U)
        self.compiled = False
        self.rustc_errors = []

    def __repr__(self): return "<Univ %d %s>" % (self.idx, self.name)


class Origin:
    def __init__(self, ctx_or_name, jobs=None, verbose=True):
        if isinstance(ctx_or_name, str): self.name, self._log = ctx_or_name, None
        else: self.name, self._log = "%s_%s" % (ctx_or_name.prop, ctx_or_name.tier), ctx_or_name.log
        self.name = re.sub(r"[^A-Za-z0-9_]", "_", self.name)
        self.dir = os.path.join(ROOT, self.name)
        self.jobs = jobs or os.cpu_count() or 8
        self.verbose = verbose
        self.univs = []
        self.timings = {}
        self.cache_hit = False
        self._t0 = time.time()
        os.makedirs(self.dir, exist_ok=True)

    def log(self, *a):
        if self._log: self._log("origin:", *a)
        elif self.verbose: print("[origin %s %6.1fs]" % (self.name, time.time() - self._t0), *a, flush=True)

    def add(self, U):
        u = Univ(len(self.univs), U)
        self.univs.append(u)
        return u

    def _pkg(self): return "tvo_" + self.name.lower()

    def _mod_text(self, u):
        arms = "\n".join('        %s => crate::h::op::<%s>(op, p),' % (json.dumps(d["name"]), d["name"]) for d in u.U["types"])
        return (MOD_HEAD + u.source + "\npub fn dispatch(ty: &str, op: &str, p: &str) -> String {\n    match ty {\n" + arms +
                "\n        _ => \"notype\".to_string(),\n    }\n}\n")

    def _write_main(self, live):
        mods = "\n".join("mod u_%d;" % u.idx for u in live)
        arms = "\n".join('        "%d" => u_%d::dispatch(t, op, p),' % (u.idx, u.idx) for u in live)
        _write(os.path.join(self.dir, "src", "main.rs"),
               "#![allow(warnings)]\nmod h;\n" + mods + "\nfn route(u: &str, t: &str, op: &str, p: &str) -> String {\n    match u {\n" +
               arms + "\n        _ => \"nouniverse\".to_string(),\n    }\n}\nfn main() { h::serve(route); }\n")

    def _key(self):
        h = hashlib.sha256()
        for u in self.univs: h.update(self._mod_text(u).encode()); h.update(b"\0")
        h.update(H_RS.encode()); h.update(CARGO_PKG.encode())
        h.update(open(os.path.abspath(__file__), "rb").read())
        h.update(open(os.path.join(REPO, "Cargo.lock"), "rb").read())
        return h.hexdigest()

    def build(self):
        t0 = time.time()
        key = self._key()
        lock = open(os.path.join(self.dir, ".lock"), "w")
        fcntl.flock(lock, fcntl.LOCK_EX)
        try:
            if self._load(key):
                self.cache_hit = True
                self.log("build: cache hit (%s), %d/%d universes compiled" % (key[:12], sum(u.compiled for u in self.univs), len(self.univs)))
            else:
                self._build(key)
                self.log("build: %.1fs, %d/%d universes compiled" % (time.time() - t0, sum(u.compiled for u in self.univs), len(self.univs)))
        finally:
            fcntl.flock(lock, fcntl.LOCK_UN); lock.close()
        self.timings["build_s"] = round(time.time() - t0, 2)

    def _build(self, key):
        for f in ("src", "bin", "KEY", "state.json"):
            p = os.path.join(self.dir, f)
            if os.path.isdir(p): shutil.rmtree(p)
            elif os.path.exists(p): os.remove(p)
        _write(os.path.join(self.dir, "Cargo.toml"), CARGO_PKG % {"pkg": self._pkg()} + "\n" + CARGO_WS % {"members": ""})
        shutil.copy(os.path.join(REPO, "Cargo.lock"), os.path.join(self.dir, "Cargo.lock"))
        shutil.copy(os.path.join(REPO, "rust-toolchain.toml"), os.path.join(self.dir, "rust-toolchain.toml"))
        _write(os.path.join(self.dir, ".cargo", "config.toml"), "[net]\noffline = true\n\n[build]\ntarget-dir = \"%s\"\n" % TARGET)
        _write(os.path.join(self.dir, "src", "h.rs"), H_RS)
        for u in self.univs:
            u.compiled, u.rustc_errors = False, []
            _write(os.path.join(self.dir, "src", "u_%d.rs" % u.idx), self._mod_text(u))
        live = list(self.univs)
        exe = None
        for rnd in range(1, 9):
            self._write_main(live)
            exe, errs, other = self._cargo()
            if exe and not errs and not other: break
            exe = None
            if errs:
                for u in list(live):
                    if u.idx in errs:
                        u.rustc_errors += errs[u.idx]; live.remove(u)
                self.log("build round %d: dropped %d universe(s) that do not compile" % (rnd, len(errs)))
                continue
            raise RuntimeError("origin crate does not build (not attributable to a universe):\n" + "\n".join(e["rendered"] for e in other[:3]))
        if exe:
            os.makedirs(os.path.join(self.dir, "bin"), exist_ok=True)
            shutil.copy(exe, os.path.join(self.dir, "bin", "origin"))
            for u in live: u.compiled = True
        _write(os.path.join(self.dir, "state.json"), json.dumps({"key": key, "univs": [
            {"compiled": u.compiled, "rustc_errors": u.rustc_errors} for u in self.univs]}))
        _write(os.path.join(self.dir, "KEY"), key)

    def _cargo(self):
        cmd = ["cargo", "build", "--offline", "--message-format=json", "-j", str(self.jobs)]
        p = subprocess.run(cmd, cwd=self.dir, capture_output=True, text=True, env=ENV)
        exe, errs, other = None, {}, []
        failed = False
        for line in p.stdout.split("\n"):
            if not line.startswith("{"): continue
            try: m = json.loads(line)
            except ValueError: continue
            name = (m.get("target") or {}).get("name")
            if m.get("reason") == "compiler-artifact" and name == self._pkg() and m.get("executable"): exe = m["executable"]
            if m.get("reason") != "compiler-message" or name != self._pkg(): continue
            d = m["message"]
            if d.get("level") not in ("error", "error: internal compiler error"): continue
            if not d.get("spans") and re.match(r"aborting due to|could not compile", d.get("message", "")): continue
            failed = True
            e = {"code": (d.get("code") or {}).get("code"), "message": d.get("message"), "rendered": d.get("rendered") or ""}
            idx = _locate(d)
            if idx is None: other.append(e)
            else: errs.setdefault(idx, []).append(e)
        if failed: exe = None
        elif exe is None: other.append({"code": None, "message": "cargo failed without diagnostics", "rendered": p.stderr[-3000:]})
        return exe, errs, other

    def _load(self, key):
        try:
            if open(os.path.join(self.dir, "KEY")).read().strip() != key: return False
            st = json.load(open(os.path.join(self.dir, "state.json")))
        except (OSError, ValueError):
            return False
        if st.get("key") != key or len(st["univs"]) != len(self.univs): return False
        if any(s["compiled"] for s in st["univs"]) and not os.path.exists(os.path.join(self.dir, "bin", "origin")): return False
        for u, s in zip(self.univs, st["univs"]):
            u.compiled, u.rustc_errors = s["compiled"], s["rustc_errors"]
        return True

    def run(self, requests, timeout=300):
        """requests: [(univ, type_name, op, payload_str)] -> [answer]"""
        t0 = time.time()
        ans = [None] * len(requests)
        items = []
        for i, (u, ty, op, payload) in enumerate(requests):
            if not u.compiled: ans[i] = "nocompile"; continue
            items.append((i, "%d %s %s %s" % (u.idx, ty, op, json.dumps(payload))))
        exe = os.path.join(self.dir, "bin", "origin")
        pos = 0
        while pos < len(items):
            inp = "".join(l + "\n" for _, l in items[pos:])
            proc = subprocess.Popen([exe], stdin=subprocess.PIPE, stdout=subprocess.PIPE, stderr=subprocess.DEVNULL,
                                    text=True, encoding="utf-8", errors="replace")
            killed = False
            try: out, _ = proc.communicate(inp, timeout=timeout)
            except subprocess.TimeoutExpired:
                proc.kill(); killed = True
                out, _ = proc.communicate()
            lines = out.split("\n"); lines.pop()
            lines = lines[:len(items) - pos]
            for j, l in enumerate(lines): ans[items[pos + j][0]] = l
            pos += len(lines)
            if pos < len(items):
                ans[items[pos][0]] = "timeout" if killed else "abort"; pos += 1
        self.timings["run_s"] = round(self.timings.get("run_s", 0) + time.time() - t0, 2)
        return ans


_U_FILE = re.compile(r"(?:^|/)u_(\d+)\.rs$")
_U_TEXT = re.compile(r"\bu_(\d+)(?:::|\.rs)")


def _locate_span(diag):
    spans = sorted(diag.get("spans") or [], key=lambda s: not s.get("is_primary"))
    for sp in spans:
        while sp:
            m = _U_FILE.search(sp.get("file_name") or "")
            if m: return int(m.group(1))
            sp = (sp.get("expansion") or {}).get("span")
    for ch in diag.get("children") or []:
        loc = _locate_span(ch)
        if loc is not None: return loc
    return None


def _locate(diag):
    loc = _locate_span(diag)
    if loc is not None: return loc
    for t in [diag.get("message") or ""] + [c.get("message") or "" for c in diag.get("children") or []]:
        m = _U_TEXT.search(t)
        if m: return int(m.group(1))
    return None

#!/bin/sh
# Offline set-up after a fresh restore: build the harness (with hooks) against /repo, regenerate the
# Lean tables from /repo's source, build every proof module and the model driver.
set -e
cd "$(dirname "$0")"
export CARGO_NET_OFFLINE=true
cp -f /repo/Cargo.lock harness/Cargo.lock
cp -f /repo/rust-toolchain.toml harness/rust-toolchain.toml
(cd harness && cargo build --offline)
./harness/target/debug/extract /repo lean/TypifyModel/Generated
(cd lean && lake build TypifyModel $(grep -o 'name = "drv_[a-z0-9_]*"' lakefile.toml | cut -d'"' -f2))
echo setup-ok

//! tvh: implementation side of the correspondence line protocol.
//! usage: tvh <slice>   (reads one request per line on stdin, writes one answer per line)
use std::io::{BufRead, Write};

mod c10;
mod util;

fn main() {
    let slice = std::env::args().nth(1).expect("slice");
    let handler: fn(&str) -> String = match slice.as_str() {
        "c10" => c10::handle,
        other => {
            eprintln!("unknown slice {}", other);
            std::process::exit(2);
        }
    };
    std::panic::set_hook(Box::new(|_| {}));
    let stdin = std::io::stdin();
    let stdout = std::io::stdout();
    let mut out = std::io::BufWriter::new(stdout.lock());
    for line in stdin.lock().lines() {
        let line = line.unwrap();
        if line.trim().is_empty() {
            continue;
        }
        let ans = match std::panic::catch_unwind(|| handler(&line)) {
            Ok(s) => s,
            Err(_) => "panic".to_string(),
        };
        writeln!(out, "{}", ans).unwrap();
    }
}

//! T5b (C12): interior mutability, global state and `unsafe` in typify's own non-test code
//!   -> Generated/Interior.lean
//! `TypeSpace::to_stream(&self)` takes a shared reference. Without a type built on `UnsafeCell` (Cell, RefCell,
//! OnceCell, Mutex, RwLock, atomics, ...), without `static mut` / thread-locals / lazily initialised statics and
//! without `unsafe`, safe Rust cannot change anything reachable from `&self`, so two renderings of one type space
//! read the same state. This table lists every such mention; `C12.no_hidden_state` requires it to be empty.
use std::fmt::Write as _;
use syn::visit::Visit;

const CRATES: [&str; 4] = ["typify-impl", "typify-macro", "cargo-typify", "typify"];
const CELLS: [&str; 22] = [
    "Cell", "RefCell", "UnsafeCell", "OnceCell", "LazyCell", "OnceLock", "LazyLock", "Mutex", "RwLock", "Once", "AtomicBool",
    "AtomicUsize", "AtomicIsize", "AtomicU8", "AtomicU16", "AtomicU32", "AtomicU64", "AtomicI32", "AtomicI64", "AtomicPtr", "Lazy",
    "SyncUnsafeCell",
];
const MACROS: [&str; 4] = ["thread_local", "lazy_static", "static_init", "once_cell"];

fn rs_files(dir: &std::path::Path, out: &mut Vec<std::path::PathBuf>) {
    let Ok(rd) = std::fs::read_dir(dir) else { return };
    let mut ents: Vec<_> = rd.filter_map(|e| e.ok()).map(|e| e.path()).collect();
    ents.sort();
    for p in ents {
        if p.is_dir() {
            rs_files(&p, out);
        } else if p.extension().map(|e| e == "rs").unwrap_or(false) {
            out.push(p);
        }
    }
}

fn has_cfg_test(attrs: &[syn::Attribute]) -> bool {
    attrs.iter().any(|a| {
        let s = quote::quote!(#a).to_string().replace(' ', "");
        s.contains("cfg(test)") || s == "#[test]" || s.contains("cfg(typify_verif)")
    })
}

struct Scan {
    file: String,
    ctx: Vec<String>,
    hits: Vec<(String, String, String)>, // (file, what, context)
    unsafe_hits: Vec<(String, String)>,
}
impl Scan {
    fn here(&self) -> String {
        self.ctx.join("::")
    }
    fn hit(&mut self, what: String) {
        let c = self.here();
        if !self.hits.iter().any(|h| h.1 == what && h.2 == c) {
            self.hits.push((self.file.clone(), what, c));
        }
    }
}
impl<'ast> Visit<'ast> for Scan {
    fn visit_item_mod(&mut self, m: &'ast syn::ItemMod) {
        if has_cfg_test(&m.attrs) {
            return;
        }
        self.ctx.push(m.ident.to_string());
        syn::visit::visit_item_mod(self, m);
        self.ctx.pop();
    }
    fn visit_item_fn(&mut self, f: &'ast syn::ItemFn) {
        if has_cfg_test(&f.attrs) {
            return;
        }
        if f.sig.unsafety.is_some() {
            self.unsafe_hits.push((self.file.clone(), format!("unsafe fn {}", f.sig.ident)));
        }
        self.ctx.push(f.sig.ident.to_string());
        syn::visit::visit_item_fn(self, f);
        self.ctx.pop();
    }
    fn visit_impl_item_fn(&mut self, f: &'ast syn::ImplItemFn) {
        if has_cfg_test(&f.attrs) {
            return;
        }
        if f.sig.unsafety.is_some() {
            self.unsafe_hits.push((self.file.clone(), format!("unsafe fn {}", f.sig.ident)));
        }
        self.ctx.push(f.sig.ident.to_string());
        syn::visit::visit_impl_item_fn(self, f);
        self.ctx.pop();
    }
    fn visit_item_struct(&mut self, s: &'ast syn::ItemStruct) {
        if has_cfg_test(&s.attrs) {
            return;
        }
        self.ctx.push(format!("struct {}", s.ident));
        syn::visit::visit_item_struct(self, s);
        self.ctx.pop();
    }
    fn visit_item_impl(&mut self, i: &'ast syn::ItemImpl) {
        if has_cfg_test(&i.attrs) {
            return;
        }
        if i.unsafety.is_some() {
            self.unsafe_hits.push((self.file.clone(), "unsafe impl".to_string()));
        }
        syn::visit::visit_item_impl(self, i);
    }
    fn visit_item_static(&mut self, s: &'ast syn::ItemStatic) {
        if has_cfg_test(&s.attrs) {
            return;
        }
        if matches!(s.mutability, syn::StaticMutability::Mut(_)) {
            self.hit(format!("static mut {}", s.ident));
        }
        syn::visit::visit_item_static(self, s);
    }
    fn visit_path(&mut self, p: &'ast syn::Path) {
        for seg in &p.segments {
            let id = seg.ident.to_string();
            if CELLS.contains(&id.as_str()) {
                self.hit(id);
            }
        }
        syn::visit::visit_path(self, p);
    }
    fn visit_use_tree(&mut self, u: &'ast syn::UseTree) {
        match u {
            syn::UseTree::Name(n) if CELLS.contains(&n.ident.to_string().as_str()) => self.hit(format!("use {}", n.ident)),
            syn::UseTree::Rename(n) if CELLS.contains(&n.ident.to_string().as_str()) => self.hit(format!("use {} as {}", n.ident, n.rename)),
            _ => {}
        }
        syn::visit::visit_use_tree(self, u);
    }
    fn visit_macro(&mut self, m: &'ast syn::Macro) {
        if let Some(last) = m.path.segments.last() {
            let id = last.ident.to_string();
            if MACROS.contains(&id.as_str()) {
                self.hit(format!("{}!", id));
            }
        }
        // token-level look inside macro bodies (quote! templates are emitted code, not typify's own state: skipped)
        let name = m.path.segments.last().map(|s| s.ident.to_string()).unwrap_or_default();
        if name != "quote" && name != "format_ident" && name != "parse_quote" {
            let body = m.tokens.to_string();
            for c in CELLS {
                let pat = format!("{} ::", c);
                let pat2 = format!("{} <", c);
                if body.contains(&pat) || body.contains(&pat2) {
                    self.hit(format!("{} (in {}!)", c, name));
                }
            }
        }
        syn::visit::visit_macro(self, m);
    }
    fn visit_expr_unsafe(&mut self, u: &'ast syn::ExprUnsafe) {
        let c = self.here();
        self.unsafe_hits.push((self.file.clone(), format!("unsafe block in {}", c)));
        syn::visit::visit_expr_unsafe(self, u);
    }
}

pub fn t5b_interior(repo: &str, outdir: &str) {
    let mut hits = Vec::new();
    let mut unsafe_hits = Vec::new();
    let mut n = 0;
    let mut unparsed = Vec::new();
    for krate in CRATES {
        let mut files = Vec::new();
        rs_files(std::path::Path::new(&format!("{}/{}/src", repo, krate)), &mut files);
        // modules declared under cfg(test) / cfg(typify_verif) (`#[cfg(..)] mod x;`): their files are skipped
        let mut skipped_mods: Vec<String> = Vec::new();
        for p in &files {
            if let Ok(f) = std::fs::read_to_string(p).map_err(|_| ()).and_then(|s| syn::parse_file(&s).map_err(|_| ())) {
                for it in &f.items {
                    if let syn::Item::Mod(m) = it {
                        if m.content.is_none() && has_cfg_test(&m.attrs) {
                            skipped_mods.push(m.ident.to_string());
                        }
                    }
                }
            }
        }
        for p in files {
            let rel = p.strip_prefix(repo).unwrap_or(&p).to_string_lossy().trim_start_matches('/').to_string();
            let Ok(src) = std::fs::read_to_string(&p) else { continue };
            // files that are test-only modules (declared `#[cfg(test)] mod x;` in the parent) are named test*.rs here
            match syn::parse_file(&src) {
                Ok(f) => {
                    n += 1;
                    let stem = p.file_stem().map(|s| s.to_string_lossy().to_string()).unwrap_or_default();
                    if skipped_mods.contains(&stem) {
                        continue;
                    }
                    let mut s = Scan { file: rel, ctx: vec![], hits: vec![], unsafe_hits: vec![] };
                    s.visit_file(&f);
                    hits.extend(s.hits);
                    unsafe_hits.extend(s.unsafe_hits);
                }
                Err(_) => unparsed.push(rel),
            }
        }
    }
    let mut out = String::new();
    out.push_str("-- GENERATED by /verif/harness/src/extract_t5b.rs from /repo source. Do not edit.\n\nnamespace TypifyModel.Generated\n\n");
    writeln!(out, "/-- T5b: non-test source files scanned -/\ndef interiorFilesScanned : Nat := {}\n", n).unwrap();
    let q = |v: &Vec<String>| v.iter().map(|s| format!("{:?}", s)).collect::<Vec<_>>().join(", ");
    writeln!(out, "def interiorUnparsed : List String := [{}]\n", q(&unparsed)).unwrap();
    writeln!(out, "/-- T5b: mentions of interior-mutability / global-state constructs (file, construct, enclosing item) -/").unwrap();
    writeln!(out, "def interiorSites : List (String × String × String) := [").unwrap();
    for (i, (f, w, c)) in hits.iter().enumerate() {
        writeln!(out, "  ({:?}, {:?}, {:?}){}", f, w, c, if i + 1 < hits.len() { "," } else { "" }).unwrap();
    }
    writeln!(out, "]\n").unwrap();
    writeln!(out, "/-- T5b: `unsafe` blocks, fns and impls (file, what) -/").unwrap();
    writeln!(out, "def unsafeSites : List (String × String) := [").unwrap();
    for (i, (f, w)) in unsafe_hits.iter().enumerate() {
        writeln!(out, "  ({:?}, {:?}){}", f, w, if i + 1 < unsafe_hits.len() { "," } else { "" }).unwrap();
    }
    writeln!(out, "]\n").unwrap();
    out.push_str("end TypifyModel.Generated\n");
    let path = format!("{}/Interior.lean", outdir);
    if std::fs::read_to_string(&path).ok().as_deref() != Some(out.as_str()) {
        std::fs::write(&path, out).unwrap();
    }
}

//! T9 (C01): every `unwrap()` / `expect(..)` / `panic!` / `unreachable!` / `unimplemented!` / `todo!` /
//! `assert*!` / `format_ident!` call site in the functions of typify-impl that are reachable from
//! `TypeSpace::to_stream` -> Generated/PanicSites.lean.
//!
//! Reachability is by NAME over the seven files below (a call `x.f(..)` / `p::f(..)` reaches every
//! function or inherent/own-trait method called `f`): an over-approximation, so a site can only be
//! listed needlessly, never missed. Methods of impls of std / serde / quote traits are not call targets
//! by name (`from`, `default`, `fmt`, `eq`, ..); `quote!`-style macros are opaque to `syn`, so code that
//! is merely EMITTED (e.g. `.unwrap()` inside a `quote!`) is not a site.
//! Fingerprint (line independent): `<fn>|<macro>!(<first tokens>)` or `<fn>|<receiver tail>.unwrap()`.
use std::collections::{BTreeMap, BTreeSet};
use syn::visit::Visit;

const FILES: [&str; 7] = [
    "type_entry.rs",
    "defaults.rs",
    "value.rs",
    "structs.rs",
    "enums.rs",
    "output.rs",
    "lib.rs",
];
const ROOT: &str = "to_stream";
const STD_TRAITS: [&str; 20] = [
    "From", "Default", "Display", "Debug", "PartialEq", "Eq", "PartialOrd", "Ord", "Hash", "Clone", "Deref",
    "FromStr", "TryFrom", "Serialize", "Deserialize", "ToTokens", "Iterator", "AsRef", "Borrow", "Into",
];
const PANIC_MACROS: [&str; 10] = [
    "panic", "unreachable", "unimplemented", "todo", "assert", "assert_eq", "assert_ne", "format_ident",
    "debug_assert", "debug_assert_eq",
];

fn fail(msg: &str) -> ! {
    eprintln!("extract: shape not found: {}", msg);
    std::process::exit(3);
}

#[derive(Default, Clone)]
struct FnInfo {
    file: String,
    calls: BTreeSet<String>,
    sites: BTreeSet<String>,
    in_test: bool,
}

fn squeeze(s: &str) -> String {
    s.split_whitespace().collect::<Vec<_>>().join(" ")
}

fn tail(s: &str, n: usize) -> String {
    let cs: Vec<char> = s.chars().collect();
    if cs.len() <= n {
        s.to_string()
    } else {
        cs[cs.len() - n..].iter().collect()
    }
}

fn head(s: &str, n: usize) -> String {
    s.chars().take(n).collect()
}

struct Body<'a> {
    info: &'a mut FnInfo,
}

impl<'ast, 'a> Visit<'ast> for Body<'a> {
    fn visit_expr_call(&mut self, c: &'ast syn::ExprCall) {
        if let syn::Expr::Path(p) = &*c.func {
            if let Some(seg) = p.path.segments.last() {
                self.info.calls.insert(seg.ident.to_string());
            }
        }
        syn::visit::visit_expr_call(self, c);
    }
    fn visit_expr_method_call(&mut self, m: &'ast syn::ExprMethodCall) {
        let name = m.method.to_string();
        self.info.calls.insert(name.clone());
        if name == "unwrap" || name == "expect" {
            use quote::ToTokens;
            let recv = squeeze(&m.receiver.to_token_stream().to_string());
            let arg = m
                .args
                .first()
                .map(|a| head(&squeeze(&a.to_token_stream().to_string()), 60))
                .unwrap_or_default();
            self.info.sites.insert(format!("{} . {}({})", tail(&recv, 70), name, arg));
        }
        syn::visit::visit_expr_method_call(self, m);
    }
    fn visit_macro(&mut self, m: &'ast syn::Macro) {
        if let Some(seg) = m.path.segments.last() {
            let name = seg.ident.to_string();
            if PANIC_MACROS.contains(&name.as_str()) {
                self.info.sites.insert(format!("{}!({})", name, head(&squeeze(&m.tokens.to_string()), 60)));
            }
            // macros whose arguments are ordinary expressions: look inside for calls and sites
            if ["assert", "assert_eq", "assert_ne", "format", "vec", "matches", "debug_assert", "println", "write"]
                .contains(&name.as_str())
            {
                if let Ok(args) = m.parse_body_with(
                    syn::punctuated::Punctuated::<syn::Expr, syn::Token![,]>::parse_terminated,
                ) {
                    for a in args.iter() {
                        self.visit_expr(a);
                    }
                }
            }
        }
    }
    // nested items are functions of their own
    fn visit_item_fn(&mut self, _f: &'ast syn::ItemFn) {}
}

struct Collect {
    file: String,
    fns: BTreeMap<String, Vec<FnInfo>>,
    test_depth: usize,
    skip_impl: bool,
}

fn is_test_attr(attrs: &[syn::Attribute]) -> bool {
    attrs.iter().any(|a| {
        use quote::ToTokens;
        let t = a.to_token_stream().to_string().replace(' ', "");
        t.contains("cfg(test)") || t == "#[test]"
    })
}

impl Collect {
    fn add(&mut self, name: String, block: &syn::Block) {
        let mut info = FnInfo { file: self.file.clone(), in_test: self.test_depth > 0, ..Default::default() };
        Body { info: &mut info }.visit_block(block);
        self.fns.entry(name).or_default().push(info);
    }
}

impl<'ast> Visit<'ast> for Collect {
    fn visit_item_mod(&mut self, m: &'ast syn::ItemMod) {
        let t = is_test_attr(&m.attrs);
        if t {
            self.test_depth += 1;
        }
        syn::visit::visit_item_mod(self, m);
        if t {
            self.test_depth -= 1;
        }
    }
    fn visit_item_impl(&mut self, i: &'ast syn::ItemImpl) {
        let std_trait = i
            .trait_
            .as_ref()
            .and_then(|(_, p, _)| p.segments.last().map(|s| s.ident.to_string()))
            .map(|n| STD_TRAITS.contains(&n.as_str()))
            .unwrap_or(false);
        let old = self.skip_impl;
        self.skip_impl = std_trait;
        syn::visit::visit_item_impl(self, i);
        self.skip_impl = old;
    }
    fn visit_impl_item_fn(&mut self, f: &'ast syn::ImplItemFn) {
        if !self.skip_impl && !is_test_attr(&f.attrs) {
            self.add(f.sig.ident.to_string(), &f.block);
        }
        // nested fns inside the body
        syn::visit::visit_block(self, &f.block);
    }
    fn visit_item_fn(&mut self, f: &'ast syn::ItemFn) {
        if !is_test_attr(&f.attrs) {
            self.add(f.sig.ident.to_string(), &f.block);
        }
        syn::visit::visit_block(self, &f.block);
    }
}

fn lean_str(s: &str) -> String {
    let mut o = String::from("\"");
    for c in s.chars() {
        match c {
            '"' => o.push_str("\\\""),
            '\\' => o.push_str("\\\\"),
            '\n' => o.push_str("\\n"),
            c if (c as u32) < 0x20 => o.push_str(&format!("\\x{:02x}", c as u32)),
            c => o.push(c),
        }
    }
    o.push('"');
    o
}

pub fn t9_panic_sites(repo: &str, outdir: &str) {
    let mut col = Collect { file: String::new(), fns: BTreeMap::new(), test_depth: 0, skip_impl: false };
    for f in FILES {
        let path = format!("{}/typify-impl/src/{}", repo, f);
        let src = std::fs::read_to_string(&path).unwrap_or_else(|_| fail(&format!("file {}", path)));
        let file = syn::parse_file(&src).unwrap_or_else(|_| fail(&format!("{} does not parse", path)));
        col.file = f.to_string();
        col.visit_file(&file);
    }
    if !col.fns.contains_key(ROOT) {
        fail("fn to_stream in typify-impl/src/lib.rs");
    }
    // reachability by name, test code excluded
    let mut seen: BTreeSet<String> = BTreeSet::new();
    let mut todo = vec![ROOT.to_string()];
    while let Some(n) = todo.pop() {
        if !seen.insert(n.clone()) {
            continue;
        }
        if let Some(infos) = col.fns.get(&n) {
            for i in infos.iter().filter(|i| !i.in_test) {
                for c in &i.calls {
                    if col.fns.contains_key(c) && !seen.contains(c) {
                        todo.push(c.clone());
                    }
                }
            }
        }
    }
    let mut rows: BTreeSet<(String, String, String)> = BTreeSet::new();
    for n in &seen {
        if let Some(infos) = col.fns.get(n) {
            for i in infos.iter().filter(|i| !i.in_test) {
                for s in &i.sites {
                    rows.insert((i.file.clone(), n.clone(), format!("{}|{}", n, s)));
                }
            }
        }
    }
    if rows.is_empty() {
        fail("no panic site found on the to_stream path (expected dozens)");
    }
    let mut out = String::new();
    out.push_str("-- GENERATED by /verif/harness/src/extract_t9.rs from /repo/typify-impl/src. Do not edit.\n");
    out.push_str("import TypifyModel.Model.Wf\n\nnamespace TypifyModel.Generated\nopen TypifyModel\n\n");
    out.push_str("/-- T9: panic sites in the functions reachable (by name) from `TypeSpace::to_stream` -/\n");
    out.push_str("def panicSites : List Wf.Site := [\n");
    let n = rows.len();
    for (k, (file, f, fp)) in rows.iter().enumerate() {
        out.push_str(&format!(
            "  ⟨{}, {}, {}⟩{}\n",
            lean_str(file),
            lean_str(f),
            lean_str(fp),
            if k + 1 < n { "," } else { "" }
        ));
    }
    out.push_str("]\n\n");
    out.push_str(&format!(
        "/-- functions reachable (by name) from `to_stream` -/\ndef renderPathFns : List String := [{}]\n\n",
        seen.iter()
            .filter(|n| col.fns.contains_key(*n))
            .map(|s| lean_str(s))
            .collect::<Vec<_>>()
            .join(", ")
    ));
    out.push_str("end TypifyModel.Generated\n");
    std::fs::create_dir_all(outdir).unwrap();
    let path = format!("{}/PanicSites.lean", outdir);
    if std::fs::read_to_string(&path).ok().as_deref() != Some(out.as_str()) {
        std::fs::write(&path, out).unwrap();
    }
}

//! T5 (property C12): every `HashMap`/`HashSet` of typify's own code and how its contents are
//! observed. Included by `src/bin/extract.rs` (`#[path]` module); writes
//! `Generated/HashSites.lean`.
//!
//! A *site* is a value of hash-collection type: a `let` binding, a fn parameter, a struct field, or a
//! temporary that is consumed in the expression creating it. For every site the method calls made on
//! it are collected and mapped to a consumer kind (see `TypifyModel.Determinism.Consumer`). Whatever
//! cannot be recognised is `unknown`; every mention of the two identifiers that is not attributed to
//! a site or an import is an `unknown` site of its own. `run` returns `Err` in that case (after
//! having written the table, so that the Lean obligation `hash_sites_ok` fails as well).
use std::collections::{BTreeMap, BTreeSet};
use std::fmt::Write as _;
use syn::visit::Visit;

const CRATES: [&str; 4] = ["typify-impl", "typify-macro", "cargo-typify", "typify"];

#[derive(Clone, Debug, PartialEq, Eq, PartialOrd, Ord)]
enum Kind {
    Insert,
    Len,
    Keyed,
    Subset,
    IterSorted,
    KeyedInsert,
    Iterate(String),
    Unknown(String),
}

#[derive(Clone, Debug)]
struct Site {
    file: String,
    func: String,
    binding: String,
    origin: &'static str,
    kinds: BTreeSet<Kind>,
    line: usize,
}

fn is_hash_name(s: &str) -> bool {
    s == "HashMap" || s == "HashSet"
}

/// addresses of the `HashMap`/`HashSet` identifiers below a node (macro bodies are opaque)
#[derive(Default)]
struct HashIdents {
    found: Vec<*const syn::Ident>,
}
impl<'ast> Visit<'ast> for HashIdents {
    fn visit_ident(&mut self, i: &'ast syn::Ident) {
        if is_hash_name(&i.to_string()) {
            self.found.push(i as *const _);
        }
    }
}
fn hash_idents_type(t: &syn::Type) -> Vec<*const syn::Ident> {
    let mut h = HashIdents::default();
    h.visit_type(t);
    h.found
}
fn hash_idents_path(p: &syn::Path) -> Vec<*const syn::Ident> {
    let mut h = HashIdents::default();
    h.visit_path(p);
    h.found
}
fn type_mentions(t: &syn::Type, names: &[&str]) -> bool {
    struct V<'a>(&'a [&'a str], bool);
    impl<'ast, 'a> Visit<'ast> for V<'a> {
        fn visit_ident(&mut self, i: &'ast syn::Ident) {
            if self.0.iter().any(|n| i == n) {
                self.1 = true;
            }
        }
    }
    let mut v = V(names, false);
    v.visit_type(t);
    v.1
}
fn turbofish_mentions(mc: &syn::ExprMethodCall, names: &[&str]) -> bool {
    struct V<'a>(&'a [&'a str], bool);
    impl<'ast, 'a> Visit<'ast> for V<'a> {
        fn visit_ident(&mut self, i: &'ast syn::Ident) {
            if self.0.iter().any(|n| i == n) {
                self.1 = true;
            }
        }
    }
    match &mc.turbofish {
        None => false,
        Some(t) => {
            let mut v = V(names, false);
            v.visit_angle_bracketed_generic_arguments(t);
            v.1
        }
    }
}
const HASH: [&str; 2] = ["HashMap", "HashSet"];
const BTREE: [&str; 2] = ["BTreeMap", "BTreeSet"];

fn has_cfg_test(attrs: &[syn::Attribute]) -> bool {
    attrs.iter().any(|a| {
        a.path().is_ident("cfg") && {
            let s = a.meta.require_list().map(|l| l.tokens.to_string()).unwrap_or_default();
            s.split(|c: char| !c.is_alphanumeric() && c != '_').any(|w| w == "test")
        }
    })
}

fn peel(e: &syn::Expr) -> &syn::Expr {
    match e {
        syn::Expr::Paren(p) => peel(&p.expr),
        syn::Expr::Group(g) => peel(&g.expr),
        syn::Expr::Reference(r) => peel(&r.expr),
        syn::Expr::Unary(u) if matches!(u.op, syn::UnOp::Deref(_)) => peel(&u.expr),
        _ => e,
    }
}

fn is_ident_expr(e: &syn::Expr, name: &str) -> bool {
    match peel(e) {
        syn::Expr::Path(p) => p.qself.is_none() && p.path.is_ident(name),
        _ => false,
    }
}

/// `a.b().c()` → (`a`, [`.b()`, `.c()`])
fn flatten(e: &syn::Expr) -> (&syn::Expr, Vec<&syn::ExprMethodCall>) {
    let mut calls = Vec::new();
    let mut cur = e;
    loop {
        match peel_paren(cur) {
            syn::Expr::MethodCall(mc) => {
                calls.push(mc);
                cur = &mc.receiver;
            }
            syn::Expr::Try(t) => cur = &t.expr,
            other => {
                calls.reverse();
                return (other, calls);
            }
        }
    }
}
fn peel_paren(e: &syn::Expr) -> &syn::Expr {
    match e {
        syn::Expr::Paren(p) => peel_paren(&p.expr),
        syn::Expr::Group(g) => peel_paren(&g.expr),
        _ => e,
    }
}

/// `HashSet::new()`, `HashMap::with_capacity(n)`, `std::collections::HashSet::from(..)` …
fn hash_ctor(e: &syn::Expr) -> Option<&syn::Path> {
    if let syn::Expr::Call(c) = peel_paren(e) {
        if let syn::Expr::Path(p) = &*c.func {
            if p.path.segments.iter().any(|s| is_hash_name(&s.ident.to_string())) {
                return Some(&p.path);
            }
        }
    }
    None
}

fn idents_in_pat(p: &syn::Pat, out: &mut Vec<String>) {
    struct V<'a>(&'a mut Vec<String>);
    impl<'ast, 'a> Visit<'ast> for V<'a> {
        fn visit_pat_ident(&mut self, i: &'ast syn::PatIdent) {
            self.0.push(i.ident.to_string());
            syn::visit::visit_pat_ident(self, i);
        }
    }
    V(out).visit_pat(p);
}
fn pat_ident(p: &syn::Pat) -> Option<String> {
    match p {
        syn::Pat::Type(t) => pat_ident(&t.pat),
        syn::Pat::Ident(i) => Some(i.ident.to_string()),
        _ => None,
    }
}
fn single_idents_in_expr(e: &syn::Expr) -> Vec<String> {
    struct V(Vec<String>);
    impl<'ast> Visit<'ast> for V {
        fn visit_expr_path(&mut self, p: &'ast syn::ExprPath) {
            if let Some(i) = p.path.get_ident() {
                self.0.push(i.to_string());
            }
        }
    }
    let mut v = V(Vec::new());
    v.visit_expr(e);
    v.0
}

const ITER_METHODS: [&str; 14] = [
    "iter", "into_iter", "keys", "values", "into_keys", "into_values", "drain", "iter_mut",
    "values_mut", "union", "intersection", "difference", "symmetric_difference", "retain",
];
const KEYED_METHODS: [&str; 7] =
    ["contains", "contains_key", "get", "get_mut", "get_key_value", "entry", "remove_entry"];
const BUILD_METHODS: [&str; 6] = ["insert", "remove", "extend", "clear", "reserve", "shrink_to_fit"];
const LEN_METHODS: [&str; 2] = ["len", "is_empty"];
const SUBSET_METHODS: [&str; 3] = ["is_subset", "is_superset", "is_disjoint"];
const KEY_RENDER: [&str; 7] =
    ["to_token_stream", "to_string", "clone", "as_str", "as_ref", "into_inner", "to_owned"];

/// facts about the fn being analysed that the chain classifier needs
struct FnCtx<'a> {
    /// setters of `TypeSpaceSettings` that are `self.<BTreeMap field>.insert(<param0>.to_string(), ..)`
    setters: &'a BTreeSet<String>,
}

/// is `s` the statement `<var>.sort…(..);` ?
fn is_sort_of(s: &syn::Stmt, var: &str) -> bool {
    if let syn::Stmt::Expr(syn::Expr::MethodCall(mc), Some(_)) = s {
        return mc.method.to_string().starts_with("sort") && is_ident_expr(&mc.receiver, var);
    }
    false
}

/// the body of an iteration (`for pat in map { body }` / `.for_each(|pat| body)`): does it only
/// perform `BTreeMap::insert` keyed by an injective rendering of the hash map's own key?
fn keyed_insert_body(pat: &syn::Pat, body: &syn::Expr, ctx: &FnCtx) -> Result<(), String> {
    let pat = match pat {
        syn::Pat::Type(t) => &*t.pat,
        p => p,
    };
    let (mut keys, mut vals) = (Vec::new(), Vec::new());
    match pat {
        syn::Pat::Tuple(t) if t.elems.len() == 2 => {
            idents_in_pat(&t.elems[0], &mut keys);
            idents_in_pat(&t.elems[1], &mut vals);
        }
        p => idents_in_pat(p, &mut keys),
    }
    fn stmts<'a>(e: &'a syn::Expr) -> Vec<&'a syn::Stmt> {
        match e {
            syn::Expr::Block(b) => b.block.stmts.iter().collect(),
            _ => Vec::new(),
        }
    }
    fn check_expr(e: &syn::Expr, keys: &[String], vals: &mut Vec<String>, ctx: &FnCtx) -> Result<(), String> {
        match e {
            syn::Expr::Block(b) => check_stmts(&b.block.stmts.iter().collect::<Vec<_>>(), keys, vals, ctx),
            syn::Expr::If(i) => {
                let mut v2 = vals.clone();
                if let syn::Expr::Let(l) = &*i.cond {
                    idents_in_pat(&l.pat, &mut v2);
                }
                check_stmts(&i.then_branch.stmts.iter().collect::<Vec<_>>(), keys, &mut v2.clone(), ctx)?;
                match &i.else_branch {
                    Some((_, e)) => check_expr(e, keys, &mut v2, ctx),
                    None => Ok(()),
                }
            }
            syn::Expr::MethodCall(mc) => {
                let m = mc.method.to_string();
                if !ctx.setters.contains(&m) {
                    return Err(format!("iteration body calls `{}`, which is not a BTreeMap-insert setter", m));
                }
                let Some(arg0) = mc.args.first() else { return Err("setter without key".into()) };
                let ids = single_idents_in_expr(arg0);
                if ids.is_empty() || !ids.iter().all(|i| keys.contains(i)) || ids.iter().any(|i| vals.contains(i)) {
                    return Err(format!(
                        "`{}` is keyed by `{}`, which is not the hash map's own key: entries with colliding keys are written in hash order",
                        m,
                        quote::ToTokens::to_token_stream(arg0)
                    ));
                }
                let (base, calls) = flatten(peel(arg0));
                let base_ok = matches!(base, syn::Expr::Path(_));
                if !base_ok || !calls.iter().all(|c| KEY_RENDER.contains(&c.method.to_string().as_str())) {
                    return Err(format!("key expression `{}` not recognised as injective", quote::ToTokens::to_token_stream(arg0)));
                }
                Ok(())
            }
            _ => Err("iteration body does something other than keyed BTreeMap inserts".into()),
        }
    }
    fn check_stmts(ss: &[&syn::Stmt], keys: &[String], vals: &mut Vec<String>, ctx: &FnCtx) -> Result<(), String> {
        if ss.is_empty() {
            return Err("empty iteration body".into());
        }
        for s in ss {
            match s {
                syn::Stmt::Local(l) => {
                    // values derived from anything: never acceptable as a key afterwards
                    idents_in_pat(&l.pat, vals);
                }
                syn::Stmt::Expr(e, _) => check_expr(e, keys, vals, ctx)?,
                _ => return Err("iteration body contains an item or macro".into()),
            }
        }
        Ok(())
    }
    let ss = stmts(body);
    if ss.is_empty() {
        check_expr(body, &keys, &mut vals, ctx)
    } else {
        check_stmts(&ss, &keys, &mut vals, ctx)
    }
}

/// classify the method calls made on a hash collection (first element of `calls` is the method
/// called on the collection itself)
/// `let_ctx`: when the chain is the initialiser of a `let`: (the type annotation names a `BTree*`,
/// the statement right after the `let` sorts the bound variable)
fn classify_chain(calls: &[&syn::ExprMethodCall], let_ctx: Option<(bool, bool)>, ctx: &FnCtx) -> Kind {
    let m1 = calls[0].method.to_string();
    let text = calls.iter().map(|c| format!(".{}()", c.method)).collect::<String>();
    if BUILD_METHODS.contains(&m1.as_str()) {
        return Kind::Insert;
    }
    if KEYED_METHODS.contains(&m1.as_str()) {
        return Kind::Keyed;
    }
    if LEN_METHODS.contains(&m1.as_str()) {
        return Kind::Len;
    }
    if SUBSET_METHODS.contains(&m1.as_str()) {
        return Kind::Subset;
    }
    if ITER_METHODS.contains(&m1.as_str()) {
        if calls.iter().any(|c| c.method == "collect" && turbofish_mentions(c, &BTREE)) {
            return Kind::IterSorted;
        }
        if calls.iter().any(|c| c.method.to_string().starts_with("sorted")) {
            return Kind::IterSorted;
        }
        let last = calls[calls.len() - 1];
        if last.method == "collect" {
            if let Some((btree_annot, sorted_next)) = let_ctx {
                if btree_annot || sorted_next {
                    return Kind::IterSorted;
                }
            }
        }
        if last.method == "for_each" && calls.len() == 2 {
            if let Some(syn::Expr::Closure(cl)) = last.args.first() {
                if let Some(p) = cl.inputs.first() {
                    return match keyed_insert_body(p, &cl.body, ctx) {
                        Ok(()) => Kind::KeyedInsert,
                        Err(why) => Kind::Iterate(format!("{}: {}", text, why)),
                    };
                }
            }
        }
        return Kind::Iterate(format!("{} feeds an order-sensitive consumer", text));
    }
    Kind::Unknown(format!("method {}", text))
}

/// all uses of the variable `name` inside a fn body
struct Uses<'a> {
    name: &'a str,
    ctx: &'a FnCtx<'a>,
    kinds: BTreeSet<Kind>,
    /// set while visiting a `let`: the next statement of the block sorts the bound variable
    sorted_next: bool,
}
impl<'a> Uses<'a> {
    fn chain(&mut self, e: &syn::Expr, let_ctx: Option<(bool, bool)>) -> bool {
        let (base, calls) = flatten(e);
        if !calls.is_empty() && is_ident_expr(base, self.name) {
            let k = classify_chain(&calls, let_ctx, self.ctx);
            self.kinds.insert(k);
            for c in &calls {
                for a in &c.args {
                    self.visit_expr(a);
                }
            }
            return true;
        }
        false
    }
}
impl<'ast, 'a> Visit<'ast> for Uses<'a> {
    fn visit_block(&mut self, b: &'ast syn::Block) {
        for (i, st) in b.stmts.iter().enumerate() {
            self.sorted_next = match st {
                syn::Stmt::Local(l) => match (pat_ident(&l.pat), b.stmts.get(i + 1)) {
                    (Some(v), Some(next)) => is_sort_of(next, &v),
                    _ => false,
                },
                _ => false,
            };
            self.visit_stmt(st);
        }
        self.sorted_next = false;
    }
    fn visit_local(&mut self, l: &'ast syn::Local) {
        if let Some(init) = &l.init {
            let annot = match &l.pat {
                syn::Pat::Type(t) => type_mentions(&t.ty, &BTREE),
                _ => false,
            };
            let sorted_next = self.sorted_next;
            self.sorted_next = false;
            if self.chain(&init.expr, Some((annot, sorted_next))) {
                if let Some((_, d)) = &init.diverge {
                    self.visit_expr(d);
                }
                return;
            }
        }
        syn::visit::visit_local(self, l);
    }
    fn visit_expr(&mut self, e: &'ast syn::Expr) {
        match e {
            syn::Expr::MethodCall(mc) => {
                if self.chain(e, None) {
                    return;
                }
                // the variable as an argument of a set comparison
                let m = mc.method.to_string();
                self.visit_expr(&mc.receiver);
                for a in &mc.args {
                    if is_ident_expr(a, self.name) {
                        if SUBSET_METHODS.contains(&m.as_str()) {
                            self.kinds.insert(Kind::Subset);
                        } else {
                            self.kinds.insert(Kind::Unknown(format!("passed to method `{}`", m)));
                        }
                    } else {
                        self.visit_expr(a);
                    }
                }
            }
            syn::Expr::ForLoop(f) if is_ident_expr(&f.expr, self.name) => {
                let body = syn::Expr::Block(syn::ExprBlock { attrs: vec![], label: None, block: f.body.clone() });
                let k = match keyed_insert_body(&f.pat, &body, self.ctx) {
                    Ok(()) => Kind::KeyedInsert,
                    Err(why) => Kind::Iterate(format!("for loop over the collection: {}", why)),
                };
                self.kinds.insert(k);
                self.visit_block(&f.body);
            }
            syn::Expr::Path(p) if p.qself.is_none() && p.path.is_ident(self.name) => {
                self.kinds.insert(Kind::Unknown("used as a value (moved, passed, returned or assigned)".into()));
            }
            syn::Expr::Closure(c) => {
                // a closure parameter of the same name shadows the collection
                let mut bound = Vec::new();
                for p in &c.inputs {
                    idents_in_pat(p, &mut bound);
                }
                if !bound.iter().any(|b| b == self.name) {
                    syn::visit::visit_expr(self, e);
                }
            }
            _ => syn::visit::visit_expr(self, e),
        }
    }
    fn visit_macro(&mut self, m: &'ast syn::Macro) {
        let name = self.name;
        if m.tokens.clone().into_iter().any(|t| tokens_mention(&t, &|s| s == name)) {
            self.kinds.insert(Kind::Unknown("used inside a macro invocation".into()));
        }
    }
}

fn tokens_mention(t: &proc_macro2::TokenTree, pred: &dyn Fn(&str) -> bool) -> bool {
    match t {
        proc_macro2::TokenTree::Ident(i) => pred(&i.to_string()),
        proc_macro2::TokenTree::Group(g) => g.stream().into_iter().any(|t| tokens_mention(&t, pred)),
        _ => false,
    }
}

/// origins inside one fn: named bindings, temporaries, macro mentions; attribution of identifiers
struct Origins<'a> {
    ctx: &'a FnCtx<'a>,
    named: Vec<(String, &'static str)>,
    temps: Vec<(String, Kind)>,
    attributed: BTreeSet<*const syn::Ident>,
    let_init: Option<*const syn::Expr>,
}
impl<'a> Origins<'a> {
    fn attribute(&mut self, ids: Vec<*const syn::Ident>) {
        self.attributed.extend(ids);
    }
    /// index of the call in the chain that produces a hash collection (`collect::<Hash..>()`), or
    /// `Some(usize::MAX)` when the base itself is a constructor call
    fn producer(&mut self, base: &syn::Expr, calls: &[&syn::ExprMethodCall]) -> Option<usize> {
        let mut at = None;
        for (i, c) in calls.iter().enumerate() {
            if turbofish_mentions(c, &HASH) {
                at = Some(i);
            }
        }
        if let Some(i) = at {
            let mut h = HashIdents::default();
            if let Some(t) = &calls[i].turbofish {
                h.visit_angle_bracketed_generic_arguments(t);
            }
            self.attribute(h.found);
            return Some(i);
        }
        if let Some(p) = hash_ctor(base) {
            self.attribute(hash_idents_path(p));
            return Some(usize::MAX);
        }
        None
    }
}
impl<'ast, 'a> Visit<'ast> for Origins<'a> {
    fn visit_local(&mut self, l: &'ast syn::Local) {
        let annotated = match &l.pat {
            syn::Pat::Type(t) if type_mentions(&t.ty, &HASH) => {
                self.attribute(hash_idents_type(&t.ty));
                true
            }
            _ => false,
        };
        let mut produced = false;
        if let Some(init) = &l.init {
            let (base, calls) = flatten(&init.expr);
            if let Some(i) = self.producer(base, &calls) {
                // the binding holds the collection only when the producer is the last call
                if i == usize::MAX && calls.is_empty() || i != usize::MAX && i + 1 == calls.len() {
                    produced = true;
                    self.let_init = Some(&*init.expr as *const _);
                }
            }
        }
        if annotated || produced {
            match pat_ident(&l.pat) {
                Some(name) => self.named.push((name, "local")),
                None => self.temps.push(("(pattern)".into(), Kind::Unknown("hash collection bound by a pattern".into()))),
            }
        }
        syn::visit::visit_local(self, l);
        self.let_init = None;
    }
    fn visit_expr(&mut self, e: &'ast syn::Expr) {
        let is_let_init = self.let_init == Some(e as *const _);
        match e {
            syn::Expr::MethodCall(_) | syn::Expr::Call(_) | syn::Expr::Try(_) => {
                let (base, calls) = flatten(e);
                if let Some(i) = self.producer(base, &calls) {
                    let rest: &[&syn::ExprMethodCall] = if i == usize::MAX { &calls[..] } else { &calls[i + 1..] };
                    if !rest.is_empty() {
                        let k = classify_chain(rest, None, self.ctx);
                        self.temps.push(("(temporary)".into(), k));
                    } else if !is_let_init {
                        self.temps.push((
                            "(temporary)".into(),
                            Kind::Unknown("hash collection created here escapes (returned, passed on or stored)".into()),
                        ));
                    }
                    // look inside: receiver before the producer, and all arguments
                    let inner_upto = if i == usize::MAX { 0 } else { i + 1 };
                    if i == usize::MAX {
                        if let syn::Expr::Call(c) = peel_paren(base) {
                            for a in &c.args {
                                self.visit_expr(a);
                            }
                        }
                    } else {
                        // everything left of the producer is an ordinary expression
                        if inner_upto >= 1 {
                            self.visit_expr(&calls[i].receiver);
                        }
                    }
                    for c in &calls[if i == usize::MAX { 0 } else { i }..] {
                        for a in &c.args {
                            self.visit_expr(a);
                        }
                    }
                    return;
                }
                syn::visit::visit_expr(self, e);
            }
            _ => syn::visit::visit_expr(self, e),
        }
    }
    fn visit_macro(&mut self, m: &'ast syn::Macro) {
        // token templates of generated code are not typify's own state
        let last = m.path.segments.last().map(|s| s.ident.to_string()).unwrap_or_default();
        let emitted = ["quote", "quote_spanned", "parse_quote", "format_ident"].contains(&last.as_str());
        if !emitted && m.tokens.clone().into_iter().any(|t| tokens_mention(&t, &|s| is_hash_name(s))) {
            self.temps.push(("(macro)".into(), Kind::Unknown(format!("mention inside `{}!`", last))));
        }
    }
}

struct FnInfo<'a> {
    name: String,
    sig: &'a syn::Signature,
    block: &'a syn::Block,
}

/// the fns (free, associated, trait default) of a file outside `#[cfg(test)]`, the struct fields and
/// other items
struct Items<'a> {
    fns: Vec<FnInfo<'a>>,
    fields: Vec<(String, String, &'a syn::Type)>,
    imports: Vec<String>,
    other: Vec<(String, usize)>,
    test_mods: Vec<String>,
    prefix: Vec<String>,
}
impl<'a> Items<'a> {
    fn walk(&mut self, items: &'a [syn::Item]) {
        for it in items {
            match it {
                syn::Item::Mod(m) => {
                    if has_cfg_test(&m.attrs) {
                        if m.content.is_none() {
                            self.test_mods.push(m.ident.to_string());
                        }
                        continue;
                    }
                    if let Some((_, items)) = &m.content {
                        self.prefix.push(m.ident.to_string());
                        self.walk(items);
                        self.prefix.pop();
                    }
                }
                _ if has_cfg_test(item_attrs(it)) => continue,
                syn::Item::Use(u) => {
                    struct N(Vec<String>);
                    impl<'ast> Visit<'ast> for N {
                        fn visit_ident(&mut self, i: &'ast syn::Ident) {
                            if is_hash_name(&i.to_string()) {
                                self.0.push(i.to_string());
                            }
                        }
                    }
                    let mut n = N(Vec::new());
                    n.visit_item_use(u);
                    self.imports.extend(n.0);
                }
                syn::Item::Fn(f) => {
                    self.fns.push(FnInfo { name: self.qual(&f.sig.ident.to_string()), sig: &f.sig, block: &f.block })
                }
                syn::Item::Impl(i) => {
                    let ty = quote::ToTokens::to_token_stream(&i.self_ty).to_string().replace(' ', "");
                    let mut h = HashIdents::default();
                    h.visit_type(&i.self_ty);
                    if let Some((_, p, _)) = &i.trait_ {
                        h.visit_path(p);
                    }
                    if !h.found.is_empty() {
                        self.other.push((format!("impl header {}", ty), h.found.len()));
                    }
                    for ii in &i.items {
                        match ii {
                            syn::ImplItem::Fn(f) if !has_cfg_test(&f.attrs) => self.fns.push(FnInfo {
                                name: self.qual(&format!("{}::{}", ty, f.sig.ident)),
                                sig: &f.sig,
                                block: &f.block,
                            }),
                            syn::ImplItem::Fn(_) => {}
                            other => {
                                let mut h = HashIdents::default();
                                h.visit_impl_item(other);
                                if !h.found.is_empty() {
                                    self.other.push((format!("impl item in {}", ty), h.found.len()));
                                }
                            }
                        }
                    }
                }
                syn::Item::Struct(s) => {
                    for (n, f) in s.fields.iter().enumerate() {
                        if type_mentions(&f.ty, &HASH) {
                            let fname = f.ident.as_ref().map(|i| i.to_string()).unwrap_or(format!("{}", n));
                            self.fields.push((s.ident.to_string(), fname, &f.ty));
                        }
                    }
                    let mut h = HashIdents::default();
                    h.visit_generics(&s.generics);
                    if !h.found.is_empty() {
                        self.other.push((format!("generics of struct {}", s.ident), h.found.len()));
                    }
                }
                syn::Item::Trait(t) => {
                    for ti in &t.items {
                        match ti {
                            syn::TraitItem::Fn(f) if f.default.is_some() => self.fns.push(FnInfo {
                                name: self.qual(&format!("{}::{}", t.ident, f.sig.ident)),
                                sig: &f.sig,
                                block: f.default.as_ref().unwrap(),
                            }),
                            other => {
                                let mut h = HashIdents::default();
                                h.visit_trait_item(other);
                                if !h.found.is_empty() {
                                    self.other.push((format!("trait item in {}", t.ident), h.found.len()));
                                }
                            }
                        }
                    }
                }
                syn::Item::Macro(m) => {
                    if m.mac.tokens.clone().into_iter().any(|t| tokens_mention(&t, &|s| is_hash_name(s))) {
                        self.other.push(("item macro".into(), 1));
                    }
                }
                other => {
                    let mut h = HashIdents::default();
                    h.visit_item(other);
                    if !h.found.is_empty() {
                        self.other.push((item_name(other), h.found.len()));
                    }
                }
            }
        }
    }
    fn qual(&self, n: &str) -> String {
        if self.prefix.is_empty() {
            n.to_string()
        } else {
            format!("{}::{}", self.prefix.join("::"), n)
        }
    }
}
fn item_attrs(it: &syn::Item) -> &[syn::Attribute] {
    match it {
        syn::Item::Const(x) => &x.attrs,
        syn::Item::Enum(x) => &x.attrs,
        syn::Item::Fn(x) => &x.attrs,
        syn::Item::Impl(x) => &x.attrs,
        syn::Item::Macro(x) => &x.attrs,
        syn::Item::Mod(x) => &x.attrs,
        syn::Item::Static(x) => &x.attrs,
        syn::Item::Struct(x) => &x.attrs,
        syn::Item::Trait(x) => &x.attrs,
        syn::Item::Type(x) => &x.attrs,
        syn::Item::Use(x) => &x.attrs,
        _ => &[],
    }
}
fn item_name(it: &syn::Item) -> String {
    match it {
        syn::Item::Const(x) => format!("const {}", x.ident),
        syn::Item::Enum(x) => format!("enum {}", x.ident),
        syn::Item::Static(x) => format!("static {}", x.ident),
        syn::Item::Type(x) => format!("type {}", x.ident),
        _ => "item".into(),
    }
}

/// setters of `TypeSpaceSettings` whose body is `self.<BTreeMap field>.insert(<first param>.to_string(), ..)`
fn btree_setters(repo: &str) -> BTreeSet<String> {
    let mut out = BTreeSet::new();
    let Ok(src) = std::fs::read_to_string(format!("{}/typify-impl/src/lib.rs", repo)) else { return out };
    let Ok(file) = syn::parse_file(&src) else { return out };
    let mut btree_fields = BTreeSet::new();
    for it in &file.items {
        if let syn::Item::Struct(s) = it {
            if s.ident == "TypeSpaceSettings" {
                for f in &s.fields {
                    if let (Some(id), syn::Type::Path(tp)) = (&f.ident, &f.ty) {
                        if tp.path.segments.last().map(|s| s.ident == "BTreeMap").unwrap_or(false) {
                            btree_fields.insert(id.to_string());
                        }
                    }
                }
            }
        }
    }
    for it in &file.items {
        let syn::Item::Impl(i) = it else { continue };
        if i.trait_.is_some() || quote::ToTokens::to_token_stream(&i.self_ty).to_string() != "TypeSpaceSettings" {
            continue;
        }
        for ii in &i.items {
            let syn::ImplItem::Fn(f) = ii else { continue };
            let params: Vec<String> = f
                .sig
                .inputs
                .iter()
                .filter_map(|a| match a {
                    syn::FnArg::Typed(t) => pat_ident(&t.pat),
                    _ => None,
                })
                .collect();
            let Some(p0) = params.first() else { continue };
            // exactly: first statement `self.F.insert(p0.to_string(), ..);` then `self`
            let stmts = &f.block.stmts;
            if stmts.len() != 2 {
                continue;
            }
            let syn::Stmt::Expr(syn::Expr::MethodCall(mc), Some(_)) = &stmts[0] else { continue };
            if mc.method != "insert" {
                continue;
            }
            let syn::Expr::Field(fe) = &*mc.receiver else { continue };
            let syn::Member::Named(fname) = &fe.member else { continue };
            if !is_ident_expr(&fe.base, "self") || !btree_fields.contains(&fname.to_string()) {
                continue;
            }
            let Some(k) = mc.args.first() else { continue };
            let (kb, kc) = flatten(k);
            if is_ident_expr(kb, p0) && kc.len() == 1 && kc[0].method == "to_string" {
                out.insert(f.sig.ident.to_string());
            }
        }
    }
    out
}

fn rs_files(dir: &std::path::Path, out: &mut Vec<std::path::PathBuf>) {
    let Ok(rd) = std::fs::read_dir(dir) else { return };
    let mut ents: Vec<_> = rd.filter_map(|e| e.ok()).map(|e| e.path()).collect();
    ents.sort();
    for p in ents {
        if p.is_dir() {
            rs_files(&p, out);
        } else if p.extension().map(|e| e == "rs").unwrap_or(false) {
            out.push(p);
        }
    }
}

fn find_line(src: &str, func: &str, binding: &str) -> usize {
    let short = func.rsplit("::").next().unwrap_or(func);
    let fn_pat = format!("fn {}", short);
    let lines: Vec<&str> = src.lines().collect();
    let start = lines.iter().position(|l| l.contains(&fn_pat)).unwrap_or(0);
    for (i, l) in lines.iter().enumerate().skip(start) {
        if l.contains(binding) && (l.contains("Hash") || l.contains("let ")) {
            return i + 1;
        }
    }
    start + 1
}

fn analyse_binding(f: &FnInfo, name: &str, ctx: &FnCtx) -> BTreeSet<Kind> {
    let mut u = Uses { name, ctx, kinds: BTreeSet::new(), sorted_next: false };
    u.visit_block(f.block);
    u.kinds
}

fn lean_consumers(kinds: &BTreeSet<Kind>) -> (Vec<&'static str>, String) {
    let mut out: Vec<&'static str> = Vec::new();
    let mut detail = Vec::new();
    let only_insert = kinds.iter().all(|k| *k == Kind::Insert);
    for k in kinds {
        let c = match k {
            Kind::Insert => {
                if only_insert {
                    ".insertAll"
                } else {
                    continue;
                }
            }
            Kind::Len => ".len",
            Kind::Keyed => ".contains",
            Kind::Subset => ".isSubset",
            Kind::IterSorted => ".iterateSorted",
            Kind::KeyedInsert => ".keyedInsert",
            Kind::Iterate(why) => {
                detail.push(why.clone());
                ".iterate"
            }
            Kind::Unknown(why) => {
                detail.push(why.clone());
                ".unknown"
            }
        };
        if !out.contains(&c) {
            out.push(c);
        }
    }
    if out.is_empty() {
        out.push(".unknown");
        detail.push("never consumed".into());
    }
    (out, detail.join("; "))
}

fn preserve_order(repo: &str) -> (bool, Vec<String>) {
    let mut why = Vec::new();
    // (a) the feature name anywhere in a manifest or the lock file
    let mut manifests = vec![format!("{}/Cargo.toml", repo), format!("{}/Cargo.lock", repo)];
    if let Ok(rd) = std::fs::read_dir(repo) {
        for e in rd.filter_map(|e| e.ok()) {
            let p = e.path().join("Cargo.toml");
            if p.exists() {
                manifests.push(p.to_string_lossy().to_string());
            }
        }
    }
    manifests.sort();
    manifests.dedup();
    for m in &manifests {
        if let Ok(s) = std::fs::read_to_string(m) {
            if s.contains("preserve_order") {
                why.push(format!("{} mentions preserve_order", m));
            }
        }
    }
    // (b) serde_json / schemars would depend on indexmap with that feature
    match std::fs::read_to_string(format!("{}/Cargo.lock", repo)) {
        Err(_) => why.push("Cargo.lock not readable".into()),
        Ok(lock) => {
            let mut seen = 0;
            for block in lock.split("[[package]]") {
                let name = block.lines().find_map(|l| l.trim().strip_prefix("name = "));
                if let Some(n) = name {
                    let n = n.trim_matches('"');
                    if n == "serde_json" || n == "schemars" {
                        seen += 1;
                        if block.lines().any(|l| l.trim().trim_matches(|c| c == '"' || c == ',').starts_with("indexmap")) {
                            why.push(format!("{} depends on indexmap in Cargo.lock", n));
                        }
                    }
                }
            }
            if seen < 2 {
                why.push("serde_json/schemars not found in Cargo.lock".into());
            }
        }
    }
    (!why.is_empty(), why)
}

/// returns `Err(description)` when some site could not be classified (the table is written anyway)
pub fn run(repo: &str, outdir: &str) -> Result<(), String> {
    let setters = btree_setters(repo);
    let mut sites: Vec<Site> = Vec::new();
    let mut imports: Vec<(String, String)> = Vec::new();
    let mut nfiles = 0;
    let mut problems: Vec<String> = Vec::new();
    for krate in CRATES {
        let root = format!("{}/{}/src", repo, krate);
        let mut files = Vec::new();
        rs_files(std::path::Path::new(&root), &mut files);
        if files.is_empty() {
            problems.push(format!("no source files under {}", root));
            continue;
        }
        // parse everything first: test-only modules are declared in their parent file
        let mut parsed: Vec<(String, String, syn::File)> = Vec::new();
        for p in &files {
            let rel = p.strip_prefix(repo).unwrap_or(p).to_string_lossy().trim_start_matches('/').to_string();
            let src = match std::fs::read_to_string(p) {
                Ok(s) => s,
                Err(e) => {
                    problems.push(format!("{}: {}", rel, e));
                    continue;
                }
            };
            match syn::parse_file(&src) {
                Ok(f) => parsed.push((rel, src, f)),
                Err(e) => problems.push(format!("{} does not parse: {}", rel, e)),
            }
        }
        let mut test_mods = BTreeSet::new();
        for (_, _, f) in &parsed {
            let mut it = Items { fns: vec![], fields: vec![], imports: vec![], other: vec![], test_mods: vec![], prefix: vec![] };
            it.walk(&f.items);
            test_mods.extend(it.test_mods);
        }
        // struct fields of hash type, to be resolved against the fns of the whole crate
        let mut field_origins: Vec<(String, String, String)> = Vec::new();
        let mut field_attr: BTreeMap<(String, String), BTreeSet<Kind>> = BTreeMap::new();
        let mut all_items: Vec<(&String, &String, Items)> = Vec::new();
        for (rel, src, f) in &parsed {
            let stem = std::path::Path::new(rel).file_stem().unwrap().to_string_lossy().to_string();
            let parent = std::path::Path::new(rel).parent().and_then(|p| p.file_name()).map(|s| s.to_string_lossy().to_string());
            if test_mods.contains(&stem) || (stem == "mod" && parent.map(|p| test_mods.contains(&p)).unwrap_or(false)) {
                continue;
            }
            nfiles += 1;
            let mut it = Items { fns: vec![], fields: vec![], imports: vec![], other: vec![], test_mods: vec![], prefix: vec![] };
            it.walk(&f.items);
            all_items.push((rel, src, it));
        }
        for (rel, _, it) in &all_items {
            for n in &it.imports {
                imports.push(((*rel).clone(), n.clone()));
            }
            for (what, n) in &it.other {
                let mut kinds = BTreeSet::new();
                kinds.insert(Kind::Unknown(format!("{} mention(s) outside any fn body or struct field", n)));
                sites.push(Site { file: (*rel).clone(), func: what.clone(), binding: "(item)".into(), origin: "item", kinds, line: 0 });
            }
            for (s, fld, _) in &it.fields {
                field_origins.push(((*rel).clone(), s.clone(), fld.clone()));
            }
        }
        for (rel, src, it) in &all_items {
            for f in &it.fns {
                let ctx = FnCtx { setters: &setters };
                // all identifiers of the fn (signature and body)
                let mut all = HashIdents::default();
                all.visit_signature(f.sig);
                all.visit_block(f.block);
                let mut o = Origins { ctx: &ctx, named: vec![], temps: vec![], attributed: BTreeSet::new(), let_init: None };
                for a in &f.sig.inputs {
                    if let syn::FnArg::Typed(t) = a {
                        if type_mentions(&t.ty, &HASH) {
                            o.attribute(hash_idents_type(&t.ty));
                            match pat_ident(&t.pat) {
                                Some(n) => o.named.push((n, "param")),
                                None => o.temps.push(("(param pattern)".into(), Kind::Unknown("parameter bound by a pattern".into()))),
                            }
                        }
                    }
                }
                o.visit_block(f.block);
                let unattributed = all.found.iter().filter(|p| !o.attributed.contains(*p)).count();
                for (name, origin) in &o.named {
                    let kinds = analyse_binding(f, name, &ctx);
                    sites.push(Site { file: (*rel).clone(), func: f.name.clone(), binding: name.clone(), origin, kinds, line: find_line(src, &f.name, name) });
                }
                for (name, k) in &o.temps {
                    let mut kinds = BTreeSet::new();
                    kinds.insert(k.clone());
                    sites.push(Site { file: (*rel).clone(), func: f.name.clone(), binding: name.clone(), origin: "temp", kinds, line: find_line(src, &f.name, "Hash") });
                }
                if unattributed > 0 {
                    let mut kinds = BTreeSet::new();
                    kinds.insert(Kind::Unknown(format!("{} mention(s) in signature or body not attributed to a binding", unattributed)));
                    sites.push(Site { file: (*rel).clone(), func: f.name.clone(), binding: "(mention)".into(), origin: "mention", kinds, line: find_line(src, &f.name, "Hash") });
                }
                // struct fields of hash type destructured or accessed here
                for (_, s, fld) in &field_origins {
                    struct FieldUse<'b> {
                        s: &'b str,
                        fld: &'b str,
                        bound: Vec<String>,
                        dotted: bool,
                    }
                    impl<'ast, 'b> Visit<'ast> for FieldUse<'b> {
                        fn visit_pat_struct(&mut self, p: &'ast syn::PatStruct) {
                            if p.path.segments.last().map(|x| x.ident == self.s).unwrap_or(false) {
                                for fp in &p.fields {
                                    if let syn::Member::Named(n) = &fp.member {
                                        if n == self.fld {
                                            match pat_ident(&fp.pat) {
                                                Some(b) => self.bound.push(b),
                                                None => self.dotted = true,
                                            }
                                        }
                                    }
                                }
                            }
                            syn::visit::visit_pat_struct(self, p);
                        }
                        fn visit_expr_field(&mut self, e: &'ast syn::ExprField) {
                            if let syn::Member::Named(n) = &e.member {
                                if n == self.fld {
                                    self.dotted = true;
                                }
                            }
                            syn::visit::visit_expr_field(self, e);
                        }
                    }
                    let mut fu = FieldUse { s, fld, bound: vec![], dotted: false };
                    fu.visit_block(f.block);
                    let entry = field_attr.entry((s.clone(), fld.clone())).or_default();
                    for b in fu.bound {
                        let kinds = analyse_binding(f, &b, &ctx);
                        if kinds.is_empty() {
                            entry.insert(Kind::Unknown(format!("bound in {} but never consumed", f.name)));
                        }
                        entry.extend(kinds);
                    }
                    if fu.dotted {
                        entry.insert(Kind::Unknown(format!("accessed as a field `.{}` in {}", fld, f.name)));
                    }
                }
            }
        }
        for (rel, s, fld) in &field_origins {
            let kinds = field_attr.get(&(s.clone(), fld.clone())).cloned().unwrap_or_default();
            let src = &all_items.iter().find(|(r, _, _)| *r == rel).unwrap().1;
            let line = src.lines().position(|l| l.contains(&format!("{}:", fld)) && l.contains("Hash")).map(|i| i + 1).unwrap_or(0);
            sites.push(Site { file: rel.clone(), func: format!("struct {}", s), binding: fld.clone(), origin: "field", kinds, line });
        }
    }
    sites.sort_by(|a, b| (&a.file, a.line, &a.func, &a.binding).cmp(&(&b.file, b.line, &b.func, &b.binding)));
    imports.sort();
    let (po, po_why) = preserve_order(repo);

    let mut out = String::new();
    out.push_str("-- GENERATED by /verif/harness/src/t5_hash_sites.rs (via extract) from /repo source. Do not edit.\n");
    out.push_str("import TypifyModel.Model.Determinism\n\nnamespace TypifyModel.Generated\nopen TypifyModel.Determinism\n\n");
    writeln!(out, "/-- T5: non-test source files scanned (typify-impl, typify-macro, cargo-typify, typify) -/").unwrap();
    writeln!(out, "def hashFilesScanned : Nat := {}\n", nfiles).unwrap();
    writeln!(out, "/-- T5: `TypeSpaceSettings` setters recognised as `self.<BTreeMap>.insert(<param0>.to_string(), ..)` -/").unwrap();
    writeln!(out, "def btreeSetters : List String := [{}]\n", setters.iter().map(|s| format!("{:?}", s)).collect::<Vec<_>>().join(", ")).unwrap();
    writeln!(out, "/-- T5: `use` declarations naming a hash collection (file, name) -/").unwrap();
    writeln!(out, "def hashImports : List (String × String) := [{}]\n", imports.iter().map(|(f, n)| format!("({:?}, {:?})", f, n)).collect::<Vec<_>>().join(", ")).unwrap();
    writeln!(out, "/-- T5: every value of type `HashMap`/`HashSet` in typify's own code and how it is consumed -/").unwrap();
    writeln!(out, "def hashSites : List HashSite := [").unwrap();
    let mut bad = Vec::new();
    for (i, s) in sites.iter().enumerate() {
        let (cons, detail) = lean_consumers(&s.kinds);
        if cons.contains(&".unknown") {
            bad.push(format!("{}:{} {} `{}`: {}", s.file, s.line, s.func, s.binding, detail));
        }
        writeln!(
            out,
            "  ⟨{:?}, {:?}, {:?}, {:?}, [{}], {:?}⟩{}",
            format!("{}:{}", s.file, s.line),
            s.func,
            s.binding,
            s.origin,
            cons.join(", "),
            detail,
            if i + 1 < sites.len() { "," } else { "" }
        )
        .unwrap();
    }
    writeln!(out, "]\n").unwrap();
    writeln!(out, "/-- does `preserve_order` (serde_json / schemars on indexmap) appear in a manifest or the lock file? -/").unwrap();
    writeln!(out, "def preserveOrder : Bool := {}", po).unwrap();
    writeln!(out, "def preserveOrderEvidence : List String := [{}]\n", po_why.iter().map(|s| format!("{:?}", s)).collect::<Vec<_>>().join(", ")).unwrap();
    out.push_str("end TypifyModel.Generated\n");
    std::fs::create_dir_all(outdir).map_err(|e| e.to_string())?;
    let path = format!("{}/HashSites.lean", outdir);
    if std::fs::read_to_string(&path).ok().as_deref() != Some(out.as_str()) {
        std::fs::write(&path, out).map_err(|e| e.to_string())?;
    }
    problems.extend(bad.into_iter().map(|b| format!("T5 cannot classify {}", b)));
    if problems.is_empty() {
        Ok(())
    } else {
        Err(problems.join(" | "))
    }
}

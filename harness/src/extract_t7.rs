//! Table T7 of the translator (included by src/bin/extract.rs): the front-end facts property C15
//! is proved over, regenerated from /repo's current source into `Generated/Frontends.lean`:
//!  * the character predicate of the two `is_crate` functions
//!    (cargo-typify/src/lib.rs, typify-macro/src/lib.rs), as Lean definitions;
//!  * the collection kind of every map-like `MacroSettings` field (decides iteration order);
//!  * the collection kind and default members of the impl set in
//!    typify-macro/src/token_utils.rs `into_name_and_impls`.
//! Any unknown shape -> `fail` (exit non-zero): the tie is broken.
use super::fail;
use std::fmt::Write as _;
use syn::visit::Visit;

struct ItemFnFinder<'a> {
    name: &'a str,
    found: Vec<syn::ItemFn>,
}
impl<'ast, 'a> Visit<'ast> for ItemFnFinder<'a> {
    fn visit_item_fn(&mut self, f: &'ast syn::ItemFn) {
        if f.sig.ident == self.name {
            self.found.push(f.clone());
        }
        syn::visit::visit_item_fn(self, f);
    }
}

fn is_param(e: &syn::Expr, param: &str) -> bool {
    matches!(e, syn::Expr::Path(p) if p.path.is_ident(param))
}

/// one conjunct of the closure body: `!cc.method()` or `cc != 'x'`; returns the Lean disjunct
fn atom(e: &syn::Expr, param: &str) -> String {
    match e {
        syn::Expr::Paren(p) => atom(&p.expr, param),
        syn::Expr::Unary(u) if matches!(u.op, syn::UnOp::Not(_)) => {
            let syn::Expr::MethodCall(mc) = &*u.expr else { fail("is_crate: `!cc.method()` expected") };
            if !is_param(&mc.receiver, param) || !mc.args.is_empty() {
                fail("is_crate: method call on the closure parameter expected");
            }
            match mc.method.to_string().as_str() {
                "is_alphabetic" => "cs.isAlphabetic c".to_string(),
                "is_numeric" => "cs.isNumeric c".to_string(),
                "is_alphanumeric" => "cs.isAlphanumeric c".to_string(),
                "is_ascii_alphabetic" => "c.isAlpha".to_string(),
                "is_ascii_digit" => "c.isDigit".to_string(),
                "is_ascii_alphanumeric" => "c.isAlphanum".to_string(),
                _ => fail("is_crate: unknown char predicate method"),
            }
        }
        syn::Expr::Binary(b) if matches!(b.op, syn::BinOp::Ne(_)) => {
            if !is_param(&b.left, param) {
                fail("is_crate: `cc != 'x'` expected");
            }
            let syn::Expr::Lit(syn::ExprLit { lit: syn::Lit::Char(ch), .. }) = &*b.right else {
                fail("is_crate: char literal expected")
            };
            let v = ch.value();
            if !(v.is_ascii_graphic()) || v == '\'' || v == '\\' {
                fail("is_crate: plain ASCII char literal expected");
            }
            format!("c == '{}'", v)
        }
        _ => fail("is_crate: unknown conjunct in the closure body"),
    }
}

fn conjuncts<'e>(e: &'e syn::Expr, out: &mut Vec<&'e syn::Expr>) {
    match e {
        syn::Expr::Binary(b) if matches!(b.op, syn::BinOp::And(_)) => {
            conjuncts(&b.left, out);
            conjuncts(&b.right, out);
        }
        syn::Expr::Paren(p) => conjuncts(&p.expr, out),
        _ => out.push(e),
    }
}

/// `!s.contains(|cc: char| A1 && A2 && ..)`  ->  the Lean disjunction of the negated conjuncts
fn not_contains(e: &syn::Expr, sparam: &str) -> Option<String> {
    let syn::Expr::Unary(u) = e else { return None };
    if !matches!(u.op, syn::UnOp::Not(_)) {
        return None;
    }
    let syn::Expr::MethodCall(mc) = &*u.expr else { return None };
    if mc.method != "contains" || !is_param(&mc.receiver, sparam) || mc.args.len() != 1 {
        return None;
    }
    let syn::Expr::Closure(cl) = &mc.args[0] else { return None };
    if cl.inputs.len() != 1 {
        return None;
    }
    let pat = match &cl.inputs[0] {
        syn::Pat::Type(t) => &*t.pat,
        p => p,
    };
    let syn::Pat::Ident(id) = pat else { return None };
    let param = id.ident.to_string();
    let mut cs = Vec::new();
    conjuncts(&cl.body, &mut cs);
    let parts: Vec<String> = cs.iter().map(|c| atom(c, &param)).collect();
    Some(parts.join(" || "))
}

fn is_not_empty(e: &syn::Expr, sparam: &str) -> bool {
    let syn::Expr::Unary(u) = e else { return false };
    if !matches!(u.op, syn::UnOp::Not(_)) {
        return false;
    }
    let syn::Expr::MethodCall(mc) = &*u.expr else { return false };
    mc.method == "is_empty" && is_param(&mc.receiver, sparam) && mc.args.is_empty()
}

fn is_crate_defs(path: &str, prefix: &str, out: &mut String) {
    let src = std::fs::read_to_string(path).unwrap_or_else(|_| fail("is_crate: source file"));
    let file = syn::parse_file(&src).unwrap_or_else(|_| fail("is_crate: source does not parse"));
    let mut ff = ItemFnFinder { name: "is_crate", found: vec![] };
    ff.visit_file(&file);
    if ff.found.len() != 1 {
        fail("exactly one fn is_crate per front-end");
    }
    let f = &ff.found[0];
    if f.sig.inputs.len() != 1 {
        fail("is_crate: one parameter");
    }
    let syn::FnArg::Typed(pt) = &f.sig.inputs[0] else { fail("is_crate: typed parameter") };
    let syn::Pat::Ident(pid) = &*pt.pat else { fail("is_crate: ident parameter") };
    let sparam = pid.ident.to_string();
    if f.block.stmts.len() != 1 {
        fail("is_crate: single-expression body");
    }
    let syn::Stmt::Expr(body, None) = &f.block.stmts[0] else { fail("is_crate: tail expression") };
    let mut cs = Vec::new();
    conjuncts(body, &mut cs);
    let (nonempty, pred) = match cs.len() {
        1 => (false, not_contains(cs[0], &sparam)),
        2 if is_not_empty(cs[0], &sparam) => (true, not_contains(cs[1], &sparam)),
        _ => (false, None),
    };
    let Some(pred) = pred else { fail("is_crate: body `!s.contains(|c| ..)` (optionally `!s.is_empty() && ..`)") };
    writeln!(out, "/-- T7: `is_crate` character predicate of {} -/", path.trim_start_matches("/repo/")).unwrap();
    writeln!(out, "def {}IsCrateChar (cs : CharSem) (c : Char) : Bool := {}", prefix, pred).unwrap();
    writeln!(
        out,
        "def {}IsCrate (cs : CharSem) (s : List Char) : Bool := {}s.all ({}IsCrateChar cs)\n",
        prefix,
        if nonempty { "!s.isEmpty && " } else { "" },
        prefix
    )
    .unwrap();
}

fn coll_of_type(t: &syn::Type) -> &'static str {
    let syn::Type::Path(tp) = t else { fail("MacroSettings: path type expected") };
    match tp.path.segments.last().map(|s| s.ident.to_string()).as_deref() {
        Some("HashMap") | Some("HashSet") => ".hash",
        Some("BTreeMap") | Some("BTreeSet") => ".btree",
        Some("OrderedMap") | Some("Vec") => ".ordered",
        _ => fail("MacroSettings: unknown collection type"),
    }
}

fn macro_collections(repo: &str, out: &mut String) {
    let path = format!("{}/typify-macro/src/lib.rs", repo);
    let src = std::fs::read_to_string(&path).unwrap_or_else(|_| fail("typify-macro/src/lib.rs"));
    let file = syn::parse_file(&src).unwrap_or_else(|_| fail("typify-macro/src/lib.rs does not parse"));
    let st = file
        .items
        .iter()
        .find_map(|i| match i {
            syn::Item::Struct(s) if s.ident == "MacroSettings" => Some(s),
            _ => None,
        })
        .unwrap_or_else(|| fail("struct MacroSettings"));
    writeln!(out, "/-- T7: collection kinds of the `MacroSettings` fields (typify-macro/src/lib.rs) -/").unwrap();
    for (field, lean) in [
        ("derives", "macroDerivesColl"),
        ("crates", "macroCratesColl"),
        ("patch", "macroPatchColl"),
        ("replace", "macroReplaceColl"),
        ("convert", "macroConvertColl"),
    ] {
        let f = st
            .fields
            .iter()
            .find(|f| f.ident.as_ref().map(|i| i == field).unwrap_or(false))
            .unwrap_or_else(|| fail("MacroSettings field"));
        writeln!(out, "def {} : Coll := {}", lean, coll_of_type(&f.ty)).unwrap();
    }
    // the impl set of a replacement / conversion
    let path = format!("{}/typify-macro/src/token_utils.rs", repo);
    let src = std::fs::read_to_string(&path).unwrap_or_else(|_| fail("typify-macro/src/token_utils.rs"));
    let file = syn::parse_file(&src).unwrap_or_else(|_| fail("token_utils.rs does not parse"));
    let mut ff = super::FnFinder { name: "into_name_and_impls", found: None };
    ff.visit_file(&file);
    let Some(f) = ff.found else { fail("fn into_name_and_impls") };
    let mut lf = super::LocalFinder { name: "impls", found: None };
    lf.visit_impl_item_fn(&f);
    let Some(syn::Expr::MethodCall(mc)) = lf.found else { fail("let mut impls = ..collect::<..>()") };
    if mc.method != "collect" {
        fail("impls = ...collect::<Set<_>>()");
    }
    let Some(tf) = &mc.turbofish else { fail("collect turbofish") };
    let Some(syn::GenericArgument::Type(t)) = tf.args.first() else { fail("collect::<T>") };
    writeln!(out, "def macroImplsColl : Coll := {}", coll_of_type(t)).unwrap();
    // const DEFAULT_IMPLS: [TypeSpaceImpl; 2] = [TypeSpaceImpl::FromStr, TypeSpaceImpl::Display];
    struct ConstFinder(Option<syn::Expr>);
    impl<'ast> Visit<'ast> for ConstFinder {
        fn visit_item_const(&mut self, c: &'ast syn::ItemConst) {
            if c.ident == "DEFAULT_IMPLS" {
                self.0 = Some((*c.expr).clone());
            }
        }
    }
    let mut cf = ConstFinder(None);
    cf.visit_impl_item_fn(&f);
    let Some(syn::Expr::Array(arr)) = cf.0 else { fail("const DEFAULT_IMPLS = [..]") };
    let names: Vec<String> = arr
        .elems
        .iter()
        .map(|e| {
            let syn::Expr::Path(p) = e else { fail("DEFAULT_IMPLS element path") };
            match p.path.segments.last().map(|s| s.ident.to_string()).as_deref() {
                Some("FromStr") => ".fromStr".to_string(),
                Some("Display") => ".display".to_string(),
                Some("Default") => ".default".to_string(),
                _ => fail("DEFAULT_IMPLS: unknown TypeSpaceImpl"),
            }
        })
        .collect();
    writeln!(out, "def macroDefaultImpls : List Impl := [{}]\n", names.join(", ")).unwrap();
}

pub fn t7_frontends(repo: &str, outdir: &str) {
    let mut out = String::new();
    out.push_str("-- GENERATED by /verif/harness/src/bin/extract.rs (extract_t7.rs) from /repo source. Do not edit.\n");
    out.push_str("import TypifyModel.Model.FrontendsBase\n\nnamespace TypifyModel.Generated\nopen TypifyModel.Frontends\n\n");
    is_crate_defs(&format!("{}/cargo-typify/src/lib.rs", repo), "cli", &mut out);
    is_crate_defs(&format!("{}/typify-macro/src/lib.rs", repo), "macro", &mut out);
    macro_collections(repo, &mut out);
    out.push_str("end TypifyModel.Generated\n");
    std::fs::create_dir_all(outdir).unwrap();
    let path = format!("{}/Frontends.lean", outdir);
    if std::fs::read_to_string(&path).ok().as_deref() != Some(out.as_str()) {
        std::fs::write(&path, out).unwrap();
    }
}

//! C09: `allOf` means intersection. Requests are JSON objects, one per line:
//!
//! `{"schemas":[S1,..,Sn], "defs":{name: schema, ..}}` — the REAL `merge_all` (merge.rs:18) through the
//! hook `typify_impl::verif::verif_merge_all`, with `defs` as the definitions map the converter would
//! hand it (`RefKey::Def(name)`).
//!
//! Answer: the merged schema as canonical JSON (object keys sorted, no whitespace) | `never`
//! (`Schema::Bool(false)`, merge.rs' "unsatisfiable") | `panic` (an `unimplemented!`/`todo!`/`assert!`
//! inside merge.rs) | `badrequest`.
use schemars::schema::Schema;
use serde_json::Value;

fn canon(v: &Value) -> Value {
    match v {
        Value::Object(m) => {
            let mut keys: Vec<&String> = m.keys().collect();
            keys.sort();
            let mut out = serde_json::Map::new();
            for k in keys {
                out.insert(k.clone(), canon(&m[k]));
            }
            Value::Object(out)
        }
        Value::Array(a) => Value::Array(a.iter().map(canon).collect()),
        o => o.clone(),
    }
}

fn handle(line: &str) -> String {
    let req: Value = match serde_json::from_str(line) {
        Ok(v) => v,
        Err(_) => return "badrequest".to_string(),
    };
    let Some(list) = req.get("schemas").and_then(|s| s.as_array()) else {
        return "badrequest".to_string();
    };
    let mut schemas = Vec::new();
    for s in list {
        match serde_json::from_value::<Schema>(s.clone()) {
            Ok(s) => schemas.push(s),
            Err(_) => return "badrequest".to_string(),
        }
    }
    let mut defs = Vec::new();
    if let Some(d) = req.get("defs").and_then(|d| d.as_object()) {
        for (k, v) in d {
            match serde_json::from_value::<Schema>(v.clone()) {
                Ok(s) => defs.push((k.clone(), s)),
                Err(_) => return "badrequest".to_string(),
            }
        }
    }
    if schemas.is_empty() {
        return "badrequest".to_string();
    }
    let merged = typify_impl::verif::verif_merge_all(&schemas, &defs);
    match merged {
        Schema::Bool(false) => "never".to_string(),
        other => serde_json::to_string(&canon(&serde_json::to_value(&other).unwrap())).unwrap(),
    }
}

fn main() {
    tvh::run_lines(handle)
}

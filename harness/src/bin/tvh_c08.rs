//! C08: names -> identifiers and wire names. Requests (`<kind> <json>`), answered by the real code:
//!   snake "<s>" / pascal "<s>"      heck 0.5 directly                      -> ok "<out>"
//!   sanitize <snake|pascal> "<s>"   util.rs sanitize (hook)                -> ok "<out>"
//!   recase <snake|pascal> "<s>"     util.rs recase (hook)                  -> ok ["<id>", "<rename>"|null]
//!   isident "<s>"                   syn::parse_str::<syn::Ident>, text is exactly that one non-raw token -> ok true|false
//!   xpass "<s>"                     the replacement of the second variant-naming pass (unicode-ident directly) -> ok "<out>"
//!   variants ["v", ...]             TypeSpace::add_type of {title:T,type:string,enum:[...]}; the emitted `enum T`
//!                                   (to_stream parsed by syn) -> ok [["Ident","serde rename"|null], ...] | err <kind> | panic
//!   props ["p", ...]                add_type of {title:T,type:object,properties:{p:{type:string}...}}; the emitted
//!                                   `struct T` -> ok [["field","serde rename"|null], ...]
//!   propsx ["p", ...]              the same with additionalProperties:{type:integer}: the flattened map field is
//!                                   reported as ["extra", {"flatten":true}]
//!   sweep [lo, hi]                  every char c in the code point range, as the names c, "a"+c, c+"a", "A"+c+"b": sanitize in
//!                                   both cases must be accepted by syn, recase's rename must be present iff ident != name
//!                                   (implementation-only exploration of the non-ASCII domain) -> ok {"checked":n,"bad":[...]}
//!   defs ["k", ...]                 add_ref_types of {k:{type:string}...}; names of the emitted items for the keys,
//!                                   in input order (IR dump) + the set of emitted item names -> ok [["k's type name", ...], n_items_with_those_names]
use heck::{ToPascalCase, ToSnakeCase};
use schemars::schema::Schema;
use serde_json::{json, Value};
use typify_impl::TypeSpace;

fn serde_rename(attrs: &[syn::Attribute]) -> Result<Value, String> {
    let mut found = Value::Null;
    for a in attrs {
        if !a.path().is_ident("serde") {
            continue;
        }
        a.parse_nested_meta(|meta| {
            if meta.path.is_ident("flatten") {
                found = json!({"flatten": true});
            } else if meta.path.is_ident("rename") {
                let v: syn::LitStr = meta.value()?.parse()?;
                found = json!(v.value());
            } else if meta.input.peek(syn::Token![=]) {
                let _: syn::Expr = meta.value()?.parse()?;
            }
            Ok(())
        })
        .map_err(|e| format!("serde attr: {}", e))?;
    }
    Ok(found)
}

fn emitted_file(ts: &TypeSpace) -> Result<syn::File, String> {
    syn::parse2::<syn::File>(ts.to_stream()).map_err(|e| format!("emitted code does not parse: {}", e))
}

fn variants(list: &[String]) -> String {
    let schema: Schema =
        serde_json::from_value(json!({"title": "T", "type": "string", "enum": list})).unwrap();
    let mut ts = TypeSpace::default();
    if let Err(e) = ts.add_type(&schema) {
        return format!("err {}", tvh::err_kind(&e));
    }
    let file = match emitted_file(&ts) {
        Ok(f) => f,
        Err(e) => return format!("bad {}", json!(e)),
    };
    for item in &file.items {
        if let syn::Item::Enum(e) = item {
            if e.ident == "T" {
                let mut out = Vec::new();
                for v in &e.variants {
                    match serde_rename(&v.attrs) {
                        Ok(r) => out.push(json!([v.ident.to_string(), r])),
                        Err(e) => return format!("bad {}", json!(e)),
                    }
                }
                return format!("ok {}", Value::Array(out));
            }
        }
    }
    "bad \"enum T not emitted\"".to_string()
}

fn props(list: &[String], extra: bool) -> String {
    let mut m = serde_json::Map::new();
    for p in list {
        m.insert(p.clone(), json!({"type": "string"}));
    }
    let mut schema = json!({"title": "T", "type": "object", "properties": m});
    if extra {
        schema["additionalProperties"] = json!({"type": "integer"});
    }
    let schema: Schema = serde_json::from_value(schema).unwrap();
    let mut ts = TypeSpace::default();
    if let Err(e) = ts.add_type(&schema) {
        return format!("err {}", tvh::err_kind(&e));
    }
    let file = match emitted_file(&ts) {
        Ok(f) => f,
        Err(e) => return format!("bad {}", json!(e)),
    };
    for item in &file.items {
        if let syn::Item::Struct(s) = item {
            if s.ident == "T" {
                let mut out = Vec::new();
                for f in &s.fields {
                    match serde_rename(&f.attrs) {
                        Ok(r) => out.push(json!([f.ident.as_ref().unwrap().to_string(), r])),
                        Err(e) => return format!("bad {}", json!(e)),
                    }
                }
                return format!("ok {}", Value::Array(out));
            }
        }
    }
    "bad \"struct T not emitted\"".to_string()
}

fn item_name(item: &syn::Item) -> Option<String> {
    match item {
        syn::Item::Struct(s) => Some(s.ident.to_string()),
        syn::Item::Enum(s) => Some(s.ident.to_string()),
        syn::Item::Type(s) => Some(s.ident.to_string()),
        _ => None,
    }
}

fn defs(list: &[String]) -> String {
    let schema: Schema = serde_json::from_value(json!({"type": "string"})).unwrap();
    let mut ts = TypeSpace::default();
    if let Err(e) = ts.add_ref_types(list.iter().map(|k| (k.clone(), schema.clone()))) {
        return format!("err {}", tvh::err_kind(&e));
    }
    let dump = ts.verif_dump();
    let mut names = Vec::new();
    for k in list {
        let id = &dump["ref_to_id"][format!("def:{}", k)];
        let name = &dump["entries"][id.as_u64().unwrap().to_string()]["name"];
        names.push(name.clone());
    }
    // how many type items with one of those names are actually emitted
    let file = match emitted_file(&ts) {
        Ok(f) => f,
        Err(e) => return format!("bad {}", json!(e)),
    };
    let n = file
        .items
        .iter()
        .filter_map(item_name)
        .filter(|n| names.iter().any(|x| x.as_str() == Some(n.as_str())))
        .count();
    format!("ok {}", json!([names, n]))
}

/// definitions with the given names and `T = oneOf[$ref each]`: the variant identifiers of the untagged enum `T` come from the
/// definition names (`untagged_enum`: schema_is_named, common prefix cut off), not from anything on the wire
fn refunion(list: &[String]) -> String {
    let mut defs: Vec<(String, Schema)> = Vec::new();
    for (i, k) in list.iter().enumerate() {
        let s = json!({"type": "object", "properties": {format!("v{}", i): {"type": "string"}}, "required": [format!("v{}", i)]});
        defs.push((k.clone(), serde_json::from_value(s).unwrap()));
    }
    let refs = list
        .iter()
        .map(|k| json!({"$ref": format!("#/definitions/{}", k)}))
        .collect::<Vec<_>>();
    defs.push(("T".to_string(), serde_json::from_value(json!({"oneOf": refs})).unwrap()));
    let mut ts = TypeSpace::default();
    if let Err(e) = ts.add_ref_types(defs) {
        return format!("err {}", tvh::err_kind(&e));
    }
    let file = match emitted_file(&ts) {
        Ok(f) => f,
        Err(e) => return format!("bad {}", json!(e)),
    };
    for item in &file.items {
        if let syn::Item::Enum(e) = item {
            if e.ident == "T" {
                let out = e.variants.iter().map(|v| json!(v.ident.to_string())).collect::<Vec<_>>();
                return format!("ok {}", Value::Array(out));
            }
        }
    }
    "bad \"enum T not emitted\"".to_string()
}

fn isident(s: &str) -> bool {
    match syn::parse_str::<syn::Ident>(s) {
        Ok(id) => id.to_string() == s && !s.starts_with("r#"),
        Err(_) => false,
    }
}

fn sweep(lo: u32, hi: u32) -> String {
    let mut checked = 0u64;
    let mut bad = Vec::new();
    for cp in lo..hi {
        let Some(c) = char::from_u32(cp) else { continue };
        for name in [format!("{}", c), format!("a{}", c), format!("{}a", c), format!("A{}b", c)] {
            for pascal in [false, true] {
                checked += 1;
                let (id, rn) = typify_impl::verif::verif_recase(&name, pascal);
                let wire_ok = match &rn {
                    None => id == name,
                    Some(r) => r == &name && id != name,
                };
                if !(isident(&id) && wire_ok) && bad.len() < 20 {
                    bad.push(json!({"name": name, "pascal": pascal, "ident": id, "rename": rn}));
                }
            }
        }
    }
    format!("ok {}", json!({"checked": checked, "bad": bad}))
}

fn handle(line: &str) -> String {
    let (kind, rest) = match line.split_once(' ') {
        Some(x) => x,
        None => return "unsupported".to_string(),
    };
    let (case, rest) = if kind == "sanitize" || kind == "recase" {
        match rest.split_once(' ') {
            Some((c, r)) if c == "snake" || c == "pascal" => (c == "pascal", r),
            _ => return "unsupported".to_string(),
        }
    } else {
        (false, rest)
    };
    let arg: Value = match serde_json::from_str(rest) {
        Ok(v) => v,
        Err(_) => return "unsupported".to_string(),
    };
    let list = || -> Option<Vec<String>> {
        arg.as_array()?.iter().map(|v| v.as_str().map(str::to_string)).collect()
    };
    match kind {
        "snake" => arg.as_str().map(|s| format!("ok {}", json!(s.to_snake_case()))),
        "pascal" => arg.as_str().map(|s| format!("ok {}", json!(s.to_pascal_case()))),
        "sanitize" => arg
            .as_str()
            .map(|s| format!("ok {}", json!(typify_impl::verif::verif_sanitize(s, case)))),
        "recase" => arg.as_str().map(|s| {
            let (id, rn) = typify_impl::verif::verif_recase(s, case);
            format!("ok {}", json!([id, rn]))
        }),
        "isident" => arg.as_str().map(|s| format!("ok {}", isident(s))),
        "xpass" => arg.as_str().map(|s| {
            let r = s.replace(|c| c == '_' || !unicode_ident::is_xid_continue(c), "X");
            format!("ok {}", json!(r))
        }),
        "sweep" => arg.as_array().and_then(|a| {
            Some(sweep(a.first()?.as_u64()? as u32, a.get(1)?.as_u64()? as u32))
        }),
        "variants" => list().map(|l| variants(&l)),
        "props" => list().map(|l| props(&l, false)),
        "propsx" => list().map(|l| props(&l, true)),
        "defs" => list().map(|l| defs(&l)),
        "refunion" => list().map(|l| refunion(&l)),
        _ => None,
    }
    .unwrap_or_else(|| "unsupported".to_string())
}

fn main() {
    tvh::run_lines(handle);
}

//! Batch pipeline, implementation side: settings + call history -> IR dump, rendered code, API answers.
//!
//! Request (one JSON object per line):
//!   {"settings": {struct_builder, derives, map_type, type_mod, unknown_crates, crates, patch,
//!                 replace, convert},               (all optional)
//!    "calls": [ {"root": <RootSchema>} | {"defs": {name: schema, ..}} | {"defs_list": [[name, schema], ..]}
//!             | {"type": <schema>, "name": str|null} , .. ]}
//! Answer (one JSON object per line): see /verif/CONTRIBUTING.md, "The batch pipeline".
//! A malformed request is answered `{"error": "..."}`; a malformed schema inside a call makes that
//! call's result `unsupported` (the call is skipped).
use std::panic::{catch_unwind, AssertUnwindSafe};

use schemars::schema::{RootSchema, Schema, SchemaObject};
use serde::de::{MapAccess, Visitor};
use serde::Deserialize;
use serde_json::{json, Value};
use typify_impl::{
    CrateVers, Error, Type, TypeDetails, TypeEnumVariant, TypeSpace, TypeSpaceImpl,
    TypeSpacePatch, TypeSpaceSettings, UnknownPolicy,
};

/// A JSON object read as a list of pairs in document order.
struct Ordered(Vec<(String, Value)>);
impl<'de> Deserialize<'de> for Ordered {
    fn deserialize<D: serde::Deserializer<'de>>(d: D) -> Result<Self, D::Error> {
        struct V;
        impl<'de> Visitor<'de> for V {
            type Value = Ordered;
            fn expecting(&self, f: &mut std::fmt::Formatter) -> std::fmt::Result {
                f.write_str("an object")
            }
            fn visit_map<A: MapAccess<'de>>(self, mut m: A) -> Result<Ordered, A::Error> {
                let mut v = Vec::new();
                while let Some((k, x)) = m.next_entry::<String, Value>()? {
                    v.push((k, x));
                }
                Ok(Ordered(v))
            }
        }
        d.deserialize_map(V)
    }
}

#[derive(Deserialize)]
#[serde(deny_unknown_fields)]
struct Call {
    root: Option<Value>,
    defs: Option<Ordered>,
    defs_list: Option<Vec<(String, Value)>>,
    #[serde(rename = "type")]
    ty: Option<Value>,
    name: Option<String>,
}

#[derive(Deserialize)]
struct CrateS {
    name: String,
    version: String,
    rename: Option<String>,
}
#[derive(Deserialize)]
struct PatchS {
    name: String,
    rename: Option<String>,
    #[serde(default)]
    derives: Vec<String>,
}
#[derive(Deserialize)]
struct ReplaceS {
    name: String,
    replace: String,
    #[serde(default)]
    impls: Vec<String>,
}
#[derive(Deserialize)]
struct ConvertS {
    schema: Value,
    #[serde(rename = "type")]
    ty: String,
    #[serde(default)]
    impls: Vec<String>,
}

#[derive(Deserialize, Default)]
#[serde(deny_unknown_fields)]
struct Settings {
    struct_builder: Option<bool>,
    #[serde(default)]
    derives: Vec<String>,
    map_type: Option<String>,
    type_mod: Option<String>,
    unknown_crates: Option<String>,
    #[serde(default)]
    crates: Vec<CrateS>,
    #[serde(default)]
    patch: Vec<PatchS>,
    #[serde(default)]
    replace: Vec<ReplaceS>,
    #[serde(default)]
    convert: Vec<ConvertS>,
}

#[derive(Deserialize)]
struct Req {
    #[serde(default)]
    settings: Settings,
    calls: Vec<Call>,
}

fn impls(v: &[String]) -> Result<Vec<TypeSpaceImpl>, String> {
    v.iter().map(|s| s.parse::<TypeSpaceImpl>()).collect()
}

fn build_settings(s: &Settings) -> Result<TypeSpaceSettings, String> {
    let mut out = TypeSpaceSettings::default();
    if let Some(b) = s.struct_builder {
        out.with_struct_builder(b);
    }
    for d in &s.derives {
        out.with_derive(d.clone());
    }
    if let Some(m) = &s.map_type {
        // MapType::new panics on a string that is not a type; report it as a request error.
        syn::parse_str::<syn::Type>(m).map_err(|e| format!("map_type: {}", e))?;
        out.with_map_type(m.as_str());
    }
    if let Some(m) = &s.type_mod {
        out.with_type_mod(m);
    }
    if let Some(p) = &s.unknown_crates {
        out.with_unknown_crates(match p.as_str() {
            "generate" => UnknownPolicy::Generate,
            "allow" => UnknownPolicy::Allow,
            "deny" => UnknownPolicy::Deny,
            o => return Err(format!("unknown_crates: {}", o)),
        });
    }
    for c in &s.crates {
        let v = CrateVers::parse(&c.version).ok_or_else(|| format!("crate version: {}", c.version))?;
        out.with_crate(&c.name, v, c.rename.as_ref());
    }
    for p in &s.patch {
        let mut tp = TypeSpacePatch::default();
        if let Some(r) = &p.rename {
            tp.with_rename(r);
        }
        for d in &p.derives {
            tp.with_derive(d);
        }
        out.with_patch(&p.name, &tp);
    }
    for r in &s.replace {
        out.with_replacement(&r.name, &r.replace, impls(&r.impls)?.into_iter());
    }
    for c in &s.convert {
        let so: SchemaObject =
            serde_json::from_value(c.schema.clone()).map_err(|e| format!("convert schema: {}", e))?;
        out.with_conversion(so, &c.ty, impls(&c.impls)?.into_iter());
    }
    Ok(out)
}

fn err_kind(e: &Error) -> &'static str {
    match e {
        Error::BadValue(..) => "BadValue",
        Error::InvalidTypeId => "InvalidTypeId",
        Error::InvalidValue => "InvalidValue",
        Error::InvalidSchema { .. } => "InvalidSchema",
    }
}

fn schemas(list: Vec<(String, Value)>) -> Option<Vec<(String, Schema)>> {
    list.into_iter()
        .map(|(k, v)| serde_json::from_value::<Schema>(v).ok().map(|s| (k, s)))
        .collect()
}

thread_local! {
    static LAST_ERR: std::cell::RefCell<Option<String>> = const { std::cell::RefCell::new(None) };
}
fn hook_panics() {
    static ONCE: std::sync::Once = std::sync::Once::new();
    ONCE.call_once(|| {
        std::panic::set_hook(Box::new(|info| {
            let msg = info
                .payload()
                .downcast_ref::<&str>()
                .map(|s| s.to_string())
                .or_else(|| info.payload().downcast_ref::<String>().cloned())
                .unwrap_or_default();
            let loc = info
                .location()
                .map(|l| {
                    let f = l.file();
                    format!("{}:{}", f.rsplit('/').next().unwrap_or(f), l.line())
                })
                .unwrap_or_default();
            LAST_ERR.with(|l| *l.borrow_mut() = Some(format!("panic at {}: {}", loc, msg)));
        }));
    });
}
fn err(e: &Error) -> String {
    LAST_ERR.with(|l| *l.borrow_mut() = Some(e.to_string()));
    format!("err:{}", err_kind(e))
}

/// One call on the type space: `ok`, `ok:<id>`, `err:<Kind>`, `unsupported`.
fn do_call(ts: &mut TypeSpace, call: Call) -> String {
    let unit = |r: Result<(), Error>| match r {
        Ok(()) => "ok".to_string(),
        Err(e) => err(&e),
    };
    if let Some(root) = call.root {
        match serde_json::from_value::<RootSchema>(root) {
            Err(_) => "unsupported".to_string(),
            Ok(r) => match ts.add_root_schema(r) {
                Ok(None) => "ok".to_string(),
                Ok(Some(id)) => format!("ok:{}", TypeSpace::verif_id(&id)),
                Err(e) => err(&e),
            },
        }
    } else if let Some(Ordered(defs)) = call.defs {
        match schemas(defs) {
            None => "unsupported".to_string(),
            Some(d) => unit(ts.add_ref_types(d)),
        }
    } else if let Some(defs) = call.defs_list {
        match schemas(defs) {
            None => "unsupported".to_string(),
            Some(d) => unit(ts.add_ref_types(d)),
        }
    } else if let Some(ty) = call.ty {
        match serde_json::from_value::<Schema>(ty) {
            Err(_) => "unsupported".to_string(),
            Ok(s) => {
                let r = match call.name {
                    Some(n) => ts.add_type_with_name(&s, Some(n)),
                    None => ts.add_type(&s),
                };
                match r {
                    Ok(id) => format!("ok:{}", TypeSpace::verif_id(&id)),
                    Err(e) => err(&e),
                }
            }
        }
    } else {
        "unsupported".to_string()
    }
}

fn ident_of(ts: &TypeSpace, id: &typify_impl::TypeId) -> Value {
    match ts.get_type(id) {
        Ok(t) => json!(t.ident().to_string()),
        Err(_) => Value::Null,
    }
}

fn kind_of(d: &TypeDetails) -> &'static str {
    match d {
        TypeDetails::Enum(_) => "enum",
        TypeDetails::Struct(_) => "struct",
        TypeDetails::Newtype(_) => "newtype",
        TypeDetails::Option(_) => "option",
        TypeDetails::Vec(_) => "vec",
        TypeDetails::Map(..) => "map",
        TypeDetails::Set(_) => "set",
        TypeDetails::Box(_) => "box",
        TypeDetails::Tuple(_) => "tuple",
        TypeDetails::Array(..) => "array",
        TypeDetails::Builtin(_) => "builtin",
        TypeDetails::Unit => "unit",
        TypeDetails::String => "string",
    }
}

fn type_json(ts: &TypeSpace, id: u64, t: &Type) -> Value {
    let vid = |i: &typify_impl::TypeId| TypeSpace::verif_id(i);
    let details = t.details();
    let mut v = json!({
        "id": id,
        "name": t.name(),
        "ident": t.ident().to_string(),
        "parameter_ident": t.parameter_ident().to_string(),
        "kind": kind_of(&details),
        "has_impl": {
            "FromStr": t.has_impl(TypeSpaceImpl::FromStr),
            "Display": t.has_impl(TypeSpaceImpl::Display),
            "Default": t.has_impl(TypeSpaceImpl::Default),
        },
        "builder": t.builder().map(|b| b.to_string()),
    });
    let o = v.as_object_mut().unwrap();
    match details {
        TypeDetails::Struct(s) => {
            let props = s
                .properties_info()
                .map(|p| {
                    json!({
                        "name": p.name,
                        "required": p.required,
                        "type_id": vid(&p.type_id),
                        "type_ident": ident_of(ts, &p.type_id),
                    })
                })
                .collect::<Vec<_>>();
            o.insert("props".into(), json!(props));
        }
        TypeDetails::Enum(e) => {
            let vars = e
                .variants_info()
                .map(|vi| match vi.details {
                    TypeEnumVariant::Simple => json!({"name": vi.name, "kind": "simple"}),
                    TypeEnumVariant::Tuple(ids) => json!({
                        "name": vi.name, "kind": "tuple",
                        "types": ids.iter().map(|i| json!({"type_id": vid(i), "type_ident": ident_of(ts, i)})).collect::<Vec<_>>(),
                    }),
                    TypeEnumVariant::Struct(ps) => json!({
                        "name": vi.name, "kind": "struct",
                        "props": ps.iter().map(|(n, i)| json!({"name": n, "type_id": vid(i), "type_ident": ident_of(ts, i)})).collect::<Vec<_>>(),
                    }),
                })
                .collect::<Vec<_>>();
            o.insert("variants".into(), json!(vars));
        }
        TypeDetails::Newtype(n) => {
            let i = n.inner();
            o.insert("inner".into(), json!({"type_id": vid(&i), "type_ident": ident_of(ts, &i)}));
        }
        TypeDetails::Option(i) | TypeDetails::Vec(i) | TypeDetails::Set(i) | TypeDetails::Box(i) => {
            o.insert("item".into(), json!(vid(&i)));
        }
        TypeDetails::Array(i, n) => {
            o.insert("item".into(), json!(vid(&i)));
            o.insert("len".into(), json!(n));
        }
        TypeDetails::Map(k, x) => {
            o.insert("key".into(), json!(vid(&k)));
            o.insert("value".into(), json!(vid(&x)));
        }
        TypeDetails::Tuple(it) => {
            o.insert("items".into(), json!(it.map(|i| vid(&i)).collect::<Vec<_>>()));
        }
        TypeDetails::Builtin(b) => {
            o.insert("builtin".into(), json!(b));
        }
        TypeDetails::Unit | TypeDetails::String => {}
    }
    v
}

fn handle(line: &str) -> String {
    hook_panics();
    let req: Req = match serde_json::from_str(line) {
        Ok(r) => r,
        Err(e) => return json!({"error": format!("bad request: {}", e)}).to_string(),
    };
    let settings = match catch_unwind(|| build_settings(&req.settings)) {
        Ok(Ok(s)) => s,
        Ok(Err(e)) => return json!({"error": format!("bad settings: {}", e)}).to_string(),
        Err(_) => return json!({"error": "settings panic"}).to_string(),
    };
    let mut ts = TypeSpace::new(&settings);
    let _ = TypeSpace::verif_take_pre_cycles();

    let mut calls = Vec::new();
    let mut messages = Vec::new();
    for call in req.calls {
        LAST_ERR.with(|l| *l.borrow_mut() = None);
        let r = catch_unwind(AssertUnwindSafe(|| do_call(&mut ts, call)));
        messages.push(LAST_ERR.with(|l| l.borrow_mut().take()));
        match r {
            Ok(s) => calls.push(s),
            Err(_) => {
                calls.push("panic".to_string());
                break;
            }
        }
    }
    let pre_cycles = TypeSpace::verif_take_pre_cycles();
    let dump = catch_unwind(AssertUnwindSafe(|| ts.verif_dump())).unwrap_or(Value::Null);

    LAST_ERR.with(|l| *l.borrow_mut() = None);
    let (render, code, parses) = match catch_unwind(AssertUnwindSafe(|| ts.to_stream())) {
        Err(_) => ("panic", String::new(), false),
        Ok(stream) => {
            let raw = stream.to_string();
            match syn::parse2::<syn::File>(stream) {
                Ok(file) => match catch_unwind(AssertUnwindSafe(|| prettyplease::unparse(&file))) {
                    Ok(text) => ("ok", text, true),
                    Err(_) => ("ok", raw, true),
                },
                Err(_) => ("ok", raw, false),
            }
        }
    };

    let render_message = if render == "panic" { LAST_ERR.with(|l| l.borrow_mut().take()) } else { None };
    let ids = ts.verif_iter_ids();
    let types = ts
        .iter_types()
        .zip(ids.iter())
        .map(|(t, id)| {
            catch_unwind(AssertUnwindSafe(|| type_json(&ts, *id, &t)))
                .unwrap_or_else(|_| json!({"id": id, "panic": true}))
        })
        .collect::<Vec<_>>();

    json!({
        "calls": calls,
        "messages": messages,
        "dump": dump,
        "pre_cycles": pre_cycles,
        "render": render,
        "render_message": render_message,
        "code": code,
        "parses": parses,
        "types": types,
        "uses": {
            "chrono": ts.uses_chrono(),
            "uuid": ts.uses_uuid(),
            "serde_json": ts.uses_serde_json(),
            "regress": ts.uses_regress(),
        },
    })
    .to_string()
}

fn main() {
    tvh::run_lines(handle);
}

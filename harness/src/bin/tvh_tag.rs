//! `convert_one_of` / `convert_any_of` (convert.rs) and the tagging detection of enums.rs, through the public API: the union
//! `{<comb>: schemas}` is added as the definition `T` next to the request's definitions, and the shape of the entry registered
//! for `T` is read from the IR dump (`TypeSpace::verif_dump`). Requests, one JSON object per line:
//!
//! `{"comb": "oneOf" | "anyOf", "schemas": [S1, ..], "defs": {name: schema, ..}}`
//!
//! Answer: a JSON object `{"shape": ..}` (see `describe`), `{"shape":"panic"}`, `{"shape":"error"}` or `badrequest`.
use schemars::schema::Schema;
use serde_json::{json, Map, Value};
use typify_impl::TypeSpace;

fn payload(ts: &Value, d: &Value) -> Value {
    if d == "simple" {
        return json!("unit");
    }
    if let Some(props) = d.get("struct").and_then(|p| p.as_array()) {
        let mut names = props
            .iter()
            .map(|p| match p.get("rename") {
                Some(Value::Object(o)) => o["rename"].as_str().unwrap().to_string(),
                _ => p["name"].as_str().unwrap().to_string(),
            })
            .collect::<Vec<_>>();
        names.sort();
        return json!(names);
    }
    let _ = ts;
    json!("value")
}

fn variants(ts: &Value, e: &Value, fields: bool) -> Value {
    Value::Array(
        e["variants"]
            .as_array()
            .unwrap()
            .iter()
            .map(|v| {
                let p = payload(ts, &v["details"]);
                let p = if !fields && p.is_array() { json!("value") } else { p };
                json!({"name": v["raw_name"], "payload": p})
            })
            .collect(),
    )
}

fn entry<'a>(dump: &'a Value, key: &str) -> Option<&'a Value> {
    let id = dump["ref_to_id"].get(key)?.as_u64()?;
    dump["entries"].get(id.to_string())
}

/// a definition whose type has no name of its own (an `Option`, a scalar, ..) is registered as a newtype around it
fn unwrap<'a>(dump: &'a Value, e: &'a Value) -> &'a Value {
    if e["kind"] == "newtype" && e["constraints"].is_null() {
        if let Some(inner) = e["type_id"].as_u64().and_then(|i| dump["entries"].get(i.to_string())) {
            return inner;
        }
    }
    e
}

/// what the comparison looks at: enum tagging, tag / content names, variant names, payload kinds, deny_unknown_fields
fn describe(dump: &Value, e: &Value) -> Value {
    match e["kind"].as_str().unwrap_or("") {
        "option" => json!({"shape": "option"}),
        "enum" => match &e["tag"] {
            Value::String(s) if s == "external" => json!({"shape": "external", "variants": variants(dump, e, false)}),
            Value::String(s) if s == "untagged" => json!({"shape": "untagged", "n": e["variants"].as_array().unwrap().len()}),
            Value::Object(o) if o.contains_key("internal") => {
                json!({"shape": "internal", "tag": o["internal"], "deny": e["deny"], "variants": variants(dump, e, true)})
            }
            Value::Object(o) if o.contains_key("adjacent") => {
                json!({"shape": "adjacent", "tag": o["adjacent"][0], "content": o["adjacent"][1], "variants": variants(dump, e, false)})
            }
            _ => json!({"shape": "other"}),
        },
        "struct" => {
            let props = e["props"].as_array().unwrap();
            if !props.is_empty() && props.iter().all(|p| p["rename"] == "flatten") {
                json!({"shape": "flattened", "n": props.len()})
            } else {
                json!({"shape": "other", "kind": "struct"})
            }
        }
        k => json!({"shape": "other", "kind": k}),
    }
}

fn handle(line: &str) -> String {
    let req: Value = match serde_json::from_str(line) {
        Ok(v) => v,
        Err(_) => return "badrequest".to_string(),
    };
    let (Some(list), Some(comb)) = (
        req.get("schemas").and_then(|s| s.as_array()),
        req.get("comb").and_then(|s| s.as_str()),
    ) else {
        return "badrequest".to_string();
    };
    let mut defs: Map<String, Value> = req.get("defs").and_then(|d| d.as_object()).cloned().unwrap_or_default();
    defs.insert("T".to_string(), json!({ comb: list }));
    if list.len() == 1 {
        // the reference point for `maybe_singleton_subschema`: the lone subschema as a definition of its own
        defs.insert("T1".to_string(), list[0].clone());
    }
    let mut parsed = Vec::new();
    for (k, v) in &defs {
        match serde_json::from_value::<Schema>(v.clone()) {
            Ok(s) => parsed.push((k.clone(), s)),
            Err(_) => return "badrequest".to_string(),
        }
    }
    let mut ts = TypeSpace::default();
    if ts.add_ref_types(parsed).is_err() {
        return json!({"shape": "error"}).to_string();
    }
    let dump = ts.verif_dump();
    let Some(e) = entry(&dump, "def:T") else {
        return json!({"shape": "missing"}).to_string();
    };
    let mut d = describe(&dump, unwrap(&dump, e));
    if list.len() == 1 {
        // a one-element union: what the lone subschema gets as a definition of its own
        if let Some(e1) = entry(&dump, "def:T1") {
            let alone = describe(&dump, unwrap(&dump, e1));
            d.as_object_mut().unwrap().insert("alone".to_string(), alone);
        }
    }
    d.to_string()
}

fn main() {
    tvh::run_lines(handle)
}

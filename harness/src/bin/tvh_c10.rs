//! C10: scalar selection. Request: a JSON schema object (type integer/number/string ...).
//! Answer: `ok <builtin-or-kind>` | `err <kind>` | `panic`.
use schemars::schema::Schema;
use typify_impl::{TypeDetails, TypeSpace};

fn handle(line: &str) -> String {
    let schema: Schema = match serde_json::from_str(line) {
        Ok(s) => s,
        Err(_) => return "unsupported".to_string(),
    };
    let mut ts = TypeSpace::default();
    match ts.add_type(&schema) {
        Err(e) => format!("err {}", tvh::err_kind(&e)),
        Ok(id) => {
            let ty = ts.get_type(&id).unwrap();
            let r = match ty.details() {
                TypeDetails::Builtin(name) => format!("ok {}", name),
                TypeDetails::String => "ok String".to_string(),
                TypeDetails::Unit => "ok ()".to_string(),
                _ => format!("ok other:{}", ty.name()),
            };
            r
        }
    }
}

fn main() {
    tvh::run_lines(handle);
}

//! C07: cycle breaking.
//! Request `{"graph": {"<id>": node..}, "lo": n, "hi": n}`: build the IR directly, run the real
//! `break_cycles(lo..hi)`; answer `{"next": n, "nodes": {"<id>": node..}}` (same node format).
//! Request `{"schema": <root schema document>, "then": [<schema>, ..]?}`: run the real `add_root_schema` (then `add_type` for
//! each further schema on the same type space); answer
//! `{"lo","hi","pre":{next,nodes},"post":{next,nodes}}` with the IR snapshot taken just before
//! `break_cycles` and the final IR; or `err <Kind>`.
use serde_json::{json, Map, Value};
use typify_impl::TypeSpace;

fn prop_ids(props: &Value) -> Value {
    Value::Array(
        props
            .as_array()
            .unwrap()
            .iter()
            .map(|p| p["type_id"].clone())
            .collect(),
    )
}

/// hook dump entry -> request node format (ids only)
fn norm_entry(e: &Value) -> Value {
    match e["kind"].as_str().unwrap() {
        "struct" => json!({"kind": "struct", "name": e["name"], "props": prop_ids(&e["props"])}),
        "newtype" => json!({"kind": "newtype", "name": e["name"], "type_id": e["type_id"]}),
        "enum" => {
            let vs = e["variants"]
                .as_array()
                .unwrap()
                .iter()
                .map(|v| {
                    let d = &v["details"];
                    if let Some(x) = d.get("item") {
                        json!({ "item": x })
                    } else if let Some(x) = d.get("tuple") {
                        json!({ "tuple": x })
                    } else if let Some(x) = d.get("struct") {
                        json!({ "struct": prop_ids(x) })
                    } else {
                        json!({})
                    }
                })
                .collect::<Vec<_>>();
            json!({"kind": "enum", "name": e["name"], "variants": vs})
        }
        "option" | "box" | "vec" | "set" => json!({"kind": e["kind"], "id": e["id"]}),
        "map" => json!({"kind": "map", "key": e["key"], "value": e["value"]}),
        "array" => json!({"kind": "array", "id": e["id"], "len": e["len"]}),
        "tuple" => json!({"kind": "tuple", "ids": e["ids"]}),
        other => json!({ "kind": other }),
    }
}

fn norm_dump(d: &Value) -> Value {
    let nodes = d["entries"]
        .as_object()
        .unwrap()
        .iter()
        .map(|(k, e)| (k.clone(), norm_entry(e)))
        .collect::<Map<_, _>>();
    json!({"next": d["next_id"], "nodes": nodes})
}

fn handle(line: &str) -> String {
    let req: Value = match serde_json::from_str(line) {
        Ok(v) => v,
        Err(_) => return "unsupported".to_string(),
    };
    if let Some(graph) = req.get("graph") {
        let lo = req["lo"].as_u64().unwrap();
        let hi = req["hi"].as_u64().unwrap();
        let dump = TypeSpace::verif_break_cycles_on(graph, lo, hi);
        return norm_dump(&dump).to_string();
    }
    if let Some(schema) = req.get("schema") {
        let root: schemars::schema::RootSchema = match serde_json::from_value(schema.clone()) {
            Ok(s) => s,
            Err(_) => return "unsupported".to_string(),
        };
        let mut ts = TypeSpace::default();
        let _ = TypeSpace::verif_take_pre_cycles();
        return match ts.add_root_schema(root) {
            Err(e) => format!("err {}", tvh::err_kind(&e)),
            Ok(_) => {
                let pre = TypeSpace::verif_take_pre_cycles().unwrap();
                // "then": further schemas handed to `add_type` on the same type space (a history of additions); the answer's
                // `post` is the type space after all of them, `then` says how each went
                let mut then = Vec::new();
                if let Some(more) = req.get("then").and_then(|t| t.as_array()) {
                    for m in more {
                        let r = match serde_json::from_value::<schemars::schema::Schema>(m.clone()) {
                            Ok(sch) => match std::panic::catch_unwind(std::panic::AssertUnwindSafe(|| ts.add_type(&sch))) {
                                Ok(Ok(_)) => "ok".to_string(),
                                Ok(Err(e)) => format!("err {}", tvh::err_kind(&e)),
                                Err(_) => "panic".to_string(),
                            },
                            Err(_) => "unsupported".to_string(),
                        };
                        then.push(r);
                    }
                }
                let post = ts.verif_dump();
                let ids = pre["ref_to_id"]
                    .as_object()
                    .unwrap()
                    .values()
                    .map(|v| v.as_u64().unwrap())
                    .collect::<Vec<_>>();
                let lo = ids.iter().min().cloned().unwrap_or(0);
                let hi = ids.iter().max().map(|m| m + 1).unwrap_or(0);
                json!({"lo": lo, "hi": hi, "pre": norm_dump(&pre), "post": norm_dump(&post), "then": then})
                    .to_string()
            }
        };
    }
    "unsupported".to_string()
}

fn main() {
    tvh::run_lines(handle);
}

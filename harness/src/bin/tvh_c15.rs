//! C15: the three front-ends. Implementation side of slice `c15` and of the C15 oracle.
//! Requests (one JSON object per line):
//!  {"op":"spec","s":"base64@0.21.0"}
//!      real binary's `--crate` value parser: `ok` | `err`
//!  {"op":"cli_run","args":{..},"schema":"<json text>","text":bool}
//!      runs /repo/target/debug/cargo-typify in a fresh directory; answers
//!      {"exit":n,"out":"stdout"|"file:<rel>"|"none","new_files":[..],"hash":h,"nitems":n[,"text":..]}
//!  {"op":"builder","settings":{..},"schema":"<json text>","text":bool,"emit":"<path>"?}
//!      TypeSpaceSettings through the public builder API, add_root_schema, to_stream
//!      {"ok":true,"hash":h,"nitems":n} | {"ok":false,"err":"convert"|"schema"|"format"} ; `panic`
//!  {"op":"expand_cmp","path":"<expanded.rs>","pairs":[["mac0","bld0"],..]}
//!      compares modules of a `-Zunpretty=expanded` crate item by item
//! Items are compared as token text after the same rustfmt + syn + prettyplease on both sides,
//! with inner attributes (the CLI's lint-allow header) dropped.
use serde_json::{json, Value};
use std::collections::hash_map::DefaultHasher;
use std::hash::{Hash, Hasher};
use std::io::Write;
use std::path::{Path, PathBuf};
use std::process::{Command, Stdio};
use std::sync::atomic::{AtomicUsize, Ordering};
use typify_impl::{CrateVers, TypeSpace, TypeSpaceImpl, TypeSpacePatch, TypeSpaceSettings, UnknownPolicy};

const BIN: &str = "/repo/target/debug/cargo-typify";
const RUN_ROOT: &str = "/verif/.cache/c15_run";
static COUNTER: AtomicUsize = AtomicUsize::new(0);

fn run_root() -> PathBuf {
    let p = PathBuf::from(RUN_ROOT);
    if !p.join("rust-toolchain.toml").exists() {
        std::fs::create_dir_all(&p).unwrap();
        // same rustfmt (pinned toolchain) for the CLI's own formatting and for ours
        std::fs::copy("/repo/rust-toolchain.toml", p.join("rust-toolchain.toml")).unwrap();
    }
    p
}

fn hash_str(s: &str) -> String {
    let mut h = DefaultHasher::new();
    s.hash(&mut h);
    format!("{:016x}", h.finish())
}

/// token text of a file's items, inner attributes dropped; None if it does not parse
fn normalise(text: &str) -> Option<(String, usize)> {
    let mut file = syn::parse_file(text).ok()?;
    file.attrs.clear();
    file.shebang = None;
    let n = count_items(&file.items);
    Some((prettyplease::unparse(&file), n))
}

fn count_items(items: &[syn::Item]) -> usize {
    items
        .iter()
        .map(|i| match i {
            syn::Item::Mod(m) => 1 + m.content.as_ref().map(|(_, c)| count_items(c)).unwrap_or(0),
            _ => 1,
        })
        .sum()
}

fn rustfmt(text: &str) -> Option<String> {
    let mut child = Command::new("rustfmt")
        .args(["--edition", "2018", "--emit", "stdout"])
        .current_dir(run_root())
        .stdin(Stdio::piped())
        .stdout(Stdio::piped())
        .stderr(Stdio::null())
        .spawn()
        .ok()?;
    child.stdin.take().unwrap().write_all(text.as_bytes()).ok()?;
    let out = child.wait_with_output().ok()?;
    if !out.status.success() {
        return None;
    }
    String::from_utf8(out.stdout).ok()
}

fn list_files(dir: &Path, base: &Path, out: &mut Vec<String>) {
    if let Ok(rd) = std::fs::read_dir(dir) {
        for e in rd.flatten() {
            let p = e.path();
            if p.is_dir() {
                list_files(&p, base, out);
            } else {
                out.push(p.strip_prefix(base).unwrap().to_string_lossy().to_string());
            }
        }
    }
}

fn str_list(v: &Value) -> Vec<String> {
    v.as_array().map(|a| a.iter().filter_map(|x| x.as_str().map(String::from)).collect()).unwrap_or_default()
}

fn argv_of(args: &Value) -> Vec<String> {
    let mut v = vec!["typify".to_string(), args["input"].as_str().unwrap().to_string()];
    if args["builder"].as_bool() == Some(true) {
        v.push("--builder".into());
    }
    if args["no_builder"].as_bool() == Some(true) {
        v.push("--no-builder".into());
    }
    for d in str_list(&args["derives"]) {
        v.push(format!("--additional-derive={}", d));
    }
    if let Some(o) = args["output"].as_str() {
        v.push("--output".into());
        v.push(o.to_string());
    }
    for c in str_list(&args["crates"]) {
        v.push(format!("--crate={}", c));
    }
    if let Some(m) = args["map_type"].as_str() {
        v.push(format!("--map-type={}", m));
    }
    if let Some(u) = args["unknown"].as_str() {
        v.push(format!("--unknown-crates={}", u));
    }
    v
}

fn op_spec(req: &Value) -> String {
    let s = req["s"].as_str().unwrap();
    let st = Command::new(BIN)
        .args(["typify", "/verif/.cache/c15_run/does-not-exist.json"])
        .arg(format!("--crate={}", s))
        .current_dir(run_root())
        .stdout(Stdio::null())
        .stderr(Stdio::null())
        .status()
        .unwrap();
    match st.code() {
        Some(2) => "err".to_string(),
        Some(1) => "ok".to_string(),
        c => format!("unexpected-exit {:?}", c),
    }
}

fn op_cli_run(req: &Value) -> String {
    let args = &req["args"];
    let n = COUNTER.fetch_add(1, Ordering::SeqCst);
    let dir = run_root().join(format!("case-{}-{}", std::process::id(), n));
    let _ = std::fs::remove_dir_all(&dir);
    std::fs::create_dir_all(&dir).unwrap();
    let input = args["input"].as_str().unwrap();
    let ipath = dir.join(input);
    if let Some(parent) = ipath.parent() {
        std::fs::create_dir_all(parent).unwrap();
    }
    if let Some(schema) = req["schema"].as_str() {
        std::fs::write(&ipath, schema).unwrap();
    }
    if let Some(o) = args["output"].as_str() {
        if o != "-" {
            if let Some(parent) = dir.join(o).parent() {
                std::fs::create_dir_all(parent).unwrap();
            }
        }
    }
    let mut before = Vec::new();
    list_files(&dir, &dir, &mut before);
    let out = Command::new(BIN).args(argv_of(args)).current_dir(&dir).stderr(Stdio::piped()).output().unwrap();
    let mut after = Vec::new();
    list_files(&dir, &dir, &mut after);
    let mut new_files: Vec<String> = after.into_iter().filter(|f| !before.contains(f)).collect();
    new_files.sort();
    let stdout = String::from_utf8_lossy(&out.stdout).to_string();
    let exit = out.status.code().unwrap_or(-1);
    let (place, text) = if new_files.len() == 1 && stdout.is_empty() {
        (format!("file:{}", new_files[0]), std::fs::read_to_string(dir.join(&new_files[0])).unwrap_or_default())
    } else if new_files.is_empty() && !stdout.is_empty() {
        ("stdout".to_string(), stdout.clone())
    } else if new_files.is_empty() {
        ("none".to_string(), String::new())
    } else {
        ("both".to_string(), String::new())
    };
    let has_header = text.starts_with("#![allow(");
    let mut ans = json!({"exit": exit, "out": place, "new_files": new_files, "stdout_len": stdout.len(),
                         "header": has_header});
    if exit == 0 {
        match normalise(&text) {
            Some((t, n)) => {
                ans["hash"] = json!(hash_str(&t));
                ans["nitems"] = json!(n);
                if req["text"].as_bool() == Some(true) {
                    ans["text"] = json!(t);
                }
            }
            None => ans["hash"] = json!("unparsable"),
        }
    } else if req["text"].as_bool() == Some(true) {
        ans["stderr"] = json!(String::from_utf8_lossy(&out.stderr).chars().take(600).collect::<String>());
    }
    let _ = std::fs::remove_dir_all(&dir);
    ans.to_string()
}

fn impls_of(v: &Value) -> Vec<TypeSpaceImpl> {
    str_list(v).iter().map(|s| s.parse::<TypeSpaceImpl>().unwrap()).collect()
}

fn settings_of(s: &Value) -> TypeSpaceSettings {
    let mut st = TypeSpaceSettings::default();
    if let Some(m) = s["type_mod"].as_str() {
        st.with_type_mod(m);
    }
    st.with_struct_builder(s["struct_builder"].as_bool().unwrap());
    for d in str_list(&s["derives"]) {
        st.with_derive(d);
    }
    st.with_unknown_crates(match s["unknown"].as_str().unwrap() {
        "generate" => UnknownPolicy::Generate,
        "allow" => UnknownPolicy::Allow,
        "deny" => UnknownPolicy::Deny,
        _ => panic!("policy"),
    });
    for e in s["crates"].as_array().unwrap() {
        let name = e[0].as_str().unwrap();
        let vers = CrateVers::parse(e[1]["vers"].as_str().unwrap()).expect("version");
        let rename = e[1]["rename"].as_str().map(String::from);
        st.with_crate(name, vers, rename.as_ref());
    }
    st.with_map_type(s["map_type"].as_str().unwrap().to_string());
    for e in s["patch"].as_array().unwrap() {
        let mut p = TypeSpacePatch::default();
        if let Some(r) = e[1]["rename"].as_str() {
            p.with_rename(r);
        }
        for d in str_list(&e[1]["derives"]) {
            p.with_derive(d);
        }
        st.with_patch(e[0].as_str().unwrap(), &p);
    }
    for e in s["replace"].as_array().unwrap() {
        st.with_replacement(e[0].as_str().unwrap(), e[1]["type"].as_str().unwrap(), impls_of(&e[1]["impls"]).into_iter());
    }
    for e in s["convert"].as_array().unwrap() {
        let so: schemars::schema::SchemaObject = serde_json::from_str(e["schema"].as_str().unwrap()).expect("schema object");
        st.with_conversion(so, e["type"].as_str().unwrap(), impls_of(&e["impls"]).into_iter());
    }
    st
}

fn op_builder(req: &Value) -> String {
    let st = settings_of(&req["settings"]);
    let schema: schemars::schema::RootSchema = match serde_json::from_str(req["schema"].as_str().unwrap()) {
        Ok(s) => s,
        Err(_) => return json!({"ok": false, "err": "schema"}).to_string(),
    };
    let mut ts = TypeSpace::new(&st);
    if let Err(e) = ts.add_root_schema(schema) {
        return json!({"ok": false, "err": "convert", "detail": e.to_string()}).to_string();
    }
    let raw = ts.to_stream().to_string();
    if let Some(p) = req["emit"].as_str() {
        std::fs::write(p, &raw).unwrap();
    }
    let Some(fmt) = rustfmt(&raw) else { return json!({"ok": false, "err": "format"}).to_string() };
    match normalise(&fmt) {
        Some((t, n)) => {
            let mut ans = json!({"ok": true, "hash": hash_str(&t), "nitems": n,
                                 "debug": format!("{:?}", st).len()});
            if req["text"].as_bool() == Some(true) {
                ans["text"] = json!(t);
            }
            ans.to_string()
        }
        None => json!({"ok": false, "err": "parse"}).to_string(),
    }
}

fn is_anchor(item: &syn::Item) -> bool {
    // `const _: &str = include_str!(..)` after expansion: `const _: &str = "<file>";`
    match item {
        syn::Item::Const(c) if c.ident == "_" => {
            matches!(&*c.ty, syn::Type::Reference(r) if matches!(&*r.elem, syn::Type::Path(p) if p.path.is_ident("str")))
                && matches!(&*c.expr, syn::Expr::Lit(syn::ExprLit { lit: syn::Lit::Str(_), .. }))
        }
        _ => false,
    }
}

fn tok(item: &syn::Item) -> String {
    use quote::ToTokens;
    item.to_token_stream().to_string()
}

fn op_expand_cmp(req: &Value) -> String {
    let text = std::fs::read_to_string(req["path"].as_str().unwrap()).unwrap();
    let file = match syn::parse_file(&text) {
        Ok(f) => f,
        Err(e) => return json!({"ok": false, "err": format!("expanded crate does not parse: {}", e)}).to_string(),
    };
    let mods: std::collections::HashMap<String, Vec<syn::Item>> = file
        .items
        .iter()
        .filter_map(|i| match i {
            syn::Item::Mod(m) => m.content.as_ref().map(|(_, c)| (m.ident.to_string(), c.clone())),
            _ => None,
        })
        .collect();
    let mut res = Vec::new();
    for p in req["pairs"].as_array().unwrap() {
        let (a, b) = (p[0].as_str().unwrap(), p[1].as_str().unwrap());
        let (Some(ia), Some(ib)) = (mods.get(a), mods.get(b)) else {
            res.push(json!({"pair": [a, b], "result": "missing-module"}));
            continue;
        };
        let ta: Vec<String> = ia.iter().filter(|i| !is_anchor(i)).map(tok).collect();
        let tb: Vec<String> = ib.iter().filter(|i| !is_anchor(i)).map(tok).collect();
        let anchor = ia.iter().filter(|i| is_anchor(i)).count();
        if ta == tb {
            res.push(json!({"pair": [a, b], "result": "same", "nitems": ta.len(), "anchor": anchor}));
        } else {
            let k = ta.iter().zip(tb.iter()).position(|(x, y)| x != y).unwrap_or(ta.len().min(tb.len()));
            let cut = |s: Option<&String>| s.map(|s| s.chars().take(400).collect::<String>());
            res.push(json!({"pair": [a, b], "result": "differ", "index": k, "na": ta.len(), "nb": tb.len(),
                            "a": cut(ta.get(k)), "b": cut(tb.get(k))}));
        }
    }
    json!({"ok": true, "results": res}).to_string()
}

fn handle(line: &str) -> String {
    let req: Value = match serde_json::from_str(line) {
        Ok(v) => v,
        Err(_) => return "bad-request".to_string(),
    };
    match req["op"].as_str() {
        Some("spec") => op_spec(&req),
        Some("cli_run") => op_cli_run(&req),
        Some("builder") => op_builder(&req),
        Some("expand_cmp") => op_expand_cmp(&req),
        _ => "bad-request".to_string(),
    }
}

fn main() {
    tvh::run_lines(handle);
}

//! Slice c16, implementation side: one call history on ONE `TypeSpace` (default settings); after
//! EVERY call the call's result and the complete canonical dump are reported.
//!
//! Request (one JSON object per line):
//!   {"calls": [ {"root": <RootSchema>} | {"defs": {name: schema, ..}} (document order kept)
//!             | {"defs_list": [[name, schema], ..]} | {"type": <schema>, "name": str|null}, .. ]}
//! Answer (one JSON object per line):
//!   {"steps": [ {"r": "ok"|"ok:<id>"|"err:<Kind>"|"unsupported"|"panic", "msg": str|null,
//!                "dump": verif_dump() | null (the dump itself panicked),
//!                "names": {"<id>": [Type::name(), Type::ident()] | null} }, .. ],   (stops after a panic)
//!    "render": "ok"|"panic"|"skipped" (some call failed), "parses": bool, "items": [top-level struct/enum/type item names of
//!    to_stream(), in order, duplicates kept]}
use std::panic::{catch_unwind, AssertUnwindSafe};

use schemars::schema::{RootSchema, Schema};
use serde::de::{MapAccess, Visitor};
use serde::Deserialize;
use serde_json::{json, Map, Value};
use typify_impl::{Error, TypeSpace};

/// A JSON object read as a list of pairs in document order.
struct Ordered(Vec<(String, Value)>);
impl<'de> Deserialize<'de> for Ordered {
    fn deserialize<D: serde::Deserializer<'de>>(d: D) -> Result<Self, D::Error> {
        struct V;
        impl<'de> Visitor<'de> for V {
            type Value = Ordered;
            fn expecting(&self, f: &mut std::fmt::Formatter) -> std::fmt::Result {
                f.write_str("an object")
            }
            fn visit_map<A: MapAccess<'de>>(self, mut m: A) -> Result<Ordered, A::Error> {
                let mut v = Vec::new();
                while let Some((k, x)) = m.next_entry::<String, Value>()? {
                    v.push((k, x));
                }
                Ok(Ordered(v))
            }
        }
        d.deserialize_map(V)
    }
}

#[derive(Deserialize)]
#[serde(deny_unknown_fields)]
struct Call {
    root: Option<Value>,
    defs: Option<Ordered>,
    defs_list: Option<Vec<(String, Value)>>,
    #[serde(rename = "type")]
    ty: Option<Value>,
    name: Option<String>,
}

#[derive(Deserialize)]
struct Req {
    calls: Vec<Call>,
    /// optional: {"unknown": "Generate"|"Allow"|"Deny", "crates": [[name, "*"|"1.0.0", rename|null], ..]}
    #[serde(default)]
    settings: Option<Value>,
}

fn settings_of(v: &Option<Value>) -> typify_impl::TypeSpaceSettings {
    use typify_impl::{CrateVers, TypeSpaceSettings, UnknownPolicy};
    let mut st = TypeSpaceSettings::default();
    if let Some(v) = v {
        match v["unknown"].as_str() {
            Some("Generate") => {
                st.with_unknown_crates(UnknownPolicy::Generate);
            }
            Some("Allow") => {
                st.with_unknown_crates(UnknownPolicy::Allow);
            }
            Some("Deny") => {
                st.with_unknown_crates(UnknownPolicy::Deny);
            }
            _ => {}
        }
        for c in v["crates"].as_array().map(|x| x.as_slice()).unwrap_or(&[]) {
            if let (Some(name), Some(vers)) = (c[0].as_str(), c[1].as_str().and_then(CrateVers::parse)) {
                let rename = c[2].as_str().map(|s| s.to_string());
                st.with_crate(name, vers, rename.as_ref());
            }
        }
    }
    st
}

fn err_kind(e: &Error) -> &'static str {
    match e {
        Error::BadValue(..) => "BadValue",
        Error::InvalidTypeId => "InvalidTypeId",
        Error::InvalidValue => "InvalidValue",
        Error::InvalidSchema { .. } => "InvalidSchema",
    }
}

thread_local! {
    static LAST_ERR: std::cell::RefCell<Option<String>> = const { std::cell::RefCell::new(None) };
}

fn hook_panics() {
    static ONCE: std::sync::Once = std::sync::Once::new();
    ONCE.call_once(|| {
        std::panic::set_hook(Box::new(|info| {
            let msg = info
                .payload()
                .downcast_ref::<&str>()
                .map(|s| s.to_string())
                .or_else(|| info.payload().downcast_ref::<String>().cloned())
                .unwrap_or_default();
            let loc = info
                .location()
                .map(|l| {
                    let f = l.file();
                    format!("{}:{}", f.rsplit('/').next().unwrap_or(f), l.line())
                })
                .unwrap_or_default();
            LAST_ERR.with(|l| *l.borrow_mut() = Some(format!("panic at {}: {}", loc, msg)));
        }));
    });
}

fn err(e: &Error) -> String {
    LAST_ERR.with(|l| *l.borrow_mut() = Some(e.to_string()));
    format!("err:{}", err_kind(e))
}

fn schemas(list: Vec<(String, Value)>) -> Option<Vec<(String, Schema)>> {
    list.into_iter()
        .map(|(k, v)| serde_json::from_value::<Schema>(v).ok().map(|s| (k, s)))
        .collect()
}

fn do_call(ts: &mut TypeSpace, call: Call) -> String {
    let unit = |r: Result<(), Error>| match r {
        Ok(()) => "ok".to_string(),
        Err(e) => err(&e),
    };
    if let Some(root) = call.root {
        match serde_json::from_value::<RootSchema>(root) {
            Err(_) => "unsupported".to_string(),
            Ok(r) => match ts.add_root_schema(r) {
                Ok(None) => "ok".to_string(),
                Ok(Some(id)) => format!("ok:{}", TypeSpace::verif_id(&id)),
                Err(e) => err(&e),
            },
        }
    } else if let Some(Ordered(defs)) = call.defs {
        match schemas(defs) {
            None => "unsupported".to_string(),
            Some(d) => unit(ts.add_ref_types(d)),
        }
    } else if let Some(defs) = call.defs_list {
        match schemas(defs) {
            None => "unsupported".to_string(),
            Some(d) => unit(ts.add_ref_types(d)),
        }
    } else if let Some(ty) = call.ty {
        match serde_json::from_value::<Schema>(ty) {
            Err(_) => "unsupported".to_string(),
            Ok(s) => {
                let r = match call.name {
                    Some(n) => ts.add_type_with_name(&s, Some(n)),
                    None => ts.add_type(&s),
                };
                match r {
                    Ok(id) => format!("ok:{}", TypeSpace::verif_id(&id)),
                    Err(e) => err(&e),
                }
            }
        }
    } else {
        "unsupported".to_string()
    }
}

/// `Type::name()` and `Type::ident()` of every entry; `null` where the query panics.
fn names(ts: &TypeSpace) -> Value {
    let ids = ts.verif_iter_ids();
    let mut m = Map::new();
    for (t, id) in ts.iter_types().zip(ids.iter()) {
        let v = catch_unwind(AssertUnwindSafe(|| json!([t.name(), t.ident().to_string()])))
            .unwrap_or(Value::Null);
        m.insert(id.to_string(), v);
    }
    Value::Object(m)
}

fn item_names(file: &syn::File) -> Vec<String> {
    fn walk(prefix: &str, items: &[syn::Item], out: &mut Vec<String>) {
        for it in items {
            match it {
                syn::Item::Struct(s) => out.push(format!("{}{}", prefix, s.ident)),
                syn::Item::Enum(e) => out.push(format!("{}{}", prefix, e.ident)),
                syn::Item::Type(t) => out.push(format!("{}{}", prefix, t.ident)),
                // the shared default functions (`pub mod defaults`) and the builder / error modules are definitions too
                syn::Item::Fn(f) if !prefix.is_empty() => out.push(format!("{}{}", prefix, f.sig.ident)),
                syn::Item::Mod(m) => {
                    if let Some((_, inner)) = &m.content {
                        walk(&format!("{}{}::", prefix, m.ident), inner, out);
                    }
                }
                _ => {}
            }
        }
    }
    let mut out = Vec::new();
    walk("", &file.items, &mut out);
    out
}

fn handle(line: &str) -> String {
    hook_panics();
    let req: Req = match serde_json::from_str(line) {
        Ok(r) => r,
        Err(e) => return json!({"error": format!("bad request: {}", e)}).to_string(),
    };
    let mut ts = TypeSpace::new(&settings_of(&req.settings));
    let _ = TypeSpace::verif_take_pre_cycles();
    let mut steps = Vec::new();
    for call in req.calls {
        LAST_ERR.with(|l| *l.borrow_mut() = None);
        let r = catch_unwind(AssertUnwindSafe(|| do_call(&mut ts, call)));
        let msg = LAST_ERR.with(|l| l.borrow_mut().take());
        let (res, stop) = match r {
            Ok(s) => (s, false),
            Err(_) => ("panic".to_string(), true),
        };
        let dump = catch_unwind(AssertUnwindSafe(|| ts.verif_dump())).unwrap_or(Value::Null);
        let nm = catch_unwind(AssertUnwindSafe(|| names(&ts))).unwrap_or(Value::Null);
        steps.push(json!({"r": res, "msg": msg, "dump": dump, "names": nm}));
        if stop {
            break;
        }
    }
    let _ = TypeSpace::verif_take_pre_cycles();
    // After an `Err` or a panic the space is "in a weird state" (lib.rs TODO): a batch that failed
    // half-way was never handed to `break_cycles`, and rendering a self-referential newtype does
    // not terminate (`has_impl` follows newtypes without a visited set). Render only clean histories.
    let clean = steps.iter().all(|s| s["r"].as_str().map_or(false, |r| r.starts_with("ok")));
    let (render, parses, items) = match catch_unwind(AssertUnwindSafe(|| {
        if clean {
            Some(ts.to_stream())
        } else {
            None
        }
    })) {
        Err(_) => ("panic", false, Vec::new()),
        Ok(None) => ("skipped", false, Vec::new()),
        Ok(Some(stream)) => match syn::parse2::<syn::File>(stream) {
            Ok(file) => ("ok", true, item_names(&file)),
            Err(_) => ("ok", false, Vec::new()),
        },
    };
    json!({"steps": steps, "render": render, "parses": parses, "items": items}).to_string()
}

fn main() {
    tvh::run_lines(handle);
}

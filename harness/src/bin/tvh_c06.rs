//! C06, implementation side: the real `validate_value` / `output_value` / `default_fn` on probes.
//!
//! Request (one JSON object per line):
//!   {"settings": {"struct_builder": bool},
//!    "calls": [ {"root": <RootSchema>} | {"defs": {name: schema, ..}} | {"type": <schema>, "name": str|null}, .. ],
//!    "probes": [ {"type_id": n | "type_name": str, "value": <json>, "fn": [type_name, prop_name]?}, .. ]}
//! Answer: {"calls": [..], "messages": [..], "dump": verif_dump(),
//!          "probes": [{"id": n|null, "validate": "ok:<kind>"|"err"|"panic"|"notype",
//!                      "output": <canonical token text>|null, "output_status": "ok"|"none"|"panic"|"notype",
//!                      "default_fn": {"status": "ok"|"panic", "path": str, "custom": text|null}?}]}
//! Canonical token text: tokens concatenated without white space; string literals as JSON strings.
use std::panic::{catch_unwind, AssertUnwindSafe};

use proc_macro2::{Delimiter, TokenStream, TokenTree};
use schemars::schema::{RootSchema, Schema};
use serde::Deserialize;
use serde_json::{json, Value};
use typify_impl::{Error, TypeSpace, TypeSpaceSettings};

#[derive(Deserialize)]
#[serde(deny_unknown_fields)]
struct Call {
    root: Option<Value>,
    defs: Option<serde_json::Map<String, Value>>,
    #[serde(rename = "type")]
    ty: Option<Value>,
    name: Option<String>,
}

#[derive(Deserialize, Default)]
#[serde(deny_unknown_fields)]
struct Settings {
    struct_builder: Option<bool>,
}

#[derive(Deserialize)]
struct Probe {
    type_id: Option<u64>,
    type_name: Option<String>,
    value: Value,
    #[serde(rename = "fn")]
    func: Option<(String, String)>,
}

#[derive(Deserialize)]
struct Req {
    #[serde(default)]
    settings: Settings,
    calls: Vec<Call>,
    #[serde(default)]
    probes: Vec<Probe>,
}

fn err_kind(e: &Error) -> &'static str {
    match e {
        Error::BadValue(..) => "BadValue",
        Error::InvalidTypeId => "InvalidTypeId",
        Error::InvalidValue => "InvalidValue",
        Error::InvalidSchema { .. } => "InvalidSchema",
    }
}

thread_local! {
    static LAST_ERR: std::cell::RefCell<Option<String>> = const { std::cell::RefCell::new(None) };
}

fn hook_panics() {
    static ONCE: std::sync::Once = std::sync::Once::new();
    ONCE.call_once(|| {
        std::panic::set_hook(Box::new(|info| {
            let msg = info
                .payload()
                .downcast_ref::<&str>()
                .map(|s| s.to_string())
                .or_else(|| info.payload().downcast_ref::<String>().cloned())
                .unwrap_or_default();
            let loc = info
                .location()
                .map(|l| {
                    let f = l.file();
                    format!("{}:{}", f.rsplit('/').next().unwrap_or(f), l.line())
                })
                .unwrap_or_default();
            let first = msg.lines().next().unwrap_or("").to_string();
            LAST_ERR.with(|l| *l.borrow_mut() = Some(format!("panic at {}: {}", loc, first)));
        }));
    });
}

fn err(e: &Error) -> String {
    LAST_ERR.with(|l| *l.borrow_mut() = Some(e.to_string()));
    format!("err:{}", err_kind(e))
}

fn do_call(ts: &mut TypeSpace, call: Call) -> String {
    if let Some(root) = call.root {
        match serde_json::from_value::<RootSchema>(root) {
            Err(_) => "unsupported".to_string(),
            Ok(r) => match ts.add_root_schema(r) {
                Ok(None) => "ok".to_string(),
                Ok(Some(id)) => format!("ok:{}", TypeSpace::verif_id(&id)),
                Err(e) => err(&e),
            },
        }
    } else if let Some(defs) = call.defs {
        let d: Option<Vec<(String, Schema)>> = defs
            .into_iter()
            .map(|(k, v)| serde_json::from_value::<Schema>(v).ok().map(|s| (k, s)))
            .collect();
        match d {
            None => "unsupported".to_string(),
            Some(d) => match ts.add_ref_types(d) {
                Ok(()) => "ok".to_string(),
                Err(e) => err(&e),
            },
        }
    } else if let Some(ty) = call.ty {
        match serde_json::from_value::<Schema>(ty) {
            Err(_) => "unsupported".to_string(),
            Ok(s) => {
                let r = match call.name {
                    Some(n) => ts.add_type_with_name(&s, Some(n)),
                    None => ts.add_type(&s),
                };
                match r {
                    Ok(id) => format!("ok:{}", TypeSpace::verif_id(&id)),
                    Err(e) => err(&e),
                }
            }
        }
    } else {
        "unsupported".to_string()
    }
}

/// Tokens concatenated without separators; a space only between two word-like tokens.
fn canon(ts: TokenStream, out: &mut String) {
    for tt in ts {
        match tt {
            TokenTree::Group(g) => {
                let (o, c) = match g.delimiter() {
                    Delimiter::Parenthesis => ("(", ")"),
                    Delimiter::Brace => ("{", "}"),
                    Delimiter::Bracket => ("[", "]"),
                    Delimiter::None => ("", ""),
                };
                out.push_str(o);
                canon(g.stream(), out);
                out.push_str(c);
            }
            TokenTree::Ident(i) => {
                word(out, &i.to_string());
            }
            TokenTree::Punct(p) => out.push(p.as_char()),
            TokenTree::Literal(l) => {
                let text = l.to_string();
                if text.starts_with('"') || text.starts_with('r') {
                    match syn::parse_str::<syn::LitStr>(&text) {
                        Ok(s) => out.push_str(&serde_json::to_string(&s.value()).unwrap()),
                        Err(_) => word(out, &text),
                    }
                } else {
                    word(out, &text);
                }
            }
        }
    }
}

fn word(out: &mut String, w: &str) {
    if out
        .chars()
        .last()
        .map_or(false, |c| c.is_alphanumeric() || c == '_')
    {
        out.push(' ');
    }
    out.push_str(w);
}

fn canon_str(ts: TokenStream) -> String {
    let mut s = String::new();
    canon(ts, &mut s);
    s
}

fn handle(line: &str) -> String {
    hook_panics();
    let req: Req = match serde_json::from_str(line) {
        Ok(r) => r,
        Err(e) => return json!({"error": format!("bad request: {}", e)}).to_string(),
    };
    let mut settings = TypeSpaceSettings::default();
    if let Some(b) = req.settings.struct_builder {
        settings.with_struct_builder(b);
    }
    let mut ts = TypeSpace::new(&settings);
    let _ = TypeSpace::verif_take_pre_cycles();
    let mut calls = Vec::new();
    let mut messages = Vec::new();
    for call in req.calls {
        LAST_ERR.with(|l| *l.borrow_mut() = None);
        let r = catch_unwind(AssertUnwindSafe(|| do_call(&mut ts, call)));
        messages.push(LAST_ERR.with(|l| l.borrow_mut().take()));
        match r {
            Ok(s) => calls.push(s),
            Err(_) => {
                calls.push("panic".to_string());
                break;
            }
        }
    }
    let _ = TypeSpace::verif_take_pre_cycles();
    let dump = catch_unwind(AssertUnwindSafe(|| ts.verif_dump())).unwrap_or(Value::Null);
    let known = |id: u64| dump["entries"].get(id.to_string()).is_some();

    let mut probes = Vec::new();
    for p in req.probes {
        let id = match (&p.type_id, &p.type_name) {
            (Some(id), _) => Some(*id),
            (None, Some(n)) => ts.verif_name_to_id(n),
            _ => None,
        };
        let id = match id {
            Some(id) if known(id) => id,
            _ => {
                probes.push(json!({"id": null, "validate": "notype", "output": null, "output_status": "notype"}));
                continue;
            }
        };
        LAST_ERR.with(|l| *l.borrow_mut() = None);
        let validate = catch_unwind(AssertUnwindSafe(|| ts.verif_validate_value(id, &p.value)))
            .unwrap_or_else(|_| "panic".to_string());
        let vmsg = LAST_ERR.with(|l| l.borrow_mut().take());
        let (ostatus, otext) =
            match catch_unwind(AssertUnwindSafe(|| ts.verif_output_value(id, &p.value))) {
                Err(_) => ("panic", Value::Null),
                Ok(None) => ("none", Value::Null),
                Ok(Some(t)) => ("ok", json!(canon_str(t))),
            };
        let omsg = LAST_ERR.with(|l| l.borrow_mut().take());
        let mut ans = json!({"id": id, "validate": validate, "output": otext, "output_status": ostatus,
                             "messages": [vmsg, omsg]});
        if let Some((tn, pn)) = &p.func {
            let f = match catch_unwind(AssertUnwindSafe(|| ts.verif_default_fn(id, &p.value, tn, pn))) {
                Err(_) => json!({"status": "panic", "message": LAST_ERR.with(|l| l.borrow_mut().take())}),
                Ok((path, custom)) => json!({"status": "ok", "path": path, "custom": custom.map(canon_str)}),
            };
            ans.as_object_mut().unwrap().insert("default_fn".into(), f);
        }
        probes.push(ans);
    }
    json!({"calls": calls, "messages": messages, "dump": dump, "probes": probes}).to_string()
}

fn main() {
    tvh::run_lines(handle);
}

//! Translator: regenerates Lean tables from /repo's current source.
//! usage: extract <repo-root> <out-dir>
//! Exits non-zero (and says which shape was not found) when the source no longer has the
//! expected shape; the caller treats that as a broken tie.
use std::fmt::Write as _;
use syn::visit::Visit;

#[path = "../t5_hash_sites.rs"]
mod t5_impl; // T5 (C12): HashMap/HashSet sites and their consumers -> Generated/HashSites.lean
#[path = "../extract_t2.rs"]
mod extract_t2; // T2 (C10/C11/C17): string formats of convert_string -> Generated/StringFormats.lean
#[path = "../extract_t5b.rs"]
mod extract_t5b; // T5b (C12): interior mutability / global state / unsafe -> Generated/Interior.lean
#[path = "../extract_t3.rs"]
mod extract_t3; // T3 (C19/C17): derive sets -> Generated/Derives.lean
#[path = "../extract_t7.rs"]
mod extract_t7; // T7 (C15): is_crate predicates, MacroSettings collection kinds -> Generated/Frontends.lean
#[path = "../extract_t9.rs"]
mod extract_t9; // T9 (C01): panic sites reachable from to_stream -> Generated/PanicSites.lean
#[path = "../extract_t11.rs"]
mod extract_t11; // T11 (C01): the arms of convert_schema_object's match -> Generated/DispatchArms.lean
#[path = "../extract_t10.rs"]
mod extract_t10; // T10 (C11): emitted Display / FromStr / TryFrom / Deref templates -> Generated/Templates.lean

struct FnFinder<'a> {
    name: &'a str,
    found: Option<syn::ImplItemFn>,
}
impl<'ast, 'a> Visit<'ast> for FnFinder<'a> {
    fn visit_impl_item_fn(&mut self, f: &'ast syn::ImplItemFn) {
        if f.sig.ident == self.name && self.found.is_none() {
            self.found = Some(f.clone());
        }
        syn::visit::visit_impl_item_fn(self, f);
    }
}

struct LocalFinder<'a> {
    name: &'a str,
    found: Option<syn::Expr>,
}
impl<'ast, 'a> Visit<'ast> for LocalFinder<'a> {
    fn visit_local(&mut self, l: &'ast syn::Local) {
        let pat = match &l.pat {
            syn::Pat::Type(t) => &*t.pat,
            p => p,
        };
        if let syn::Pat::Ident(id) = pat {
            if id.ident == self.name && self.found.is_none() {
                if let Some(init) = &l.init {
                    self.found = Some((*init.expr).clone());
                }
            }
        }
        syn::visit::visit_local(self, l);
    }
}

fn fail(msg: &str) -> ! {
    eprintln!("extract: shape not found: {}", msg);
    std::process::exit(3);
}

fn lit_str(e: &syn::Expr) -> String {
    match e {
        syn::Expr::Lit(syn::ExprLit { lit: syn::Lit::Str(s), .. }) => s.value(),
        _ => fail("string literal expected"),
    }
}

/// Evaluate `T::MIN as f64` / `T::MAX as f64` to the exact integer value of the f64.
fn limit_as_f64(e: &syn::Expr) -> i128 {
    let syn::Expr::Cast(c) = e else { fail("cast expected") };
    let syn::Type::Path(tp) = &*c.ty else { fail("cast to path type") };
    if !tp.path.is_ident("f64") {
        fail("cast to f64");
    }
    let syn::Expr::Path(p) = &*c.expr else { fail("T::MIN/MAX path") };
    let segs: Vec<String> = p.path.segments.iter().map(|s| s.ident.to_string()).collect();
    if segs.len() != 2 {
        fail("T::MIN/MAX path of two segments");
    }
    let v: f64 = match (segs[0].as_str(), segs[1].as_str()) {
        ("i8", "MIN") => i8::MIN as f64,
        ("i8", "MAX") => i8::MAX as f64,
        ("u8", "MIN") => u8::MIN as f64,
        ("u8", "MAX") => u8::MAX as f64,
        ("i16", "MIN") => i16::MIN as f64,
        ("i16", "MAX") => i16::MAX as f64,
        ("u16", "MIN") => u16::MIN as f64,
        ("u16", "MAX") => u16::MAX as f64,
        ("i32", "MIN") => i32::MIN as f64,
        ("i32", "MAX") => i32::MAX as f64,
        ("u32", "MIN") => u32::MIN as f64,
        ("u32", "MAX") => u32::MAX as f64,
        ("i64", "MIN") => i64::MIN as f64,
        ("i64", "MAX") => i64::MAX as f64,
        ("u64", "MIN") => u64::MIN as f64,
        ("u64", "MAX") => u64::MAX as f64,
        _ => fail("unknown integer limit"),
    };
    v as i128
}

fn rty(s: &str) -> &'static str {
    match s {
        "i8" => ".i8",
        "u8" => ".u8",
        "i16" => ".i16",
        "u16" => ".u16",
        "i32" => ".i32",
        "u32" => ".u32",
        "i64" => ".i64",
        "u64" => ".u64",
        "::std::num::NonZeroU8" => ".nzu8",
        "::std::num::NonZeroU16" => ".nzu16",
        "::std::num::NonZeroU32" => ".nzu32",
        "::std::num::NonZeroU64" => ".nzu64",
        _ => fail("unknown Rust integer type name in formats table"),
    }
}

fn lean_int(v: i128) -> String {
    if v < 0 {
        format!("({})", v)
    } else {
        format!("{}", v)
    }
}

fn t1_int_formats(repo: &str, out: &mut String) {
    let src = std::fs::read_to_string(format!("{}/typify-impl/src/convert.rs", repo)).unwrap();
    let file = syn::parse_file(&src).unwrap();
    let mut ff = FnFinder { name: "convert_integer", found: None };
    ff.visit_file(&file);
    let Some(f) = ff.found else { fail("fn convert_integer") };
    let mut lf = LocalFinder { name: "formats", found: None };
    lf.visit_impl_item_fn(&f);
    let Some(init) = lf.found else { fail("let formats") };
    let syn::Expr::Reference(r) = init else { fail("formats = &[..]") };
    let syn::Expr::Array(arr) = *r.expr else { fail("formats array") };
    writeln!(out, "/-- T1: convert.rs `convert_integer` formats table -/").unwrap();
    writeln!(out, "def intFormats : List FormatRow := [").unwrap();
    let n = arr.elems.len();
    for (i, e) in arr.elems.iter().enumerate() {
        let syn::Expr::Tuple(t) = e else { fail("formats row tuple") };
        if t.elems.len() != 5 {
            fail("formats row arity 5");
        }
        let name = lit_str(&t.elems[0]);
        let ty = lit_str(&t.elems[1]);
        let nz = lit_str(&t.elems[2]);
        let lo = limit_as_f64(&t.elems[3]);
        let hi = limit_as_f64(&t.elems[4]);
        writeln!(
            out,
            "  ⟨{:?}, {}, {}, {}, {}⟩{}",
            name,
            rty(&ty),
            rty(&nz),
            lean_int(lo),
            lean_int(hi),
            if i + 1 < n { "," } else { "" }
        )
        .unwrap();
    }
    writeln!(out, "]\n").unwrap();
}

/// T5 (C12). Writes Generated/HashSites.lean; a site that cannot be classified is reported after
/// every other table has been written (the table then contains `.unknown`, so `hash_sites_ok` fails too).
fn t5_hash_sites(repo: &str, outdir: &str) -> Option<String> {
    t5_impl::run(repo, outdir).err()
}

fn main() {
    let args: Vec<String> = std::env::args().collect();
    let repo = &args[1];
    let outdir = &args[2];
    let t5_problem = t5_hash_sites(repo, outdir);
    let mut out = String::new();
    out.push_str("-- GENERATED by /verif/harness/src/bin/extract.rs from /repo source. Do not edit.\n");
    out.push_str("import TypifyModel.Model.IntTypes\n\nnamespace TypifyModel.Generated\nopen TypifyModel\n\n");
    t1_int_formats(repo, &mut out);
    out.push_str("end TypifyModel.Generated\n");
    std::fs::create_dir_all(outdir).unwrap();
    let path = format!("{}/Tables.lean", outdir);
    // only rewrite when changed so lake does not rebuild needlessly
    if std::fs::read_to_string(&path).ok().as_deref() != Some(out.as_str()) {
        std::fs::write(&path, out).unwrap();
    }
    extract_t2::t2_string_formats(repo, outdir);
    extract_t5b::t5b_interior(repo, outdir);
    extract_t3::t3_derives(repo, outdir);
    extract_t7::t7_frontends(repo, outdir);
    extract_t9::t9_panic_sites(repo, outdir);
    extract_t10::t10_templates(repo, outdir);
    extract_t11::t11_dispatch(repo, outdir);
    if let Some(msg) = t5_problem {
        fail(&msg);
    }
}

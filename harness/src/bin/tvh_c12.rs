//! C12: determinism. Two request kinds, one JSON object per line.
//!
//! `{"kind":"parse","text":"<document>"}`
//!     → `serde_json::to_string(&serde_json::from_str::<Value>(text)?)` (what the real parser keeps of
//!       the text: member order is the `Map`'s order), or `err`.
//! `{"kind":"gen","schema":"<document text>","settings":{..}}`
//!     → `ok <fnv64 of to_stream().to_string()> <fnv64 of a second to_stream()> <bytes> <fnv64 after a call that defines nothing>`,
//!       `err <kind>`, `panic`, or `unsupported` (the text is not a `RootSchema`).
//!
//! settings: struct_builder (bool), derives ([string]), map_type (string), type_mod (string),
//! unknown_crates ("Generate"|"Allow"|"Deny"), crates ({name: {"version": "1.0.0"|"*"|"!", "rename": string?}}),
//! patch ({type: {"rename": string?, "derives": [string]}}),
//! replace ({type: {"type": string, "impls": [string]}}),
//! convert ([{"schema": {..}, "type": string, "impls": [string]}]).
use schemars::schema::{RootSchema, SchemaObject};
use serde_json::Value;
use typify_impl::{CrateVers, TypeSpace, TypeSpaceImpl, TypeSpacePatch, TypeSpaceSettings, UnknownPolicy};

fn fnv64(bytes: &[u8]) -> u64 {
    let mut h: u64 = 0xcbf29ce484222325;
    for b in bytes {
        h ^= *b as u64;
        h = h.wrapping_mul(0x100000001b3);
    }
    h
}

fn impls_of(v: Option<&Value>) -> Vec<TypeSpaceImpl> {
    v.and_then(|v| v.as_array())
        .map(|a| a.iter().filter_map(|s| s.as_str()).filter_map(|s| s.parse::<TypeSpaceImpl>().ok()).collect())
        .unwrap_or_default()
}

fn settings_of(v: &Value) -> Option<TypeSpaceSettings> {
    let mut s = TypeSpaceSettings::default();
    let obj = v.as_object()?;
    if let Some(b) = obj.get("struct_builder").and_then(|b| b.as_bool()) {
        s.with_struct_builder(b);
    }
    if let Some(ds) = obj.get("derives").and_then(|d| d.as_array()) {
        for d in ds {
            s.with_derive(d.as_str()?.to_string());
        }
    }
    if let Some(m) = obj.get("map_type").and_then(|m| m.as_str()) {
        s.with_map_type(m);
    }
    if let Some(m) = obj.get("type_mod").and_then(|m| m.as_str()) {
        s.with_type_mod(m);
    }
    if let Some(p) = obj.get("unknown_crates").and_then(|m| m.as_str()) {
        s.with_unknown_crates(match p {
            "Allow" => UnknownPolicy::Allow,
            "Deny" => UnknownPolicy::Deny,
            _ => UnknownPolicy::Generate,
        });
    }
    if let Some(cs) = obj.get("crates").and_then(|c| c.as_object()) {
        for (name, spec) in cs {
            let vers = CrateVers::parse(spec.get("version")?.as_str()?)?;
            let rename = spec.get("rename").and_then(|r| r.as_str()).map(|r| r.to_string());
            s.with_crate(name, vers, rename.as_ref());
        }
    }
    if let Some(ps) = obj.get("patch").and_then(|c| c.as_object()) {
        for (name, p) in ps {
            let mut patch = TypeSpacePatch::default();
            if let Some(r) = p.get("rename").and_then(|r| r.as_str()) {
                patch.with_rename(r);
            }
            if let Some(ds) = p.get("derives").and_then(|d| d.as_array()) {
                for d in ds {
                    patch.with_derive(d.as_str()?);
                }
            }
            s.with_patch(name, &patch);
        }
    }
    if let Some(rs) = obj.get("replace").and_then(|c| c.as_object()) {
        for (name, r) in rs {
            s.with_replacement(name, r.get("type")?.as_str()?, impls_of(r.get("impls")).into_iter());
        }
    }
    if let Some(cs) = obj.get("convert").and_then(|c| c.as_array()) {
        for c in cs {
            let schema: SchemaObject = serde_json::from_value(c.get("schema")?.clone()).ok()?;
            s.with_conversion(schema, c.get("type")?.as_str()?, impls_of(c.get("impls")).into_iter());
        }
    }
    Some(s)
}

fn handle(line: &str) -> String {
    let req: Value = match serde_json::from_str(line) {
        Ok(v) => v,
        Err(_) => return "unsupported".to_string(),
    };
    match req.get("kind").and_then(|k| k.as_str()) {
        Some("parse") => {
            let Some(text) = req.get("text").and_then(|t| t.as_str()) else { return "unsupported".into() };
            match serde_json::from_str::<Value>(text) {
                Ok(v) => serde_json::to_string(&v).unwrap_or_else(|_| "err".into()),
                Err(_) => "err".to_string(),
            }
        }
        Some("gen") => {
            let Some(text) = req.get("schema").and_then(|t| t.as_str()) else { return "unsupported".into() };
            let root: RootSchema = match serde_json::from_str(text) {
                Ok(r) => r,
                Err(_) => return "unsupported".to_string(),
            };
            let Some(settings) = settings_of(req.get("settings").unwrap_or(&Value::Object(Default::default()))) else {
                return "unsupported".to_string();
            };
            let mut ts = TypeSpace::new(&settings);
            match ts.add_root_schema(root) {
                Err(e) => format!("err {}", tvh::err_kind(&e)),
                Ok(_) => {
                    let a = ts.to_stream().to_string();
                    let b = ts.to_stream().to_string();
                    // a later call that defines nothing (the schema `true`): the code for the document is still the same
                    let c = match std::panic::catch_unwind(std::panic::AssertUnwindSafe(|| {
                        let _ = ts.add_type(&schemars::schema::Schema::Bool(true));
                        ts.to_stream().to_string()
                    })) {
                        Ok(c) => format!("{:016x}", fnv64(c.as_bytes())),
                        Err(_) => "panic".to_string(),
                    };
                    format!("ok {:016x} {:016x} {} {}", fnv64(a.as_bytes()), fnv64(b.as_bytes()), a.len(), c)
                }
            }
        }
        _ => "unsupported".to_string(),
    }
}

fn main() {
    tvh::run_lines(handle);
}

//! `util.rs` `all_mutually_exclusive` (the test by which `convert_any_of` chooses between an enum and the struct of flattened
//! optional subtypes). Requests are JSON objects, one per line:
//!
//! `{"schemas":[S1,..,Sn], "defs":{name: schema, ..}}` — the REAL function through the hook
//! `typify_impl::verif::verif_all_mutually_exclusive`, `defs` being the definitions map (`RefKey::Def(name)`).
//!
//! Answer: `true` | `false` | `panic` (an `unwrap()` / `todo!()` inside util.rs) | `badrequest` (schemars cannot read a schema).
use schemars::schema::Schema;
use serde_json::Value;

fn handle(line: &str) -> String {
    let req: Value = match serde_json::from_str(line) {
        Ok(v) => v,
        Err(_) => return "badrequest".to_string(),
    };
    let Some(list) = req.get("schemas").and_then(|s| s.as_array()) else {
        return "badrequest".to_string();
    };
    let mut schemas = Vec::new();
    for s in list {
        match serde_json::from_value::<Schema>(s.clone()) {
            Ok(s) => schemas.push(s),
            Err(_) => return "badrequest".to_string(),
        }
    }
    let mut defs = Vec::new();
    if let Some(d) = req.get("defs").and_then(|d| d.as_object()) {
        for (k, v) in d {
            match serde_json::from_value::<Schema>(v.clone()) {
                Ok(s) => defs.push((k.clone(), s)),
                Err(_) => return "badrequest".to_string(),
            }
        }
    }
    if schemas.len() < 2 {
        return "badrequest".to_string();
    }
    typify_impl::verif::verif_all_mutually_exclusive(&schemas, &defs).to_string()
}

fn main() {
    tvh::run_lines(handle)
}

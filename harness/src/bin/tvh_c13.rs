//! C13: x-rust-type substitution policy. Requests are JSON objects, one per line.
//!
//! `{"k":"semver","req":R,"ver":V}` — the real `semver` crate:
//!     `ok true|false` | `err req` | `err ver`
//! `{"k":"cratevers","s":S}` — the real `CrateVers::parse`: `never` | `any` | `version` | `none`
//! `{"k":"ext","crates":[[name,vers,rename|null]..],"unknown":"Generate|Allow|Deny"|null,
//!   "x":<x-rust-type value>,"title":T,"def":null|Key,"gizmo_x":null|<x-rust-type value>}`
//!     the real typify path. `def = null`: `TypeSpace::add_type` on
//!     `{title:T,type:object,properties:{zz:string},x-rust-type:x}`; otherwise `add_ref_types` with
//!     definitions `Key` (that schema), `Gizmo` (an object, optionally carrying `gizmo_x`) and
//!     `Holder {f: $ref Key}`, then the type of `$ref Key`.
//!     Answer: `use <ident>` | `wrap <Newtype> <inner ident>` | `generate` | `err <kind>` | `panic`,
//!     then a TAB and a JSON object for the implementation-side oracle only (named items emitted by
//!     `to_stream()`, the type of `Holder.f`, `Type::name()`); the differ ignores what follows the TAB.
use schemars::schema::Schema;
use serde_json::{json, Value};
use typify_impl::{CrateVers, Type, TypeDetails, TypeSpace, TypeSpaceSettings, UnknownPolicy};

fn nospace(s: String) -> String {
    s.chars().filter(|c| !c.is_whitespace()).collect()
}

fn ident_of(ty: &Type) -> String {
    nospace(ty.ident().to_string())
}

/// top-level named items (struct / enum / type) of the generated module
fn items_of(ts: &TypeSpace) -> Vec<String> {
    let file: syn::File = match syn::parse2(ts.to_stream()) {
        Ok(f) => f,
        Err(_) => return vec!["<unparsable>".to_string()],
    };
    let mut v = Vec::new();
    for it in file.items {
        match it {
            syn::Item::Struct(s) => v.push(format!("struct {}", s.ident)),
            syn::Item::Enum(s) => v.push(format!("enum {}", s.ident)),
            syn::Item::Type(s) => v.push(format!("type {}", s.ident)),
            _ => {}
        }
    }
    v.sort();
    v
}

/// the single-field tuple struct `name`, if emitted: (repr-transparent or serde-transparent?, field type)
fn newtype_item(ts: &TypeSpace, name: &str) -> Option<(bool, String)> {
    let file: syn::File = syn::parse2(ts.to_stream()).ok()?;
    for it in file.items {
        if let syn::Item::Struct(s) = it {
            if s.ident == name {
                if let syn::Fields::Unnamed(f) = &s.fields {
                    if f.unnamed.len() == 1 {
                        let ty = &f.unnamed[0].ty;
                        let transparent = s.attrs.iter().any(|a| {
                            nospace(quote::quote!(#a).to_string()).contains("transparent")
                        });
                        return Some((transparent, nospace(quote::quote!(#ty).to_string())));
                    }
                }
            }
        }
    }
    None
}

fn classify(ts: &TypeSpace, ty: &Type) -> String {
    match ty.details() {
        TypeDetails::Builtin(_) => format!("use {}", ident_of(ty)),
        TypeDetails::Newtype(n) => {
            let inner = ts.get_type(&n.inner()).unwrap();
            let r = match inner.details() {
                TypeDetails::Builtin(_) => format!("wrap {} {}", ty.name(), ident_of(&inner)),
                _ => "generate".to_string(),
            };
            r
        }
        _ => "generate".to_string(),
    }
}

fn ext(req: &Value) -> String {
    let mut settings = TypeSpaceSettings::default();
    match req["unknown"].as_str() {
        Some("Generate") => {
            settings.with_unknown_crates(UnknownPolicy::Generate);
        }
        Some("Allow") => {
            settings.with_unknown_crates(UnknownPolicy::Allow);
        }
        Some("Deny") => {
            settings.with_unknown_crates(UnknownPolicy::Deny);
        }
        _ => {}
    }
    for c in req["crates"].as_array().map(|v| v.as_slice()).unwrap_or(&[]) {
        let name = c[0].as_str().unwrap();
        let Some(vers) = CrateVers::parse(c[1].as_str().unwrap()) else {
            return "err cratevers".to_string();
        };
        let rename = c[2].as_str().map(|s| s.to_string());
        settings.with_crate(name, vers, rename.as_ref());
    }
    let title = req["title"].as_str().unwrap_or("Foo");
    let schema_json = json!({
        "title": title,
        "type": "object",
        "properties": { "zz": { "type": "string" } },
        "x-rust-type": req["x"].clone(),
    });
    let schema: Schema = match serde_json::from_value(schema_json) {
        Ok(s) => s,
        Err(_) => return "unsupported".to_string(),
    };
    let mut ts = TypeSpace::new(&settings);
    match req["def"].as_str() {
        None => match ts.add_type(&schema) {
            Err(e) => format!("err {}", tvh::err_kind(&e)),
            Ok(id) => {
                let ty = ts.get_type(&id).unwrap();
                let ans = classify(&ts, &ty);
                let extra = json!({ "items": items_of(&ts), "name": ty.name() });
                format!("{}\t{}", ans, extra)
            }
        },
        Some(key) => {
            let mut gizmo = json!({
                "type": "object",
                "properties": { "g": { "type": "integer" } },
            });
            if !req["gizmo_x"].is_null() {
                gizmo["x-rust-type"] = req["gizmo_x"].clone();
            }
            let holder = json!({
                "type": "object",
                "properties": { "f": { "$ref": format!("#/definitions/{}", key) } },
                "required": ["f"],
            });
            let defs: Vec<(String, Schema)> = vec![
                (key.to_string(), schema),
                ("Gizmo".to_string(), serde_json::from_value(gizmo).unwrap()),
                ("Holder".to_string(), serde_json::from_value(holder).unwrap()),
            ];
            if let Err(e) = ts.add_ref_types(defs) {
                return format!("err {}", tvh::err_kind(&e));
            }
            let r: Schema =
                serde_json::from_value(json!({ "$ref": format!("#/definitions/{}", key) })).unwrap();
            let id = match ts.add_type(&r) {
                Ok(id) => id,
                Err(e) => return format!("err {}", tvh::err_kind(&e)),
            };
            let ty = ts.get_type(&id).unwrap();
            let ans = classify(&ts, &ty);
            // how the Holder struct refers to the definition
            let mut field = Value::Null;
            for t in ts.iter_types() {
                if let TypeDetails::Struct(s) = t.details() {
                    if t.name() == "Holder" {
                        for (n, fid) in s.properties() {
                            if n == "f" {
                                field = json!(ident_of(&ts.get_type(&fid).unwrap()));
                            }
                        }
                    }
                }
            }
            let wrapper = match &ans {
                a if a.starts_with("wrap ") => {
                    let nm = a.split(' ').nth(1).unwrap();
                    match newtype_item(&ts, nm) {
                        Some((tr, inner)) => json!({ "transparent": tr, "inner": inner }),
                        None => Value::Null,
                    }
                }
                _ => Value::Null,
            };
            let extra = json!({ "items": items_of(&ts), "name": ty.name(), "field": field, "wrapper": wrapper });
            format!("{}\t{}", ans, extra)
        }
    }
}

fn handle(line: &str) -> String {
    let req: Value = match serde_json::from_str(line) {
        Ok(v) => v,
        Err(_) => return "unsupported".to_string(),
    };
    match req["k"].as_str() {
        Some("semver") => {
            let Ok(r) = semver::VersionReq::parse(req["req"].as_str().unwrap()) else {
                return "err req".to_string();
            };
            let Ok(v) = semver::Version::parse(req["ver"].as_str().unwrap()) else {
                return "err ver".to_string();
            };
            format!("ok {}", r.matches(&v))
        }
        Some("cratevers") => match CrateVers::parse(req["s"].as_str().unwrap()) {
            None => "none".to_string(),
            Some(CrateVers::Never) => "never".to_string(),
            Some(CrateVers::Any) => "any".to_string(),
            Some(CrateVers::Version(_)) => "version".to_string(),
        },
        Some("ext") => ext(&req),
        _ => "unsupported".to_string(),
    }
}

fn main() {
    tvh::run_lines(handle);
}

//! `convert_schema_object` (convert.rs): which conversion a schema object is handed to. The schema of the request is added as
//! the definition `T` next to two fixed definitions (`A`, an object; `B`, a string enumeration), and what `T` became is read
//! off the IR dump. Requests: one JSON schema per line. Answer: a JSON object
//! `{"r": "ok", "kind": .., ..}` | `{"r": "err", "kind": <error kind>}` | `panic` (the answer of `run_lines`) | `badrequest`.
use schemars::schema::Schema;
use serde_json::{json, Value};
use typify_impl::TypeSpace;

fn entry<'a>(dump: &'a Value, key: &str) -> Option<&'a Value> {
    let id = dump["ref_to_id"].get(key)?.as_u64()?;
    dump["entries"].get(id.to_string())
}

/// a definition whose type has no name of its own is registered as a newtype around it
fn unwrap<'a>(dump: &'a Value, e: &'a Value) -> &'a Value {
    if e["kind"] == "newtype" && e["constraints"].is_null() {
        if let Some(inner) = e["type_id"].as_u64().and_then(|i| dump["entries"].get(i.to_string())) {
            return inner;
        }
    }
    e
}

fn describe(dump: &Value, e: &Value) -> Value {
    let e = unwrap(dump, e);
    match e["kind"].as_str().unwrap_or("") {
        "enum" => json!({"kind": "enum", "tag": e["tag"], "n": e["variants"].as_array().map(|v| v.len()),
                         "simple": e["variants"].as_array().map(|v| v.iter().all(|x| x["details"] == "simple")),
                         "variants": e["variants"].as_array().map(|v| v.iter().map(|x| x["raw_name"].clone()).collect::<Vec<_>>())}),
        "newtype" => {
            let c = &e["constraints"];
            let what = if c.get("string").is_some() { "string" } else if c.get("enum").is_some() { "enum" } else if c.get("deny").is_some() { "deny" } else { "none" };
            let inner = e["type_id"].as_u64().and_then(|i| dump["entries"].get(i.to_string()));
            json!({"kind": "newtype", "constraints": what, "values": c.get("enum").cloned(), "over": inner.map(|i| i["kind"].clone())})
        }
        "option" => {
            let inner = e["id"].as_u64().and_then(|i| dump["entries"].get(i.to_string()));
            json!({"kind": "option", "inner": inner.map(|i| unwrap(dump, i)["kind"].clone()), "inner_desc": inner.map(|i| describe(dump, i))})
        }
        "vec" | "set" | "array" => {
            let inner = e["id"].as_u64().and_then(|i| dump["entries"].get(i.to_string()));
            json!({"kind": e["kind"], "item": inner.map(|i| i["kind"].clone())})
        }
        "native" => json!({"kind": "native"}),
        k => json!({"kind": k}),
    }
}

fn handle(line: &str) -> String {
    let s: Value = match serde_json::from_str(line) {
        Ok(v) => v,
        Err(_) => return "badrequest".to_string(),
    };
    let defs = vec![
        ("A", json!({"type": "object", "properties": {"x": {"type": "integer"}}, "required": ["x"]})),
        ("B", json!({"type": "string", "enum": ["p", "q"]})),
        ("T", s),
    ];
    let mut parsed = Vec::new();
    for (k, v) in defs {
        match serde_json::from_value::<Schema>(v) {
            Ok(s) => parsed.push((k.to_string(), s)),
            Err(_) => return "badrequest".to_string(),
        }
    }
    let mut ts = TypeSpace::default();
    if let Err(e) = ts.add_ref_types(parsed) {
        return json!({"r": "err", "kind": tvh::err_kind(&e)}).to_string();
    }
    let dump = ts.verif_dump();
    let Some(e) = entry(&dump, "def:T") else {
        return json!({"r": "missing"}).to_string();
    };
    let mut d = describe(&dump, e);
    let o = d.as_object_mut().unwrap();
    o.insert("r".to_string(), json!("ok"));
    o.insert("named".to_string(), json!(e["kind"] != "newtype" || !e["constraints"].is_null()));
    d.to_string()
}

fn main() {
    tvh::run_lines(handle)
}

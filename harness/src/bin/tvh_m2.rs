//! M2: canonical summary of generated source.
//!
//! Request: one JSON *string* per line holding Rust source text (the `to_stream()` output of
//! typify, pretty-printed or raw tokens). Answer: one line of JSON, either
//! `{"parse_error": "<msg>"}` or
//! `{"items": [ITEM..], "builders": [..], "default_fns": [..], "error_type": bool, "other": [..]}`.
//!
//! Rendering rules (shared with the Lean printer; compared after json.loads / dumps(sort_keys)):
//! * token text (types, paths, serde arguments) is the concatenation of the tokens with no
//!   separators at all, i.e. `to_string()` with every whitespace outside literals removed;
//!   literals are printed exactly as written (`Literal::to_string`). Trailing commas (which
//!   prettyplease inserts when it breaks a long generic-argument list or tuple) are dropped,
//!   except the comma of a 1-tuple `(T,)`; so pretty-printed and raw-token input agree.
//! * items, builders, default_fns, impls are sorted by byte order; impls are de-duplicated.
use proc_macro2::{Delimiter, TokenStream, TokenTree};
use quote::ToTokens;
use serde_json::{json, Map, Value};
use syn::punctuated::Punctuated;
use syn::{
    Attribute, Expr, Fields, ImplItem, Item, ItemImpl, Lit, Meta, Pat, Stmt, Token, Type,
    Visibility,
};

const STRIP: [&str; 6] = [
    "::std::convert::",
    "::std::str::",
    "::std::fmt::",
    "::std::default::",
    "::std::ops::",
    "::serde::",
];

fn is_punct(tt: Option<&TokenTree>, c: char) -> bool {
    matches!(tt, Some(TokenTree::Punct(p)) if p.as_char() == c)
}

/// Concatenate all tokens without separators (whitespace-free rendering).
///
/// Trailing commas are the one thing a pretty-printer adds or drops when it re-flows a long
/// type, so they are normalised away: a `,` directly before a closing `>` or at the end of a
/// delimited group is dropped, except for the comma of a 1-tuple `(T,)` (a parenthesised group
/// whose only comma outside `<..>` is the trailing one).
fn squash_stream(ts: TokenStream, in_paren: bool, out: &mut String) {
    let toks: Vec<TokenTree> = ts.into_iter().collect();
    let mut angle: i32 = 0; // `<`..`>` nesting inside this group
    let mut commas0 = 0usize; // commas seen at angle depth 0
    for (i, tt) in toks.iter().enumerate() {
        match tt {
            TokenTree::Group(g) => {
                let (open, close, paren) = match g.delimiter() {
                    Delimiter::Parenthesis => ("(", ")", true),
                    Delimiter::Brace => ("{", "}", false),
                    Delimiter::Bracket => ("[", "]", false),
                    Delimiter::None => ("", "", false),
                };
                out.push_str(open);
                squash_stream(g.stream(), paren, out);
                out.push_str(close);
            }
            TokenTree::Ident(id) => out.push_str(&id.to_string()),
            TokenTree::Literal(l) => out.push_str(&l.to_string()),
            TokenTree::Punct(p) => {
                let c = p.as_char();
                let prev = if i > 0 { toks.get(i - 1) } else { None };
                match c {
                    '<' => angle += 1,
                    // not the `>` of `->` / `=>`
                    '>' if !(is_punct(prev, '-') || is_punct(prev, '=')) => {
                        angle = (angle - 1).max(0)
                    }
                    ',' => {
                        if angle == 0 {
                            commas0 += 1;
                        }
                        let last = i + 1 == toks.len();
                        if is_punct(toks.get(i + 1), '>') {
                            continue;
                        }
                        if last && !(in_paren && commas0 == 1) {
                            continue;
                        }
                    }
                    _ => {}
                }
                out.push(c);
            }
        }
    }
}

fn squash<T: ToTokens>(t: &T) -> String {
    let mut s = String::new();
    squash_stream(t.to_token_stream(), false, &mut s);
    s
}

fn is_pub(vis: &Visibility) -> bool {
    matches!(vis, Visibility::Public(_))
}

fn has_doc(attrs: &[Attribute]) -> bool {
    attrs.iter().any(|a| a.path().is_ident("doc"))
}

fn derives(attrs: &[Attribute]) -> Vec<String> {
    let mut out = Vec::new();
    for a in attrs.iter().filter(|a| a.path().is_ident("derive")) {
        match a.parse_args_with(Punctuated::<syn::Path, Token![,]>::parse_terminated) {
            Ok(paths) => out.extend(paths.iter().map(squash)),
            Err(_) => {
                if let Meta::List(l) = &a.meta {
                    out.push(squash(&l.tokens));
                }
            }
        }
    }
    out
}

fn serde_args(attrs: &[Attribute]) -> Vec<String> {
    let mut out = Vec::new();
    for a in attrs.iter().filter(|a| a.path().is_ident("serde")) {
        match a.parse_args_with(Punctuated::<Meta, Token![,]>::parse_terminated) {
            Ok(metas) => {
                for m in metas.iter() {
                    out.push(match m {
                        Meta::Path(p) => squash(p),
                        Meta::NameValue(nv) => format!("{}={}", squash(&nv.path), squash(&nv.value)),
                        Meta::List(l) => squash(l),
                    });
                }
            }
            Err(_) => {
                if let Meta::List(l) = &a.meta {
                    out.push(squash(&l.tokens));
                }
            }
        }
    }
    out
}

fn named_field(f: &syn::Field, name: String, force_private: bool) -> Value {
    json!({
        "name": name,
        "pub": !force_private && is_pub(&f.vis),
        "ty": squash(&f.ty),
        "serde": serde_args(&f.attrs),
        "doc": has_doc(&f.attrs),
    })
}

fn fields_json(fields: &Fields, force_private: bool) -> Vec<Value> {
    match fields {
        Fields::Named(n) => n
            .named
            .iter()
            .map(|f| named_field(f, f.ident.as_ref().unwrap().to_string(), force_private))
            .collect(),
        Fields::Unnamed(u) => u
            .unnamed
            .iter()
            .enumerate()
            .map(|(i, f)| named_field(f, i.to_string(), force_private))
            .collect(),
        Fields::Unit => Vec::new(),
    }
}

fn variant_json(v: &syn::Variant) -> Value {
    let (kind, tys, fields) = match &v.fields {
        Fields::Unit => ("unit", Vec::new(), Vec::new()),
        Fields::Unnamed(u) => (
            "tuple",
            u.unnamed.iter().map(|f| squash(&f.ty)).collect::<Vec<_>>(),
            Vec::new(),
        ),
        Fields::Named(_) => ("struct", Vec::new(), fields_json(&v.fields, true)),
    };
    json!({
        "name": v.ident.to_string(),
        "serde": serde_args(&v.attrs),
        "kind": kind,
        "tys": tys,
        "fields": fields,
    })
}

/// `Foo` for a plain single-identifier path type.
fn simple_type_name(ty: &Type) -> Option<String> {
    match ty {
        Type::Path(tp) if tp.qself.is_none() => tp.path.get_ident().map(|i| i.to_string()),
        Type::Paren(p) => simple_type_name(&p.elem),
        Type::Group(g) => simple_type_name(&g.elem),
        _ => None,
    }
}

fn strip_prefix(header: &str) -> &str {
    for p in STRIP {
        if let Some(rest) = header.strip_prefix(p) {
            return rest;
        }
    }
    header
}

/// The single generic type argument of the trait path's last segment, if it is a plain name.
fn trait_single_arg(path: &syn::Path) -> Option<String> {
    let seg = path.segments.last()?;
    if let syn::PathArguments::AngleBracketed(ab) = &seg.arguments {
        if ab.args.len() == 1 {
            if let syn::GenericArgument::Type(t) = &ab.args[0] {
                return simple_type_name(t);
            }
        }
    }
    None
}

fn last_ident(path: &syn::Path) -> Option<String> {
    path.segments.last().map(|s| s.ident.to_string())
}

fn fn_body_single_match(imp: &ItemImpl, fn_name: &str) -> Option<syn::ExprMatch> {
    for it in &imp.items {
        if let ImplItem::Fn(f) = it {
            if f.sig.ident == fn_name {
                if f.block.stmts.len() != 1 {
                    return None;
                }
                return match &f.block.stmts[0] {
                    Stmt::Expr(Expr::Match(m), _) => Some(m.clone()),
                    _ => None,
                };
            }
        }
    }
    None
}

struct WriteArgs {
    lit: syn::LitStr,
}
impl syn::parse::Parse for WriteArgs {
    fn parse(input: syn::parse::ParseStream) -> syn::Result<Self> {
        let _dst: Expr = input.parse()?;
        input.parse::<Token![,]>()?;
        let lit: syn::LitStr = input.parse()?;
        if input.peek(Token![,]) {
            input.parse::<Token![,]>()?;
        }
        if !input.is_empty() {
            return Err(input.error("extra write! arguments"));
        }
        Ok(WriteArgs { lit })
    }
}

/// `match .. { Self::A => write!(f, "lit"), .. }` -> [[A, lit], ..]
fn display_arms(imp: &ItemImpl) -> Option<Vec<Value>> {
    let m = fn_body_single_match(imp, "fmt")?;
    let mut out = Vec::new();
    for arm in &m.arms {
        if arm.guard.is_some() {
            return None;
        }
        let variant = match &arm.pat {
            Pat::Path(p) if p.qself.is_none() => last_ident(&p.path)?,
            Pat::Ident(i) if i.subpat.is_none() && i.by_ref.is_none() && i.mutability.is_none() => {
                i.ident.to_string()
            }
            _ => return None,
        };
        let mac = match &*arm.body {
            Expr::Macro(em) => &em.mac,
            // prettyplease wraps a long arm in a block: `=> { write!(..) }`
            Expr::Block(b) if b.block.stmts.len() == 1 => match &b.block.stmts[0] {
                syn::Stmt::Expr(Expr::Macro(em), None) => &em.mac,
                syn::Stmt::Macro(sm) => &sm.mac,
                _ => return None,
            },
            _ => return None,
        };
        if !mac.path.is_ident("write") {
            return None;
        }
        let args: WriteArgs = syn::parse2(mac.tokens.clone()).ok()?;
        out.push(json!([variant, args.lit.value()]));
    }
    Some(out)
}

/// `match value { "lit" => Ok(Self::X), .., _ => .. }` -> [[lit, X], ..]
fn fromstr_arms(imp: &ItemImpl) -> Option<Vec<Value>> {
    let m = fn_body_single_match(imp, "from_str")?;
    let mut out = Vec::new();
    for arm in &m.arms {
        if arm.guard.is_some() {
            return None;
        }
        let lit = match &arm.pat {
            Pat::Wild(_) => continue,
            Pat::Lit(pl) => match &pl.lit {
                Lit::Str(s) => s.value(),
                _ => return None,
            },
            _ => return None,
        };
        let call = match &*arm.body {
            Expr::Call(c) => c,
            _ => return None,
        };
        match &*call.func {
            Expr::Path(p) if p.path.is_ident("Ok") => {}
            _ => return None,
        }
        if call.args.len() != 1 {
            return None;
        }
        let variant = match &call.args[0] {
            Expr::Path(p) if p.qself.is_none() => last_ident(&p.path)?,
            _ => return None,
        };
        out.push(json!([lit, variant]));
    }
    Some(out)
}

struct ItemAcc {
    name: String,
    json: Map<String, Value>,
    impls: Vec<String>,
    display: Option<Vec<Value>>,
    fromstr: Option<Vec<Value>>,
}

fn item_base(
    name: String,
    kind: &str,
    vis: &Visibility,
    attrs: &[Attribute],
    fields: Vec<Value>,
    variants: Vec<Value>,
) -> ItemAcc {
    let mut m = Map::new();
    m.insert("name".into(), json!(name));
    m.insert("kind".into(), json!(kind));
    m.insert("pub".into(), json!(is_pub(vis)));
    m.insert("derives".into(), json!(derives(attrs)));
    m.insert("serde".into(), json!(serde_args(attrs)));
    m.insert("fields".into(), Value::Array(fields));
    m.insert("variants".into(), Value::Array(variants));
    ItemAcc {
        name,
        json: m,
        impls: Vec::new(),
        display: None,
        fromstr: None,
    }
}

fn other_entry(it: &Item) -> Option<String> {
    let s = match it {
        Item::Const(x) => format!("const:{}", x.ident),
        Item::ExternCrate(x) => format!("extern_crate:{}", x.ident),
        Item::Fn(x) => format!("fn:{}", x.sig.ident),
        Item::ForeignMod(_) => "foreign_mod:".to_string(),
        Item::Macro(x) => format!(
            "macro:{}",
            x.ident
                .as_ref()
                .map(|i| i.to_string())
                .unwrap_or_else(|| squash(&x.mac.path))
        ),
        Item::Mod(x) => format!("mod:{}", x.ident),
        Item::Static(x) => format!("static:{}", x.ident),
        Item::Trait(x) => format!("trait:{}", x.ident),
        Item::TraitAlias(x) => format!("trait_alias:{}", x.ident),
        Item::Type(x) => format!("type:{}", x.ident),
        Item::Union(x) => format!("union:{}", x.ident),
        Item::Impl(x) => format!("impl:{}", squash(&x.self_ty)),
        Item::Use(_) => return None,
        Item::Struct(x) => format!("struct:{}", x.ident),
        Item::Enum(x) => format!("enum:{}", x.ident),
        Item::Verbatim(_) => "verbatim:".to_string(),
        _ => "unknown:".to_string(),
    };
    Some(s)
}

fn summarize(file: &syn::File) -> Value {
    let mut items: Vec<ItemAcc> = Vec::new();
    let mut builders: Vec<String> = Vec::new();
    let mut default_fns: Vec<String> = Vec::new();
    let mut error_type = false;
    let mut other: Vec<String> = Vec::new();

    // Pass 1: the listed items.
    for it in &file.items {
        match it {
            Item::Struct(s) => {
                let newtype = matches!(&s.fields, Fields::Unnamed(u) if u.unnamed.len() == 1);
                let kind = if newtype { "newtype" } else { "struct" };
                items.push(item_base(
                    s.ident.to_string(),
                    kind,
                    &s.vis,
                    &s.attrs,
                    fields_json(&s.fields, false),
                    Vec::new(),
                ));
            }
            Item::Enum(e) => {
                items.push(item_base(
                    e.ident.to_string(),
                    "enum",
                    &e.vis,
                    &e.attrs,
                    Vec::new(),
                    e.variants.iter().map(variant_json).collect(),
                ));
            }
            _ => {}
        }
    }

    // Pass 2: everything else.
    for it in &file.items {
        match it {
            Item::Struct(_) | Item::Enum(_) | Item::Use(_) => {}
            Item::Mod(m)
                if m.content.is_some()
                    && (m.ident == "error" || m.ident == "builder" || m.ident == "defaults") =>
            {
                let inner = &m.content.as_ref().unwrap().1;
                for x in inner {
                    match (m.ident.to_string().as_str(), x) {
                        ("error", Item::Struct(s)) => {
                            if s.ident == "ConversionError" && is_pub(&s.vis) && is_pub(&m.vis) {
                                error_type = true;
                            }
                        }
                        ("builder", Item::Struct(s)) => builders.push(s.ident.to_string()),
                        ("defaults", Item::Fn(f)) => default_fns.push(f.sig.ident.to_string()),
                        _ => {}
                    }
                }
            }
            Item::Impl(imp) => {
                let self_name = simple_type_name(&imp.self_ty);
                let mut attributed = false;
                match &imp.trait_ {
                    Some((_, path, _)) => {
                        let full = squash(path);
                        let header = strip_prefix(&full).to_string();
                        // (a) trait impl for a listed item
                        if let Some(sn) = &self_name {
                            let is_display = header == "Display";
                            let is_fromstr = header == "FromStr";
                            let h = if header == format!("From<&{}>", sn) {
                                "From<&Self>".to_string()
                            } else {
                                header.clone()
                            };
                            for acc in items.iter_mut().filter(|a| &a.name == sn) {
                                attributed = true;
                                acc.impls.push(h.clone());
                                if is_display && acc.display.is_none() {
                                    acc.display = display_arms(imp);
                                }
                                if is_fromstr && acc.fromstr.is_none() {
                                    acc.fromstr = fromstr_arms(imp);
                                }
                            }
                        }
                        // (b) `impl Trait<Foo> for Other`
                        if let Some(arg) = trait_single_arg(path) {
                            if self_name.as_deref() != Some(arg.as_str()) {
                                let h = format!("for:{}:{}", squash(&imp.self_ty), header);
                                for acc in items.iter_mut().filter(|a| a.name == arg) {
                                    attributed = true;
                                    acc.impls.push(h.clone());
                                }
                            }
                        }
                    }
                    None => {
                        if let Some(sn) = &self_name {
                            let fns: Vec<String> = imp
                                .items
                                .iter()
                                .filter_map(|ii| match ii {
                                    ImplItem::Fn(f) if is_pub(&f.vis) => {
                                        Some(format!("inherent:{}", f.sig.ident))
                                    }
                                    _ => None,
                                })
                                .collect();
                            for acc in items.iter_mut().filter(|a| &a.name == sn) {
                                attributed = true;
                                acc.impls.extend(fns.iter().cloned());
                            }
                        }
                    }
                }
                if !attributed {
                    other.extend(other_entry(it));
                }
            }
            _ => other.extend(other_entry(it)),
        }
    }

    items.sort_by(|a, b| a.name.as_bytes().cmp(b.name.as_bytes()));
    builders.sort();
    default_fns.sort();

    let items_json: Vec<Value> = items
        .into_iter()
        .map(|mut acc| {
            acc.impls.sort();
            acc.impls.dedup();
            acc.json.insert("impls".into(), json!(acc.impls));
            if let Some(d) = acc.display {
                acc.json.insert("display_arms".into(), Value::Array(d));
            }
            if let Some(d) = acc.fromstr {
                acc.json.insert("fromstr_arms".into(), Value::Array(d));
            }
            Value::Object(acc.json)
        })
        .collect();

    json!({
        "items": items_json,
        "builders": builders,
        "default_fns": default_fns,
        "error_type": error_type,
        "other": other,
    })
}

fn handle(line: &str) -> String {
    let src: String = match serde_json::from_str(line) {
        Ok(s) => s,
        Err(e) => return json!({ "parse_error": format!("request is not a JSON string: {}", e) }).to_string(),
    };
    match syn::parse_str::<syn::File>(&src) {
        Ok(file) => summarize(&file).to_string(),
        Err(e) => json!({ "parse_error": e.to_string() }).to_string(),
    }
}

fn main() {
    tvh::run_lines(handle);
}

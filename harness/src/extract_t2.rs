//! T2 (C10/C11/C17): the string-format table of `convert_string` -> Generated/StringFormats.lean
//!   one row per `Some("<format>")` arm of the outer `match format...` of `TypeSpace::convert_string`:
//!     the path literal and the impl list given to `TypeEntry::new_native(..)` in the arm,
//!     or "String" when the arm yields `TypeEntryDetails::String`, or "?" when neither is recognised;
//!     plus every `self.uses_<crate> = true` assignment in the arm
//!   the catch-all arm (`Some(<ident>)`) gives the fallback row
use std::fmt::Write as _;
use syn::visit::Visit;

fn fail(msg: &str) -> ! {
    eprintln!("extract: shape not found: {}", msg);
    std::process::exit(3);
}

struct FnFinder<'a> {
    name: &'a str,
    found: Option<syn::ImplItemFn>,
}
impl<'ast, 'a> Visit<'ast> for FnFinder<'a> {
    fn visit_impl_item_fn(&mut self, f: &'ast syn::ImplItemFn) {
        if f.sig.ident == self.name && self.found.is_none() {
            self.found = Some(f.clone());
        }
        syn::visit::visit_impl_item_fn(self, f);
    }
}

/// the first `match` whose scrutinee mentions `format`
struct MatchFinder {
    found: Option<syn::ExprMatch>,
}
impl<'ast> Visit<'ast> for MatchFinder {
    fn visit_expr_match(&mut self, m: &'ast syn::ExprMatch) {
        if self.found.is_none() {
            let s = quote::quote!(#m).to_string();
            let scrut = &m.expr;
            let sc = quote::quote!(#scrut).to_string();
            if sc.contains("format") {
                let _ = s;
                self.found = Some(m.clone());
                return;
            }
        }
        syn::visit::visit_expr_match(self, m);
    }
}

#[derive(Default)]
struct ArmFacts {
    native: Vec<(String, Vec<String>)>,
    uses: Vec<String>,
    string_details: bool,
    other_details: Vec<String>,
}
impl<'ast> Visit<'ast> for ArmFacts {
    fn visit_expr_call(&mut self, c: &'ast syn::ExprCall) {
        if let syn::Expr::Path(p) = &*c.func {
            let segs: Vec<String> = p.path.segments.iter().map(|s| s.ident.to_string()).collect();
            if segs.last().map(String::as_str) == Some("new_native") {
                let path = match c.args.first() {
                    Some(syn::Expr::Lit(syn::ExprLit { lit: syn::Lit::Str(s), .. })) => s.value(),
                    _ => "?".to_string(),
                };
                let mut impls = Vec::new();
                let mut ok = true;
                match c.args.iter().nth(1) {
                    Some(syn::Expr::Reference(r)) => match &*r.expr {
                        syn::Expr::Array(a) => {
                            for e in &a.elems {
                                match e {
                                    syn::Expr::Path(p) => impls.push(p.path.segments.last().unwrap().ident.to_string()),
                                    _ => ok = false,
                                }
                            }
                        }
                        _ => ok = false,
                    },
                    _ => ok = false,
                }
                if !ok {
                    impls.push("?".to_string());
                }
                self.native.push((path, impls));
            }
            if segs.last().map(String::as_str) == Some("new_native_params") {
                self.native.push(("?".to_string(), vec!["?".to_string()]));
            }
        }
        syn::visit::visit_expr_call(self, c);
    }
    fn visit_expr_assign(&mut self, a: &'ast syn::ExprAssign) {
        if let syn::Expr::Field(f) = &*a.left {
            if let syn::Member::Named(id) = &f.member {
                let n = id.to_string();
                if n.starts_with("uses_") {
                    if let syn::Expr::Lit(syn::ExprLit { lit: syn::Lit::Bool(b), .. }) = &*a.right {
                        if b.value {
                            self.uses.push(n["uses_".len()..].to_string());
                        }
                    }
                }
            }
        }
        syn::visit::visit_expr_assign(self, a);
    }
    fn visit_expr_path(&mut self, p: &'ast syn::ExprPath) {
        let segs: Vec<String> = p.path.segments.iter().map(|s| s.ident.to_string()).collect();
        if segs.len() == 2 && segs[0] == "TypeEntryDetails" {
            if segs[1] == "String" {
                self.string_details = true;
            } else {
                self.other_details.push(segs[1].clone());
            }
        }
        syn::visit::visit_expr_path(self, p);
    }
}

/// the string literals of a pattern `Some("a")`, `Some("a") | Some("b")`, `Some("a" | "b")`; None for anything else
fn pat_formats(p: &syn::Pat, out: &mut Vec<String>) -> bool {
    match p {
        syn::Pat::Or(o) => o.cases.iter().all(|c| pat_formats(c, out)),
        syn::Pat::Paren(pp) => pat_formats(&pp.pat, out),
        syn::Pat::TupleStruct(ts) if ts.path.is_ident("Some") && ts.elems.len() == 1 => pat_lits(&ts.elems[0], out),
        _ => false,
    }
}
fn pat_lits(p: &syn::Pat, out: &mut Vec<String>) -> bool {
    match p {
        syn::Pat::Lit(syn::ExprLit { lit: syn::Lit::Str(s), .. }) => {
            out.push(s.value());
            true
        }
        syn::Pat::Or(o) => o.cases.iter().all(|c| pat_lits(c, out)),
        syn::Pat::Paren(pp) => pat_lits(&pp.pat, out),
        _ => false,
    }
}
fn is_catch_all(p: &syn::Pat) -> bool {
    match p {
        syn::Pat::TupleStruct(ts) if ts.path.is_ident("Some") && ts.elems.len() == 1 => {
            matches!(&ts.elems[0], syn::Pat::Ident(_) | syn::Pat::Wild(_))
        }
        syn::Pat::Wild(_) => true,
        _ => false,
    }
}

fn row(fmt: &str, facts: &ArmFacts) -> String {
    let (path, impls) = if facts.native.len() == 1 {
        facts.native[0].clone()
    } else if facts.native.is_empty() && facts.string_details && facts.other_details.is_empty() {
        ("String".to_string(), vec![])
    } else {
        ("?".to_string(), vec!["?".to_string()])
    };
    let q = |v: &Vec<String>| v.iter().map(|s| format!("{:?}", s)).collect::<Vec<_>>().join(", ");
    format!("⟨{:?}, {:?}, [{}], [{}]⟩", fmt, path, q(&impls), q(&facts.uses))
}

pub fn t2_string_formats(repo: &str, outdir: &str) {
    let src = std::fs::read_to_string(format!("{}/typify-impl/src/convert.rs", repo)).unwrap();
    let file = syn::parse_file(&src).unwrap();
    let mut ff = FnFinder { name: "convert_string", found: None };
    ff.visit_file(&file);
    let Some(f) = ff.found else { fail("fn convert_string") };
    let mut mf = MatchFinder { found: None };
    mf.visit_impl_item_fn(&f);
    let Some(m) = mf.found else { fail("convert_string: match on format") };
    let mut rows = Vec::new();
    let mut fallback = None;
    let mut guarded = Vec::new();
    for arm in &m.arms {
        if matches!(&arm.pat, syn::Pat::Ident(i) if i.ident == "None") || matches!(&arm.pat, syn::Pat::Path(p) if p.path.is_ident("None")) {
            continue;
        }
        let mut facts = ArmFacts::default();
        facts.visit_expr(&arm.body);
        let mut fmts = Vec::new();
        if pat_formats(&arm.pat, &mut fmts) {
            for fm in fmts {
                if arm.guard.is_some() {
                    guarded.push(fm.clone());
                }
                rows.push(row(&fm, &facts));
            }
        } else if is_catch_all(&arm.pat) && arm.guard.is_none() {
            fallback = Some(row("*", &facts));
        } else {
            // a pattern this translator does not understand: recorded so that the table theorem fails
            let p = &arm.pat;
            rows.push(row(&format!("?{}", quote::quote!(#p)), &ArmFacts { native: vec![("?".into(), vec!["?".into()])], ..Default::default() }));
        }
    }
    let Some(fallback) = fallback else { fail("convert_string: catch-all arm") };
    let mut out = String::new();
    out.push_str("-- GENERATED by /verif/harness/src/extract_t2.rs from /repo source. Do not edit.\n");
    out.push_str("import TypifyModel.Model.Natives\n\nnamespace TypifyModel.Generated\nopen TypifyModel\n\n");
    writeln!(out, "/-- T2: convert.rs `convert_string`, one row per recognised `format` -/").unwrap();
    writeln!(out, "def stringFormats : List StrFormatRow := [").unwrap();
    for (i, r) in rows.iter().enumerate() {
        writeln!(out, "  {}{}", r, if i + 1 < rows.len() { "," } else { "" }).unwrap();
    }
    writeln!(out, "]\n").unwrap();
    writeln!(out, "/-- the catch-all arm (`Some(unhandled)`) -/").unwrap();
    writeln!(out, "def stringFormatFallback : StrFormatRow := {}\n", fallback).unwrap();
    let q = guarded.iter().map(|s| format!("{:?}", s)).collect::<Vec<_>>().join(", ");
    writeln!(out, "/-- arms carrying an `if` guard (the row then does not describe every schema with that format) -/").unwrap();
    writeln!(out, "def stringFormatsGuarded : List String := [{}]\n", q).unwrap();
    out.push_str("end TypifyModel.Generated\n");
    let path = format!("{}/StringFormats.lean", outdir);
    if std::fs::read_to_string(&path).ok().as_deref() != Some(out.as_str()) {
        std::fs::write(&path, out).unwrap();
    }
}

//! Shared pieces of the implementation-side harness. One binary per slice in src/bin/tvh_<slice>.rs.
use std::io::{BufRead, Write};
use typify_impl::Error;

pub fn err_kind(e: &Error) -> &'static str {
    match e {
        Error::InvalidValue => "InvalidValue",
        Error::InvalidTypeId => "InvalidTypeId",
        Error::InvalidSchema { .. } => "InvalidSchema",
        _ => "Other",
    }
}

/// Line protocol: one request per stdin line, one answer per stdout line; a panic in the
/// implementation is the answer `panic`, never a crash of the harness.
pub fn run_lines(handler: fn(&str) -> String) {
    std::panic::set_hook(Box::new(|_| {}));
    let stdin = std::io::stdin();
    let stdout = std::io::stdout();
    let mut out = std::io::BufWriter::new(stdout.lock());
    for line in stdin.lock().lines() {
        let line = line.unwrap();
        if line.trim().is_empty() {
            continue;
        }
        let ans = match std::panic::catch_unwind(|| handler(&line)) {
            Ok(s) => s,
            Err(_) => "panic".to_string(),
        };
        writeln!(out, "{}", ans).unwrap();
    }
}

//! T11 (C01): the arms of `match schema { .. }` in typify-impl/src/convert.rs `convert_schema_object`, in source order ->
//! Generated/DispatchArms.lean. Per arm: how each field of `SchemaObject` is matched (`None`, `Some(..)`, anything), the guard
//! as written, and the `self.` methods the body calls. The nested `match subschemas.as_ref()` over `SubschemaValidation`
//! is emitted the same way. `Model/Dispatch.lean` is the hand-written reading of this match; `Proofs/DispatchSource.lean`
//! proves that reading equal to the table for every combination of present / absent field groups.
use syn::visit::Visit;

const FIELDS: [&str; 10] = [
    "instance_type", "format", "enum_values", "const_value", "subschemas", "number", "string", "array", "object", "reference",
];
const SUB_FIELDS: [&str; 7] = ["all_of", "any_of", "one_of", "not", "if_schema", "then_schema", "else_schema"];

fn fail(msg: &str) -> ! {
    eprintln!("extract: shape not found: {}", msg);
    std::process::exit(3);
}

fn squeeze(s: &str) -> String {
    s.split_whitespace().collect::<Vec<_>>().join(" ")
}

fn lean_str(s: &str) -> String {
    let mut o = String::from("\"");
    for c in s.chars() {
        match c {
            '"' => o.push_str("\\\""),
            '\\' => o.push_str("\\\\"),
            '\n' => o.push_str("\\n"),
            c => o.push(c),
        }
    }
    o.push('"');
    o
}

fn last_seg(p: &syn::Path) -> String {
    p.segments.last().map(|s| s.ident.to_string()).unwrap_or_default()
}

/// how a field is matched: `.isNone`, `.isSome`, `.single`, `.vec`, `.any`; anything else is `.other` (no theorem covers it)
fn classify(p: &syn::Pat) -> &'static str {
    match p {
        syn::Pat::Wild(_) => ".any",
        syn::Pat::Ident(pi) => {
            if let Some((_, sub)) = &pi.subpat {
                classify(sub)
            } else if pi.ident == "None" {
                ".isNone"
            } else {
                ".any"
            }
        }
        syn::Pat::Path(pp) => {
            if last_seg(&pp.path) == "None" {
                ".isNone"
            } else {
                ".other"
            }
        }
        syn::Pat::TupleStruct(ts) => {
            if last_seg(&ts.path) != "Some" || ts.elems.len() != 1 {
                return ".other";
            }
            match &ts.elems[0] {
                syn::Pat::TupleStruct(inner) => match last_seg(&inner.path).as_str() {
                    "Single" => ".single",
                    "Vec" => ".vec",
                    _ => ".other",
                },
                syn::Pat::Wild(_) => ".isSome",
                syn::Pat::Ident(pi) if pi.subpat.is_none() && pi.ident != "None" => ".isSome",
                _ => ".other",
            }
        }
        _ => ".other",
    }
}

struct Calls(Vec<String>);
impl<'ast> Visit<'ast> for Calls {
    fn visit_expr_method_call(&mut self, m: &'ast syn::ExprMethodCall) {
        if let syn::Expr::Path(p) = &*m.receiver {
            if p.path.is_ident("self") {
                let n = m.method.to_string();
                if !self.0.contains(&n) {
                    self.0.push(n);
                }
            }
        }
        syn::visit::visit_expr_method_call(self, m);
    }
    fn visit_macro(&mut self, m: &'ast syn::Macro) {
        let n = last_seg(&m.path);
        if n == "todo" || n == "unimplemented" || n == "unreachable" {
            let n = format!("{}!", n);
            if !self.0.contains(&n) {
                self.0.push(n);
            }
        }
    }
}

fn row(pat: &syn::Pat, names: &[&str], strukt: &str) -> Option<Vec<&'static str>> {
    match pat {
        syn::Pat::Struct(ps) if last_seg(&ps.path) == strukt => {
            let mut out = Vec::new();
            for f in names {
                let hit = ps.fields.iter().find(|fp| matches!(&fp.member, syn::Member::Named(i) if i == f));
                out.push(match hit {
                    Some(fp) => classify(&fp.pat),
                    None if ps.rest.is_some() => ".any",
                    None => return None,
                });
            }
            // a field this table does not know about is only harmless when it is not constrained
            for fp in ps.fields.iter() {
                if let syn::Member::Named(i) = &fp.member {
                    let n = i.to_string();
                    if !names.contains(&n.as_str()) && classify(&fp.pat) != ".any" {
                        return None;
                    }
                }
            }
            Some(out)
        }
        // a bare binding / wildcard as the last arm
        syn::Pat::Ident(pi) if pi.subpat.is_none() => Some(names.iter().map(|_| ".any").collect()),
        syn::Pat::Wild(_) => Some(names.iter().map(|_| ".any").collect()),
        _ => None,
    }
}

struct FindFn<'a> {
    found: Option<&'a syn::ImplItemFn>,
}
impl<'ast> Visit<'ast> for FindFn<'ast> {
    fn visit_impl_item_fn(&mut self, f: &'ast syn::ImplItemFn) {
        if f.sig.ident == "convert_schema_object" && self.found.is_none() {
            self.found = Some(f);
        }
    }
}

struct FindMatch<'a> {
    on: &'static str,
    found: Option<&'a syn::ExprMatch>,
}
impl<'ast> Visit<'ast> for FindMatch<'ast> {
    fn visit_expr_match(&mut self, m: &'ast syn::ExprMatch) {
        if self.found.is_none() {
            let scrut = squeeze(&quote::ToTokens::to_token_stream(&*m.expr).to_string());
            if scrut == self.on {
                self.found = Some(m);
                return;
            }
        }
        syn::visit::visit_expr_match(self, m);
    }
}

pub fn t11_dispatch(repo: &str, outdir: &str) {
    let path = format!("{}/typify-impl/src/convert.rs", repo);
    let src = std::fs::read_to_string(&path).unwrap_or_else(|_| fail(&path));
    let file = syn::parse_file(&src).unwrap_or_else(|_| fail("convert.rs does not parse"));
    let mut ff = FindFn { found: None };
    ff.visit_file(&file);
    let f = ff.found.unwrap_or_else(|| fail("fn convert_schema_object"));
    let mut fm = FindMatch { on: "schema", found: None };
    fm.visit_block(&f.block);
    let m = fm.found.unwrap_or_else(|| fail("match schema { .. } in convert_schema_object"));
    let mut out = String::new();
    out.push_str("-- GENERATED by /verif/harness/src/extract_t11.rs from /repo/typify-impl/src/convert.rs. Do not edit.\n");
    out.push_str("import TypifyModel.Model.DispatchSrc\n\nnamespace TypifyModel.Generated\nopen TypifyModel.Dispatch\n\n");
    out.push_str("/-- T11: the arms of `match schema` in `convert_schema_object`, in source order -/\n");
    out.push_str("def dispatchArms : List SrcArm := [\n");
    let mut sub_rows: Vec<String> = Vec::new();
    let n = m.arms.len();
    for (k, arm) in m.arms.iter().enumerate() {
        let r = row(&arm.pat, &FIELDS, "SchemaObject").unwrap_or_else(|| fail(&format!("arm {} of match schema: pattern not understood", k)));
        let guard = arm.guard.as_ref().map(|(_, g)| squeeze(&quote::ToTokens::to_token_stream(&**g).to_string())).unwrap_or_default();
        // the nested match over the subschema keywords
        let mut fsub = FindMatch { on: "subschemas . as_ref ()", found: None };
        fsub.visit_expr(&arm.body);
        let mut calls = Calls(Vec::new());
        if let Some(sm) = fsub.found {
            for (j, sa) in sm.arms.iter().enumerate() {
                let sr = row(&sa.pat, &SUB_FIELDS, "SubschemaValidation")
                    .unwrap_or_else(|| fail(&format!("arm {} of match subschemas.as_ref(): pattern not understood", j)));
                if sa.guard.is_some() {
                    fail("guard in match subschemas.as_ref()");
                }
                let mut c = Calls(Vec::new());
                c.visit_expr(&sa.body);
                sub_rows.push(format!(
                    "  ⟨[{}], [{}]⟩",
                    sr.join(", "),
                    c.0.iter().map(|s| lean_str(s)).collect::<Vec<_>>().join(", ")
                ));
            }
            calls.0.push("match subschemas".to_string());
        } else {
            calls.visit_expr(&arm.body);
        }
        out.push_str(&format!(
            "  ⟨{}, {}, [{}]⟩{}\n",
            r.join(", "),
            lean_str(&guard),
            calls.0.iter().map(|s| lean_str(s)).collect::<Vec<_>>().join(", "),
            if k + 1 < n { "," } else { "" }
        ));
    }
    out.push_str("]\n\n/-- the arms of the nested `match subschemas.as_ref()` (fields all_of, any_of, one_of, not, if, then, else) -/\n");
    out.push_str("def subschemaArms : List SubArm := [\n");
    out.push_str(&sub_rows.join(",\n"));
    out.push_str("\n]\n\nend TypifyModel.Generated\n");
    std::fs::create_dir_all(outdir).unwrap();
    let p = format!("{}/DispatchArms.lean", outdir);
    if std::fs::read_to_string(&p).ok().as_deref() != Some(out.as_str()) {
        std::fs::write(&p, out).unwrap();
    }
}

//! T10 (C11 / C05): the trait-impl TEMPLATES typify emits — every `impl <Trait> for ..` inside a `quote!` of
//! typify-impl/src/type_entry.rs, with the token text of each method body -> Generated/Templates.lean.
//!
//! The run-time models of the string conversions (`Model/StrConv.lean`) assume what these templates do: a newtype's
//! `Display` forwards to the inner value's `Display`, an untagged enum's to the variant's, a simple enum's writes the
//! variant's string; `FromStr` tries in declaration order; `TryFrom<&str>` / `<&String>` / `<String>` go through `parse()`.
//! The table pins the emitted text to what the models assume (`Proofs/C11Templates.lean`).
use proc_macro2::{Delimiter, TokenStream, TokenTree};
use syn::visit::Visit;

const FILE: &str = "type_entry.rs";
const TRAITS: [&str; 4] = ["Display", "FromStr", "TryFrom", "Deref"];

fn fail(msg: &str) -> ! {
    eprintln!("extract: shape not found: {}", msg);
    std::process::exit(3);
}

fn squeeze(s: &str) -> String {
    s.split_whitespace().collect::<Vec<_>>().join(" ")
}

fn lean_str(s: &str) -> String {
    let mut o = String::from("\"");
    for c in s.chars() {
        match c {
            '"' => o.push_str("\\\""),
            '\\' => o.push_str("\\\\"),
            '\n' => o.push_str("\\n"),
            c => o.push(c),
        }
    }
    o.push('"');
    o
}

/// rows of one token stream: (trait with its arguments, method, body)
fn scan(ts: TokenStream, rows: &mut Vec<(String, String, String)>) {
    let toks: Vec<TokenTree> = ts.into_iter().collect();
    let mut i = 0;
    while i < toks.len() {
        if let TokenTree::Ident(id) = &toks[i] {
            if id == "impl" {
                // header: tokens up to the brace group; the trait is what stands before `for`
                let mut j = i + 1;
                let mut header = Vec::new();
                while j < toks.len() {
                    if let TokenTree::Group(g) = &toks[j] {
                        if g.delimiter() == Delimiter::Brace {
                            break;
                        }
                    }
                    header.push(toks[j].to_string());
                    j += 1;
                }
                if let (Some(pos), Some(TokenTree::Group(body))) = (header.iter().position(|t| t == "for"), toks.get(j)) {
                    let tr = squeeze(&toks[i + 1..i + 1 + pos].iter().cloned().collect::<TokenStream>().to_string());
                    if header[..pos].iter().any(|t| TRAITS.contains(&t.as_str())) {
                        let inner: Vec<TokenTree> = body.stream().into_iter().collect();
                        let mut k = 0;
                        while k < inner.len() {
                            if let TokenTree::Ident(f) = &inner[k] {
                                if f == "fn" {
                                    let name = inner.get(k + 1).map(|t| t.to_string()).unwrap_or_default();
                                    let mut m = k + 2;
                                    while m < inner.len() {
                                        if let TokenTree::Group(g) = &inner[m] {
                                            if g.delimiter() == Delimiter::Brace {
                                                rows.push((tr.clone(), name.clone(), squeeze(&g.stream().to_string())));
                                                break;
                                            }
                                        }
                                        m += 1;
                                    }
                                    k = m;
                                }
                            }
                            k += 1;
                        }
                    }
                }
                i = j;
            }
        }
        if let Some(TokenTree::Group(g)) = toks.get(i) {
            scan(g.stream(), rows);
        }
        i += 1;
    }
}

struct V {
    rows: Vec<(String, String, String)>,
    in_test: u32,
    seen: u32,
}
impl<'ast> Visit<'ast> for V {
    fn visit_item_mod(&mut self, m: &'ast syn::ItemMod) {
        let t = m.attrs.iter().any(|a| a.path().is_ident("cfg") && quote::ToTokens::to_token_stream(a).to_string().contains("test"));
        if t {
            self.in_test += 1;
        }
        syn::visit::visit_item_mod(self, m);
        if t {
            self.in_test -= 1;
        }
    }
    fn visit_macro(&mut self, m: &'ast syn::Macro) {
        self.seen += 1;
        if self.in_test == 0 && m.path.segments.last().map_or(false, |s| s.ident == "quote") {
            scan(m.tokens.clone(), &mut self.rows);
        }
        syn::visit::visit_macro(self, m);
    }
}

pub fn t10_templates(repo: &str, outdir: &str) {
    let path = format!("{}/typify-impl/src/{}", repo, FILE);
    let src = std::fs::read_to_string(&path).unwrap_or_else(|_| fail(&path));
    let file = syn::parse_file(&src).unwrap_or_else(|_| fail("type_entry.rs does not parse"));
    let mut v = V { rows: Vec::new(), in_test: 0, seen: 0 };
    v.visit_file(&file);
    if v.rows.is_empty() {
        eprintln!("macros seen: {}", v.seen);
        fail("no impl template found in type_entry.rs");
    }
    let mut out = String::new();
    out.push_str("-- GENERATED by /verif/harness/src/extract_t10.rs from /repo/typify-impl/src/type_entry.rs. Do not edit.\n");
    out.push_str("namespace TypifyModel.Generated\n\n");
    out.push_str("/-- T10: (trait name, what it converts from, trait as written, method, token text of the body) of every Display / FromStr /\n    TryFrom / Deref impl typify emits, in source order -/\n");
    out.push_str("def implTemplates : List (String × String × String × String × String) := [\n");
    let n = v.rows.len();
    for (k, (tr, f, body)) in v.rows.iter().enumerate() {
        let name = TRAITS.iter().find(|t| tr.split(|c: char| !c.is_alphanumeric() && c != '_').any(|w| w == **t)).copied().unwrap_or("?");
        let from = if name != "TryFrom" {
            ""
        } else if tr.ends_with("<& str >") {
            "&str"
        } else if tr.ends_with("<& String >") || tr.ends_with("<&:: std :: string :: String >") {
            "&String"
        } else if tr.ends_with("< String >") || tr.ends_with("<:: std :: string :: String >") {
            "String"
        } else {
            "other"
        };
        out.push_str(&format!(
            "  ({}, {}, {}, {}, {}){}\n",
            lean_str(name), lean_str(from), lean_str(tr), lean_str(f), lean_str(body), if k + 1 < n { "," } else { "" }
        ));
    }
    out.push_str("]\n\nend TypifyModel.Generated\n");
    std::fs::create_dir_all(outdir).unwrap();
    let p = format!("{}/Templates.lean", outdir);
    if std::fs::read_to_string(&p).ok().as_deref() != Some(out.as_str()) {
        std::fs::write(&p, out).unwrap();
    }
}

use typify_impl::Error;

pub fn err_kind(e: &Error) -> &'static str {
    match e {
        Error::InvalidValue => "InvalidValue",
        Error::InvalidTypeId => "InvalidTypeId",
        Error::InvalidSchema { .. } => "InvalidSchema",
        _ => "Other",
    }
}

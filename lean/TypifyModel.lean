import TypifyModel.Model.IntTypes
import TypifyModel.Model.Integer
import TypifyModel.Generated.Tables

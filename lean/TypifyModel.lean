-- root: every model, proof and audit-free module (append new imports at the end)
import TypifyModel.Model.IntTypes
import TypifyModel.Model.Integer
import TypifyModel.Generated.Tables
import TypifyModel.Proofs.C10
import TypifyModel.Proofs.C10Findings
import TypifyModel.Model.Names
import TypifyModel.Proofs.C08
import TypifyModel.Proofs.C08Findings
import TypifyModel.Model.Cycles
import TypifyModel.Proofs.C07
import TypifyModel.Model.Json
import TypifyModel.Model.Ir
import TypifyModel.Model.Serde
import TypifyModel.Model.SerdeSer
import TypifyModel.Model.StrConv
import TypifyModel.Proofs.C11

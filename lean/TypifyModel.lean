-- root: every model, proof and audit-free module (append new imports at the end)
import TypifyModel.Model.IntTypes
import TypifyModel.Model.Integer
import TypifyModel.Generated.Tables
import TypifyModel.Proofs.C10
import TypifyModel.Proofs.C10Findings

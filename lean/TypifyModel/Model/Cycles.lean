/-! Model of `TypeSpace::break_cycles` and `get_child_ids` (typify-impl/src/cycles.rs:20-175) together
    with `id_to_box` / the `Box` arm of `assign_type` (typify-impl/src/lib.rs:930-964, 1006).

    The IR is abstracted to a graph: a node keeps its kind, the ORDERED child ids and the variant
    structure of enums; names, descriptions, defaults are dropped (the cutting never reads them).

    The Rust code is an explicit stack machine; `visit` below is the recursive depth-first form of
    it (a `Start` entry is a call, `Processing{children_ids}` is the loop over `desc` popped from the
    END, the final pop is the return).  The two are tied by the correspondence slice `c07`, which
    compares the exact set of edges that were boxed. -/
namespace TypifyModel.Cycles

/-- `VariantDetails` (type_entry.rs) reduced to ids. -/
inductive Variant where
  | simple
  | item (id : Nat)
  | tuple (ids : List Nat)
  | struct (ids : List Nat)
deriving Repr, DecidableEq, Inhabited

/-- `TypeEntryDetails` reduced to kind + ids.  `leaf` stands for every kind without type ids
    (Unit, Boolean, Integer, Float, String, JsonValue) and for `Native` (whose parameters are not
    visited by `get_child_ids`) and `Reference`. -/
inductive Node where
  | struct (props : List Nat)
  | newtype (inner : Nat)
  | enum (variants : List Variant)
  | option (id : Nat)
  | array (id : Nat) (len : Nat)
  | tuple (ids : List Nat)
  | box (id : Nat)
  | vec (id : Nat)
  | set (id : Nat)
  | map (key value : Nat)
  | leaf
deriving Repr, DecidableEq, Inhabited

def Variant.childIds : Variant → List Nat
  | .simple => []
  | .item i => [i]
  | .tuple is => is
  | .struct is => is

/-- `get_child_ids`: the by-value members, in the order the Rust function returns them.
    Box / Vec / Set / Map / Native contribute nothing (heap indirection or external). -/
def Node.childIds : Node → List Nat
  | .enum vs => vs.flatMap Variant.childIds
  | .struct ps => ps
  | .newtype i => [i]
  | .option i => [i]
  | .array i _ => [i]
  | .tuple is => is
  | _ => []

/-- ids held behind a heap indirection (not visited by the cutting) -/
def Node.heapIds : Node → List Nat
  | .box i => [i]
  | .vec i => [i]
  | .set i => [i]
  | .map k v => [k, v]
  | _ => []

def Variant.mapIds (f : Nat → Nat) : Variant → Variant
  | .simple => .simple
  | .item i => .item (f i)
  | .tuple is => .tuple (is.map f)
  | .struct is => .struct (is.map f)

/-- the loop `for child_id in get_child_ids(entry) { *child_id = … }`: rewrite exactly the
    by-value positions, keep everything else -/
def Node.mapChildren (f : Nat → Nat) : Node → Node
  | .enum vs => .enum (vs.map (Variant.mapIds f))
  | .struct ps => .struct (ps.map f)
  | .newtype i => .newtype (f i)
  | .option i => .option (f i)
  | .array i n => .array (f i) n
  | .tuple is => .tuple (is.map f)
  | n => n

/-- The type space as far as cutting is concerned: `id_to_entry` and `next_id`.
    (`type_to_id` restricted to `Box` entries is recomputed by `findBox`.) -/
structure G where
  get : Nat → Option Node
  next : Nat

def G.set (g : G) (i : Nat) (n : Node) : G :=
  { g with get := fun j => if j = i then some n else g.get j }

/-- `type_to_id.get(&Box(c))`: the id of an existing `Box(c)` entry (ids are below `next_id`;
    the real index holds at most one such entry, the model takes the smallest id). -/
def findBox (g : G) (c : Nat) : Option Nat :=
  (List.range g.next).find? (fun k => decide (g.get k = some (.box c)))

/-- `id_to_box` = `assign_type(Box(c))`: reuse, or allocate `next_id`. -/
def idToBox (g : G) (c : Nat) : G :=
  match findBox g c with
  | some _ => g
  | none => { get := fun j => if j = g.next then some (.box c) else g.get j, next := g.next + 1 }

/-- the id `id_to_box(c)` returned (valid after `idToBox g c` ran) -/
def boxId (g : G) (c : Nat) : Nat := (findBox g c).getD c

/-- the `replace` map applied to one child id: children that are `active` are redirected -/
def rewrite (g : G) (act : List Nat) (c : Nat) : Nat :=
  if c ∈ act then boxId g c else c

/-- traversal state; `fin` (finished nodes, most recent first) is bookkeeping only: nothing reads it -/
structure St where
  g : G
  visited : List Nat
  fin : List Nat

def visitList (f : Nat → St → Option St) : List Nat → St → Option St
  | [], s => some s
  | c :: cs, s =>
    match f c s with
    | none => none
    | some s' => visitList f cs s'

/-- One `Node::Start{u}` … pop.  `active` is the Rust `active` set before `u` was inserted.
    `none` = out of fuel (never for well-formed graphs: `Proofs/C07.lean`, `break_total`). -/
def visit : Nat → List Nat → Nat → St → Option St
  | 0, _, _, _ => none
  | fuel + 1, active, u, s =>
    if u ∈ s.visited then some s            -- `Start` on a visited id: straight to the pop
    else
      match s.g.get u with
      | none =>                              -- Rust: `.unwrap()` panics; excluded by well-formedness
        some { s with visited := u :: s.visited, fin := u :: s.fin }
      | some node =>
        let act := u :: active
        let cs := node.childIds
        let snip := cs.filter (fun c => decide (c ∈ act))
        let desc := cs.filter (fun c => !decide (c ∈ act))
        let g1 := snip.foldl idToBox s.g
        let node' := node.mapChildren (rewrite g1 act)
        let s1 : St := { g := g1.set u node', visited := u :: s.visited, fin := s.fin }
        -- `children_ids.pop()`: last child first
        match visitList (fun c s => visit fuel act c s) desc.reverse s1 with
        | none => none
        | some s2 => some { s2 with fin := u :: s2.fin }

/-- the ids of `range` (`lo..hi`) in order -/
def roots (lo hi : Nat) : List Nat := (List.range (hi - lo)).map (· + lo)

def breakCyclesSt (fuel : Nat) (g : G) (lo hi : Nat) : Option St :=
  visitList (fun r s => visit fuel [] r s) (roots lo hi) { g := g, visited := [], fin := [] }

/-- `break_cycles(lo..hi)`; fuel `next_id + 1` bounds the depth of the traversal -/
def breakCycles (g : G) (lo hi : Nat) : Option G :=
  (breakCyclesSt (g.next + 1) g lo hi).map (·.g)

/-! ### well-formedness (what `add_ref_types` guarantees when it calls `break_cycles`) -/

/-- executable part of well-formedness over the ids below `next_id`: every by-value child is an entry
    below `next_id`, every root is an entry (that no entry sits at an id ≥ `next_id` is checked by the
    driver on the finite request; the `Prop` version is `Cycles.WF` in `Proofs/Lemmas/CyclesLemmas.lean`) -/
def wfB (g : G) (lo hi : Nat) : Bool :=
  (List.range g.next).all (fun i =>
    match g.get i with
    | none => true
    | some n => n.childIds.all (fun c => decide (c < g.next) && (g.get c).isSome))
  && (roots lo hi).all (fun r => decide (r < g.next) && (g.get r).isSome)

end TypifyModel.Cycles

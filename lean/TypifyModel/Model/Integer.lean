import TypifyModel.Model.IntTypes
/-! Model of `convert_integer` (typify-impl/src/convert.rs). Schema keywords arrive as exact JSON
    integers; schemars stores them as `f64`, so every keyword first goes through `roundF64`
    (round-to-nearest-even to a 53-bit significand) and `x ± 1.0` is rounded again. All values are
    therefore integers and the `f64::EPSILON` comparisons are exact equalities. -/
namespace TypifyModel.Integer
open TypifyModel

/-- IEEE-754 binary64 rounding of a natural number (ties to even); exact below 2^53 -/
def roundNat (n : Nat) : Nat :=
  if n < 2 ^ 53 then n else
    let e := Nat.log2 n - 52
    let q := n / 2 ^ e
    let r := n % 2 ^ e
    let half := 2 ^ (e - 1)
    let q' := if half < r ∨ (r = half ∧ q % 2 = 1) then q + 1 else q
    q' * 2 ^ e

def roundF64 (x : Int) : Int :=
  if 0 ≤ x then (roundNat x.toNat : Int) else - (roundNat (-x).toNat : Int)

/-- f64 `a + 1.0` / `a - 1.0` on integer-valued doubles -/
def fadd1 (a : Int) : Int := roundF64 (a + 1)
def fsub1 (a : Int) : Int := roundF64 (a - 1)

inductive DefaultV
  | num (d : Int)     -- an integer JSON number
  | other             -- any non-number JSON value (string, bool, array, object)
deriving Repr, DecidableEq

structure IntSchema where
  format : Option String := none
  minimum : Option Int := none
  maximum : Option Int := none
  exclusiveMinimum : Option Int := none
  exclusiveMaximum : Option Int := none
  multipleOf : Option Int := none
  default : Option DefaultV := none
deriving Repr

inductive Err | invalidValue
deriving Repr, DecidableEq

def i64MinF : Int := -9223372036854775808   -- i64::MIN as f64
def i64MaxF : Int := 9223372036854775808    -- i64::MAX as f64  (2^63)

def computeMin (s : IntSchema) : Option Int :=
  match s.minimum, s.exclusiveMinimum with
  | none, none => none
  | none, some e => some (fadd1 (roundF64 e))
  | some m, none => some (roundF64 m)
  | some m, some e => some (max (roundF64 m) (fadd1 (roundF64 e)))

def computeMax (s : IntSchema) : Option Int :=
  match s.maximum, s.exclusiveMaximum with
  | none, none => none
  | none, some e => some (fsub1 (roundF64 e))
  | some m, none => some (roundF64 m)
  | some m, some e => some (min (roundF64 m) (fsub1 (roundF64 e)))

/-- the `maybe_type` closure bodies, per row -/
def matchRow (mn mx : Option Int) (r : FormatRow) : Option RTy :=
  match mn, mx with
  | none, some mx => if r.min ≤ i64MinF ∧ r.max = mx then some r.ty else none
  | some mn, none =>
      if mn = 1 then some r.nz
      else if i64MaxF ≤ r.max ∧ r.min = mn then some r.ty else none
  | some mn, some mx =>
      if mn = 1 then some r.nz
      else if r.max = mx ∧ r.min = mn then some r.ty else none
  | none, none => none

/-- the default-value check at the top of the tail -/
def tailDefaultOk (s : IntSchema) (mn mx : Option Int) : Bool :=
  match s.default with
  | none => true
  | some .other => false
  | some (.num d) =>
    let v := roundF64 d
    (match mn with | none => true | some m => decide (m ≤ v)) &&
    (match mx with | none => true | some m => decide (v ≤ m))

/-- the exact-match search over the table (last row first) -/
def maybeType (tbl : List FormatRow) (mn mx : Option Int) : Option RTy :=
  match mn, mx with
  | none, none => none
  | _, _ => tbl.reverse.findSome? (matchRow mn mx)

/-- the tail of `convert_integer`: default check against (min, max), exact-match search, fallback -/
def tail (tbl : List FormatRow) (s : IntSchema) (mn mx : Option Int) (fallback : RTy) : Except Err RTy :=
  if !tailDefaultOk s mn mx then .error .invalidValue else
  match maybeType tbl mn mx with
  | some t => .ok t
  | none => .ok fallback

/-- the bounds respect the recognised format's range and there is no `multipleOf` -/
def formatValid (s : IntSchema) (row : FormatRow) (mn mx : Option Int) : Bool :=
  s.multipleOf.isNone &&
  (match mn with | none => true | some m => decide (row.min ≤ m)) &&
  (match mx with | none => true | some m => decide (m ≤ row.max))

/-- the default check on the format path (a non-number default is not looked at here) -/
def formatDefaultBad (s : IntSchema) (row : FormatRow) (mn mx : Option Int) : Bool :=
  match s.default with
  | some (.num d) =>
    let v := roundF64 d
    decide (v < row.min) || decide (row.max < v) ||
    (match mn with | none => false | some m => decide (v < m)) ||
    (match mx with | none => false | some m => decide (m < v))
  | _ => false

def intersectMin (row : FormatRow) (mn : Option Int) : Int :=
  match mn with | none => row.min | some m => max m row.min
def intersectMax (row : FormatRow) (mx : Option Int) : Int :=
  match mx with | none => row.max | some m => min m row.max

/-- the part of `convert_integer` guarded by a recognised format -/
def withFormat (tbl : List FormatRow) (s : IntSchema) (row : FormatRow) (mn mx : Option Int) :
    Except Err RTy :=
  if formatValid s row mn mx then
    if formatDefaultBad s row mn mx then .error .invalidValue
    else if mn = some 1 then .ok row.nz else .ok row.ty
  else
    tail tbl s (some (intersectMin row mn)) (some (intersectMax row mx)) row.ty

def convertInteger (tbl : List FormatRow) (s : IntSchema) : Except Err RTy :=
  match s.format.bind (fun f => tbl.find? (fun r => r.name == f)) with
  | some row => withFormat tbl s row (computeMin s) (computeMax s)
  | none => tail tbl s (computeMin s) (computeMax s) .i64

end TypifyModel.Integer

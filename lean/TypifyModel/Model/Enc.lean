import TypifyModel.Model.Conv
/-! `encB`: the executable relation "type τ of the IR σ ENFORCES schema S" — the converse of `Conv.convB`
    ("τ is not narrower than S"). Where `convB` lets C02 conclude *valid ⇒ accepted*, `encB` lets C05 conclude
    *accepted ⇒ valid under the enforced projection of S* (`validE`): every constraint of the kinds the property
    lists — the JSON type of scalars, string lengths in scalar values, patterns, enumerated values, required members,
    closed objects, tuple arity, tag values — that the schema states is represented in the type.

    `validE` is draft-07 validity restricted to those constraint kinds:
    * integer bounds, array length bounds (other than a tuple's arity), `uniqueItems`, `not` are not in the list: ignored;
    * `oneOf` is read as `anyOf`;
    * a member that is not required may be `null` (serde reads `null` for an `Option` member; the property's type
      mutator never uses `null`), and a required member whose schema admits `null` may be absent (the property says
      "delete a required NON-NULLABLE member");
    * an object schema says nothing about an array (serde_derive's structs also accept their sequence form: listed
      finding C05-struct-seq-form; the carve-out is exactly that finding), and an enumeration of strings also admits
      `{"value": null}` for one of its values (serde's map form of a unit variant: C05-unit-variant-map-form).
    Like `convB`, `encB` doubles as the translation-validation checker run on the real (schema, IR dump) pairs. -/
namespace TypifyModel.Enc
open TypifyModel TypifyModel.Serde TypifyModel.Validate TypifyModel.Conv

/-- does the schema (syntactically, through `$ref`s with fuel) admit `null`? A required member with such a schema
    may be absent ("delete a required NON-NULLABLE member"). -/
def admitsNull (d : Doc) : Nat → Schema → Bool
  | 0, _ => false
  | f + 1, s =>
    match s with
    | .any | .null => true
    | .enumVals vs => vs.any (· == Json.null)
    | .ref k => (match d.get k with | some s' => admitsNull d f s' | none => false)
    | .oneOf ss | .anyOf ss => ss.any (admitsNull d f)
    | _ => false

def nullFuel (d : Doc) : Nat := d.defs.length + 2

/-- `required`, except for members whose schema admits `null` -/
def requiredE (d : Doc) (props : List (String × Schema)) (kvs : List (String × Json)) (req : List String) : Bool :=
  req.all fun r =>
    (Json.lookup kvs r).isSome ||
    (match props.find? (fun p => p.1 == r) with
     | some (_, s) => admitsNull d (nullFuel d) s
     | none => false)

/-- the declared members that are present (first occurrence of the name, as serde reads it); a member that is not
    required may be `null` -/
def declaredE (f : Schema → Json → Option Bool) (req : List String) (kvs : List (String × Json)) :
    List (String × Schema) → Option Bool
  | [] => some true
  | (k, s) :: r =>
    let here : Option Bool :=
      match Json.lookup kvs k with
      | none => some true
      | some v =>
        (match v with
         | .null => if req.contains k then f s v else some true
         | _ => f s v)
    and3 here (declaredE f req kvs r)

/-- a member that no property declares: per `additionalProperties` -/
def extraHere (f : Schema → Json → Option Bool) (additional : Additional Schema) (v : Json) : Option Bool :=
  match additional with
  | .open_ => some true
  | .closed => some false
  | .schema s => f s v

/-- members that no property declares -/
def extraE (f : Schema → Json → Option Bool) (props : List (String × Schema)) (additional : Additional Schema) :
    List (String × Json) → Option Bool
  | [] => some true
  | (k, v) :: r =>
    let here : Option Bool := if props.any (fun p => p.1 == k) then some true else extraHere f additional v
    and3 here (extraE f props additional r)

/-- validity under the enforced projection -/
def validE (x : Validate.Ext) (d : Doc) : Nat → Schema → Json → Option Bool
  | 0, _, _ => none
  | f + 1, s, j =>
    match s with
    | .any => some true
    | .never => some false
    | .null => some (match j with | .null => true | _ => false)
    | .boolean => some (match j with | .bool _ => true | _ => false)
    | .integer _ _ => some (match j with | .int _ => true | _ => false)
    | .number => some (match j with | .int _ => true | .flt _ _ => true | _ => false)
    | .string mn mx pat =>
      some (match j with
        | .str t => (match mn with | some m => decide (m ≤ strLen t) | none => true) &&
                    (match mx with | some m => decide (strLen t ≤ m) | none => true) &&
                    (match pat with | some p => x.regex p t | none => true)
        | _ => false)
    | .enumVals vs =>
      some (vs.any (· == j) ||
        -- serde's map form of a data-less variant, `{"value": null}` (listed finding C05-unit-variant-map-form)
        (match j with
         | .obj ((k, .null) :: rest) => rest.all (fun kv => kv.1 == k) && vs.any (· == Json.str k)
         | _ => false))
    | .ref k =>
      (match d.get k with
       | some s' => validE x d f s' j
       | none => some false)
    | .array items _ _ _ =>
      (match j with
       | .arr xs => allJ (validE x d f items) xs
       | _ => some false)
    | .tuple items =>
      (match j with
       | .arr xs => zipV (validE x d f) items xs
       | _ => some false)
    | .object props req additional =>
      (match j with
       | .obj kvs =>
         and3 (some (requiredE d props kvs req))
           (and3 (declaredE (validE x d f) req kvs props) (extraE (validE x d f) props additional kvs))
       | .arr _ => some true
       | _ => some false)
    | .oneOf ss => (countV (fun s' => validE x d f s' j) ss).map (fun n => decide (0 < n))
    | .anyOf ss => (countV (fun s' => validE x d f s' j) ss).map (fun n => decide (0 < n))
    | .allOf ss => allV (fun s' => validE x d f s' j) ss
    | .not _ => some true

/-- the schema's string constraints are implied by the type's checks -/
def strEnc (smn smx : Option Nat) (spat : Option String) (tmx tmn : Option Nat) (tpat : Option String) : Bool :=
  (match smx with | none => true | some s => (match tmx with | some t => decide (t ≤ s) | none => false)) &&
  (match smn with | none => true | some s => (match tmn with | some t => decide (s ≤ t) | none => decide (s = 0))) &&
  (match spat with | none => true | some s => (match tpat with | some t => s == t | none => false))

/-- struct members against an object schema, enforcing direction:
    every member is a declared property whose schema the member's type enforces (under `Option` for a member that
    may be absent); a required property has a member, and its absence is rejected unless the schema admits `null` -/
def fieldsE (rec : Schema → Id → Bool) (σ : Space) (props : List (String × Schema)) (req : List String) (opn : Bool) :
    List Field → Bool
  | [] => true
  | p :: r =>
    (match props.find? (fun q => q.1 == p.wire) with
     | none =>
       -- a member for a name that is only `required`, not declared: any value, in an open object
       opn && (match σ.get p.ty with | some ⟨.jsonValue, _, _⟩ => true | _ => false)
     | some (_, s) =>
       rec s p.ty ||
       (match σ.get p.ty with
        | some ⟨.option t', _, _⟩ =>
          (match σ.get t' with
           | some ⟨.option _, _, _⟩ => false
           | _ => !req.contains p.wire && rec s t')
        | _ => false)) &&
    fieldsE rec σ props req opn r

def requiredFields (d : Doc) (σ : Space) (props : List (String × Schema)) (fields : List Field) (req : List String) : Bool :=
  req.all fun r =>
    match props.find? (fun q => q.1 == r), fields.find? (fun p => p.wire == r) with
    | some (_, s), some p =>
      admitsNull d (nullFuel d) s ||
      (match p.state with | .required => !optionLikeT σ p.ty | _ => false)
    | none, some p => (match p.state with | .required => !optionLikeT σ p.ty | _ => false)
    | _, none => false

def structPlainE (rec : Schema → Id → Bool) (d : Doc) (σ : Space) (props : List (String × Schema)) (req : List String)
    (addl : Additional Schema) (fields : List Field) (deny : Bool) : Bool :=
  !hasFlatten fields && nodupB (fields.map (·.wire)) && nodupB (props.map (·.1)) &&
  (match addl with | .open_ => true | .closed => deny | .schema _ => false) &&
  props.all (fun q => fields.any (fun p => p.wire == q.1)) &&
  fieldsE rec σ props req (match addl with | .open_ => true | _ => false) fields && requiredFields d σ props fields req

/-- `additionalProperties: <schema>`: the named members enforce the declared properties as above, and every other member
    is read by the one flattened member, a map with plain string keys whose value type enforces that schema -/
def structFlatE (rec : Schema → Id → Bool) (d : Doc) (σ : Space) (props : List (String × Schema)) (req : List String)
    (addl : Additional Schema) (fields : List Field) : Bool :=
  (match addl with
   | .schema sa =>
     (match fields.filter (fun p => p.rename == .flatten) with
      | [e] =>
        (match σ.get e.ty with
         | some ⟨.map k vt, _, _⟩ => (match σ.get k with | some ⟨.string, _, _⟩ => true | _ => false) && rec sa vt
         | _ => false)
      | _ => false)
   | _ => false) &&
  nodupB ((Conv.namedOf fields).map (·.wire)) && nodupB (props.map (·.1)) &&
  props.all (fun q => (Conv.namedOf fields).any (fun p => p.wire == q.1)) &&
  fieldsE rec σ props req false (Conv.namedOf fields) && requiredFields d σ props (Conv.namedOf fields) req

def structE (rec : Schema → Id → Bool) (d : Doc) (σ : Space) (props : List (String × Schema)) (req : List String)
    (addl : Additional Schema) (fields : List Field) (deny : Bool) : Bool :=
  structPlainE rec d σ props req addl fields deny || structFlatE rec d σ props req addl fields

/-- the payload of a variant is enforced by the schema that stands for it -/
def variantE (rec : Schema → Id → Bool)
    (structE' : List (String × Schema) → List String → Additional Schema → List Field → Bool → Bool)
    (deny : Bool) (s : Schema) (dt : VDetails) : Bool :=
  match dt, s with
  | .simple, .null => true
  | .item t, s => rec s t
  | .tuple ts, .tuple items => zipB rec items ts
  | .struct ps, .object props req addl => structE' props req addl ps deny
  | _, _ => false

/-- a branch of an externally tagged union that stands for variant `vr`: a data-less variant is one of the values of a
    string enumeration (its map form `{"v": null}` is `validE`'s carve-out); a variant with data is the single-member
    object `{wire: payload}` -/
def extBranchE (rec : Schema → Id → Bool) (d : Doc) (σ : Space) (deny : Bool) (vr : Variant) (s : Schema) : Bool :=
  match s with
  | .enumVals vs => isSimple vr && vs.any (· == Json.str vr.wire)
  | .object [(k, sk)] [k'] _ =>
    !isSimple vr && k == vr.wire && k' == vr.wire && variantE rec (structE rec d σ) deny sk vr.details
  | _ => false

/-- a branch of an internally tagged union that stands for variant `vr`: an object whose `tag` member is the one-value
    enumeration naming the variant; a data-less variant's branch declares nothing else and is open (serde ignores other
    members of a unit variant); a struct variant enforces the remaining members -/
def intBranchE (rec : Schema → Id → Bool) (d : Doc) (σ : Space) (deny : Bool) (tg : String) (vr : Variant) (s : Schema) : Bool :=
  match s with
  | .object props req addl =>
    (match props.find? (fun p => p.1 == tg) with
     | some (_, .enumVals [.str w]) =>
       w == vr.wire && nodupB (props.map (·.1)) &&
       (match vr.details with
        | .simple =>
          props.all (fun p => p.1 == tg) && req.all (fun r => r == tg) && (match addl with | .open_ => true | _ => false)
        | .struct ps =>
          structE rec d σ (props.filter (fun p => p.1 != tg)) (req.filter (fun r => r != tg)) addl ps deny
        | _ => false)
     | _ => false)
  | _ => false

/-- a branch of an adjacently tagged union that stands for variant `vr`: `{tag: <one value>, content: <payload>}` and
    nothing else; closed only if the type denies unknown members -/
def adjBranchE (rec : Schema → Id → Bool) (d : Doc) (σ : Space) (deny : Bool) (tg ct : String) (vr : Variant) (s : Schema) : Bool :=
  match s with
  | .object props req addl =>
    (match props.find? (fun p => p.1 == tg) with
     | some (_, .enumVals [.str w]) =>
       w == vr.wire && tg != ct && nodupB (props.map (·.1)) &&
       props.all (fun p => p.1 == tg || p.1 == ct) && req.all (fun r => r == tg || r == ct) &&
       (match addl with | .open_ => true | .closed => deny | .schema _ => false) &&
       (match props.find? (fun p => p.1 == ct) with
        | none => isSimple vr && (match addl with | .open_ => true | _ => false) && !req.contains ct
        | some (_, sc) =>
          if isSimple vr then admitsNull d (nullFuel d) sc
          else
            variantE rec (structE rec d σ) deny sc vr.details &&
            (match vr.details with
             | .item t' => !optionLikeT σ t' || !req.contains ct || admitsNull d (nullFuel d) sc
             | _ => true))
     | _ => false)
  | _ => false

/-- untagged unions: the i-th variant's payload is enforced by the i-th branch -/
def untaggedE (rec : Schema → Id → Bool) (d : Doc) (σ : Space) (deny : Bool) : List Schema → List Variant → Bool
  | [], [] => true
  | s :: ss, v :: vs => variantE rec (structE rec d σ) deny s v.details && untaggedE rec d σ deny ss vs
  | _, _ => false

/-- one schema construct against one (non-transparent) kind of entry -/
def encD (rec : Schema → Id → Bool) (d : Doc) (σ : Space) (s : Schema) (det : Details) : Bool :=
  match s, det with
  | .null, .unit => true
  | s', .unit => admitsNull d (nullFuel d) s'          -- `()` reads `null` only
  | .boolean, .boolean => true
  | .number, .float _ => true
  | .number, .integer name => (rtyOfName name).isSome
  | .integer _ _, .integer name => (rtyOfName name).isSome
  | .string mn mx pat, .string => strEnc mn mx pat none none none
  | .string mn mx pat, .newtype _ inner (.string tmx tmn tpat) _ =>
    (match σ.get inner with | some ⟨.string, _, _⟩ => true | _ => false) && strEnc mn mx pat tmx tmn tpat
  | .enumVals vs, .enum _ .external variants _ _ _ =>
    variants.all isSimple && variants.all (fun vr => vs.any (· == Json.str vr.wire))
  | .array items _ _ _, .array t' _ => rec items t'
  | .array items _ _ _, .vec t' => rec items t'
  | .array items _ _ _, .set t' => rec items t'
  | .object [] [] (.schema sv), .map k vt =>
    (match σ.get k with | some ⟨.string, _, _⟩ => true | _ => false) && rec sv vt
  | .object [] [] .open_, .map k _ =>                       -- an object schema without properties: any members
    (match σ.get k with | some ⟨.string, _, _⟩ => true | _ => false)
  | .tuple items, .tuple ts => zipB rec items ts
  | .object props req addl, .struct _ fields deny _ => structE rec d σ props req addl fields deny
  | .oneOf [s', .null], .option t' => rec s' t'
  | .oneOf [.null, s'], .option t' => rec s' t'
  | .anyOf [s', .null], .option t' => rec s' t'
  | .anyOf [.null, s'], .option t' => rec s' t'
  | .oneOf ss, .enum _ .external variants deny _ _ => variants.all (fun vr => ss.any (extBranchE rec d σ deny vr))
  | .anyOf ss, .enum _ .external variants deny _ _ => variants.all (fun vr => ss.any (extBranchE rec d σ deny vr))
  | .oneOf ss, .enum _ (.internal tg) variants deny _ _ => variants.all (fun vr => ss.any (intBranchE rec d σ deny tg vr))
  | .anyOf ss, .enum _ (.internal tg) variants deny _ _ => variants.all (fun vr => ss.any (intBranchE rec d σ deny tg vr))
  | .oneOf ss, .enum _ (.adjacent tg ct) variants deny _ _ => variants.all (fun vr => ss.any (adjBranchE rec d σ deny tg ct vr))
  | .anyOf ss, .enum _ (.adjacent tg ct) variants deny _ _ => variants.all (fun vr => ss.any (adjBranchE rec d σ deny tg ct vr))
  | .oneOf ss, .enum _ .untagged variants deny _ _ => untaggedE rec d σ deny ss variants
  | .anyOf ss, .enum _ .untagged variants deny _ _ => untaggedE rec d σ deny ss variants
  | _, _ => false

/-- the branch of a combinator that has exactly one -/
def singleBranch : Schema → Option Schema
  | .oneOf [s'] | .anyOf [s'] | .allOf [s'] => some s'
  | _ => none

def encB (d : Doc) (σ : Space) (rid : String → Option Id) : Nat → Schema → Id → Bool
  | 0, _, _ => false
  | fc + 1, s, t =>
    match s with
    | .any => true                                   -- every document is valid
    | .ref k =>
      rid k == some t ||
      (match σ.get t with
       | some ⟨.box t', _, _⟩ => encB d σ rid fc s t'
       | some ⟨.newtype _ inner .none _, _, _⟩ => encB d σ rid fc s inner      -- a definition that is an alias
       | _ => false)
    | _ =>
      match σ.get t with
      | none => false
      | some ent =>
        match ent.details with
        | .newtype _ inner .none _ => encB d σ rid fc s inner
        | .box t' => encB d σ rid fc s t'
        | det =>
          encD (encB d σ rid fc) d σ s det ||
          -- a combinator with a single branch says what the branch says
          (singleBranch s).any (fun s' => encB d σ rid fc s' t)

/-- the schemas `encD` has an arm for (syntactic): outside of it `encB` is false because the construct is not modelled,
    inside of it `encB = false` means a constraint of the schema is not represented in the type -/
def inFragment : Nat → Schema → Bool
  | 0, _ => false
  | f + 1, s =>
    match s with
    | .any | .null | .boolean | .number | .integer _ _ | .string _ _ _ | .ref _ => true
    | .enumVals vs => vs.all (fun v => match v with | .str _ => true | _ => false)
    | .array items _ _ _ => inFragment f items
    | .tuple items => items.all (inFragment f)
    | .object [] [] (.schema sv) => inFragment f sv
    | .object props _ addl =>
      (match addl with | .schema _ => false | _ => true) && props.all (fun p => inFragment f p.2)
    | .oneOf ss | .anyOf ss => ss.all (inFragment f)
    | .allOf [s'] => inFragment f s'
    | _ => false

/-- every definition is enforced by the type registered for it -/
def AllEnc (σ : Space) (rid : String → Option Id) (d : Doc) : Prop :=
  ∀ k s, d.get k = some s → ∃ t fc, rid k = some t ∧ encB d σ rid fc s t = true

end TypifyModel.Enc

import TypifyModel.Model.Value
/-! `WFDefault`: the decidable hypothesis of the C06 `…_partial` theorems — the (type, default) tree
    stays inside the fragment where `validate_value` is complete, `output_value` renders every member,
    and `Serde.de` is modelled. What it excludes, and why:

    * natives (`validate_value` accepts anything; finding C06-native-default) and dangling / `Reference` ids;
    * integer type names outside the twelve typify produces, float names other than f32 / f64;
    * `Option<Option<T>>` (rendered as `Option<T>`; the expression written is `Some(Some(x))`);
    * flattened members (`Serde.deStruct` does not model `#[serde(flatten)]`);
    * maps whose key type is not `String`; newtypes constrained by enum / deny lists and string-constrained
      newtypes over something other than `String` (proof limitations, not defects: covered by M0/M3 only);
    * untagged enums (the variant serde picks is the first that deserializes, the variant typify picks is
      the first that validates: aligning the two needs hypotheses about every earlier variant) and, as a
      proof limitation, internally / adjacently tagged enums (covered by M0/M3 only);
    * enums whose variant identifiers or struct member wire names are not pairwise distinct (C08);
    * a member that has its own default and is omitted from the default object (typify writes
      `Default::default()` for it, not the member's default: finding C06-nested-default); an omitted
      optional member must have one of the types `has_default` makes optional. -/
namespace TypifyModel.Defaults
open TypifyModel TypifyModel.Serde

def isStringTy (σ : Space) (t : Id) : Bool :=
  match σ.get t with
  | some ⟨.string, _, _⟩ => true
  | _ => false

def nodupStrings : List String → Bool
  | [] => true
  | a :: r => !r.contains a && nodupStrings r

def wfZip (W : Id → Json → Bool) : List Id → List Json → Bool
  | t :: ts, j :: js => W t j && wfZip W ts js
  | _, _ => true

def isOk {ε α : Type} : Except ε α → Bool
  | .ok _ => true
  | .error _ => false

/-- the kinds `has_default` leaves to `#[serde(default)]`: `Default::default()` exists and never fails -/
def intrinsicDefault (σ : Space) (t : Id) : Bool :=
  match σ.get t with
  | some ent =>
    (match ent.details with
     | .option _ | .vec _ | .set _ | .map _ _ | .unit | .boolean | .float _ | .string | .jsonValue => true
     | .integer name => (match rtyOfName name with | some r => !r.isNonZero | none => false)
     | _ => false)
  | none => false

def wfStruct (σ : Space) (_n : Nat) (_V : Id → Json → VRes) (W : Id → Json → Bool) (props : List Field) (d : Json) : Bool :=
  !hasFlatten props && nodupStrings (props.map (·.wire)) &&
  (match d with
   | .obj kvs => props.all fun p =>
     match Json.lookup kvs p.wire with
     | some v => W p.ty v
     | none =>
       match p.state with
       | .dflt _ => false          -- written `Default::default()`, not the member's default: C06-nested-default
       | .optional => intrinsicDefault σ p.ty
       | .required => true
   | _ => true)

def wfBody (σ : Space) (n : Nat) (V : Id → Json → VRes) (W : Id → Json → Bool) (d : VDetails) (j : Json) : Bool :=
  match d with
  | .simple => true
  | .item t => W t j
  | .tuple ts => (match j with | .arr xs => wfZip W ts xs | _ => true)
  | .struct ps => wfStruct σ n V W ps j

def WFDefault (x : Ext) (σ : Space) : Nat → Id → Json → Bool
  | 0, _, _ => false
  | n + 1, t, d =>
    match σ.get t with
    | none => false
    | some ent =>
      let W := WFDefault x σ n
      let V := validateValue x σ n
      match ent.details with
      | .unit | .boolean | .string | .jsonValue => true
      | .float name => name == "f64" || name == "f32"
      | .integer name => (rtyOfName name).isSome
      | .native _ _ => false
      | .reference _ => false
      | .option t' => !isOptionTy σ t' && (match d with | .null => true | _ => W t' d)
      | .box t' => W t' d
      | .vec t' | .set t' | .array t' _ => (match d with | .arr xs => xs.all (W t') | _ => true)
      | .tuple ts => (match d with | .arr xs => wfZip W ts xs | _ => true)
      | .map k v => isStringTy σ k && (match d with | .obj kvs => kvs.all (fun kv => W v kv.2) | _ => true)
      | .newtype _ inner c _ =>
        (match c with
         | .none => true
         | .string _ _ _ => isStringTy σ inner
         | _ => false) && W inner d
      | .struct _ props _ _ => wfStruct σ n V W props d
      | .enum _ tag vs _ _ _ =>
        nodupStrings (vs.map (·.identName)) &&
        (match tag with
         | .external =>
           (match d with
            | .obj [(k, body)] =>
              (match findVariant vs k with
               | some v => wfBody σ n V W v.details body
               | none => true)
            | _ => true)
         | _ => false)

end TypifyModel.Defaults

/-! # Determinism (C12): ordered maps, hash-collection consumers, canonical JSON

What is modelled (all of it core-only and executable):

* `LinOrd`           a linear order given by a Boolean `le` (the `Ord` of a `BTreeMap` key).
* `insertSorted`,
  `toMap`            `BTreeMap::insert` / building a `BTreeMap` by inserting the members of a JSON
                      object in document order (serde_json `MapAccess` loop; a later duplicate key
                      overwrites the earlier value and keeps the position of the key).
* `Json`, `canon`    a JSON document as *text order* data (objects are association lists in the order
                      of the text, duplicates included) and what `serde_json::from_str::<Value>` keeps
                      of it when `Map` is a `BTreeMap` (no `preserve_order`).
* a hash collection is a list in an **arbitrary iteration order**: every consumer below takes such a
  list, and the theorems of `Proofs/C12.lean` say that the answer is the same for every permutation.
  `unique` (the `HashSet::insert`-all idiom of util.rs), `hlen` (`collect::<HashSet>().len()`),
  `contains`, `isSubset`, `counts` (`entry().and_modify().or_insert()` + `get`), `insertionSort`
  (iteration that is sorted / collected into a `BTree*` before use).
* `HashSite`, `Consumer`   row type of the table `Generated.hashSites` written by the translator (T5).

What is NOT modelled: `std::collections::hash_map::RandomState` itself (SipHash keys drawn per
process / per collection). Its only observable effect is the iteration order of a hash collection,
which the model replaces by universal quantification over permutations. -/
namespace TypifyModel.Determinism

/-! ## linear orders -/

/-- a decidable linear order (Rust `Ord` on the key type) -/
structure LinOrd (α : Type) where
  le : α → α → Bool
  refl : ∀ a, le a a = true
  antisymm : ∀ a b, le a b = true → le b a = true → a = b
  trans : ∀ a b c, le a b = true → le b c = true → le a c = true
  total : ∀ a b, le a b = true ∨ le b a = true

/-- `String`'s order: lexicographic by code point, which is the byte order of UTF-8, i.e. Rust's
    `impl Ord for String` -/
def strOrd : LinOrd String where
  le a b := decide (a ≤ b)
  refl a := by simp
  antisymm a b h1 h2 := String.le_antisymm (by simpa using h1) (by simpa using h2)
  trans a b c h1 h2 := by
    have := @String.le_trans a b c (by simpa using h1) (by simpa using h2)
    simpa using this
  total a b := by
    rcases String.le_total a b with h | h
    · left; simpa using h
    · right; simpa using h

def natOrd : LinOrd Nat where
  le a b := decide (a ≤ b)
  refl a := by simp
  antisymm a b h1 h2 := by
    have h1 : a ≤ b := by simpa using h1
    have h2 : b ≤ a := by simpa using h2
    omega
  trans a b c h1 h2 := by
    have h1 : a ≤ b := by simpa using h1
    have h2 : b ≤ c := by simpa using h2
    simp; omega
  total a b := by
    simp; omega

/-! ## BTreeMap as a key-sorted association list -/

variable {K V : Type}

/-- `BTreeMap::insert(k, v)` on the in-order listing of the map: an equal key has its value
    replaced in place, otherwise the pair goes in front of the first greater key -/
def insertSorted [DecidableEq K] (o : LinOrd K) (k : K) (v : V) : List (K × V) → List (K × V)
  | [] => [(k, v)]
  | (k', v') :: rest =>
    if k = k' then (k, v) :: rest
    else if o.le k k' then (k, v) :: (k', v') :: rest
    else (k', v') :: insertSorted o k v rest

/-- insert the pairs in the given (document / iteration) order into an existing map -/
def insertMany [DecidableEq K] (o : LinOrd K) (m : List (K × V)) (xs : List (K × V)) : List (K × V) :=
  xs.foldl (fun m kv => insertSorted o kv.1 kv.2 m) m

/-- build a `BTreeMap` from pairs in the given order (later duplicates win) -/
def toMap [DecidableEq K] (o : LinOrd K) (xs : List (K × V)) : List (K × V) :=
  insertMany o [] xs

/-- strictly ascending keys: the in-order listing of a `BTreeMap` -/
def SortedKeys (o : LinOrd K) (m : List (K × V)) : Prop :=
  m.Pairwise (fun a b => o.le a.1 b.1 = true ∧ a.1 ≠ b.1)

/-- no key occurs twice -/
def NoDupKeys (xs : List (K × V)) : Prop := (xs.map (·.1)).Nodup

/-- `BTreeMap::get` -/
def lookup [DecidableEq K] (k : K) : List (K × V) → Option V
  | [] => none
  | (k', v) :: rest => if k = k' then some v else lookup k rest

/-! ## sorting (what "sorted before use" means) -/

variable {α : Type}

def orderedInsert (o : LinOrd α) (a : α) : List α → List α
  | [] => [a]
  | b :: l => if o.le a b then a :: b :: l else b :: orderedInsert o a l

/-- insertion sort: the model of `v.sort()` / of collecting into a `BTreeSet` (for duplicate-free
    input) -/
def insertionSort (o : LinOrd α) : List α → List α
  | [] => []
  | a :: l => orderedInsert o a (insertionSort o l)

def Sorted (o : LinOrd α) (l : List α) : Prop := l.Pairwise (fun a b => o.le a b = true)

/-! ## consumers of a hash collection given in an arbitrary iteration order -/

/-- `let mut s = HashSet::new(); items.into_iter().all(|i| s.insert(i))` (util.rs `unique`):
    `insert` answers whether the item was new; `all` stops at the first `false` -/
def insertAll [DecidableEq α] : List α → List α → Bool
  | [], _ => true
  | x :: xs, seen => if x ∈ seen then false else insertAll xs (x :: seen)

def unique [DecidableEq α] (xs : List α) : Bool := insertAll xs []

/-- `collect::<HashSet<_>>()`: the members, each once, in *some* order (here: first occurrences
    reversed; any other order is a permutation of this one) -/
def collectSet [DecidableEq α] (xs : List α) : List α :=
  xs.foldl (fun s x => if x ∈ s then s else x :: s) []

/-- `set.len()` -/
def hlen [DecidableEq α] (xs : List α) : Nat := (collectSet xs).length

/-- `set.contains(a)` / `map.contains_key(a)` -/
def contains [DecidableEq α] (xs : List α) (a : α) : Bool := decide (a ∈ xs)

/-- `a.is_subset(&b)` -/
def isSubset [DecidableEq α] (xs ys : List α) : Bool := xs.all (fun a => decide (a ∈ ys))

/-- type_entry.rs: `counts.entry(k).and_modify(|x| *x += 1).or_insert(0)` over all items, then
    `counts.get(k)`: the number of occurrences minus one -/
def counts [DecidableEq α] (xs : List α) (k : α) : Option Nat :=
  if xs.count k = 0 then none else some (xs.count k - 1)

/-- iteration that is sorted before anything observes it -/
def sortedIter (o : LinOrd α) (xs : List α) : List α := insertionSort o xs

/-! ## JSON documents in text order, and what the parser keeps -/

/-- a JSON value as written: object members in text order, duplicate keys kept; numbers as their
    literal (the driver only admits integer literals) -/
inductive Json where
  | null
  | bool (b : Bool)
  | num (lit : String)
  | str (s : String)
  | arr (xs : List Json)
  | obj (kvs : List (String × Json))
  deriving Repr, Inhabited

mutual
  /-- `serde_json::from_str::<Value>` with `Map = BTreeMap<String, Value>`: the members of an object
      are inserted in text order into a `BTreeMap` (later duplicates overwrite), arrays keep their
      order, and this happens at every depth -/
  def canon : Json → Json
    | .arr xs => .arr (canonList xs)
    | .obj kvs => .obj (toMap strOrd (canonMembers kvs))
    | j => j
  def canonList : List Json → List Json
    | [] => []
    | x :: xs => canon x :: canonList xs
  /-- the member values parsed, members still in text order -/
  def canonMembers : List (String × Json) → List (String × Json)
    | [] => []
    | (k, v) :: rest => (k, canon v) :: canonMembers rest
end

mutual
  /-- no object of the document, at any depth, repeats a key -/
  def noDupDeep : Json → Bool
    | .arr xs => noDupList xs
    | .obj kvs => decide (kvs.map (·.1)).Nodup && noDupMembers kvs
    | _ => true
  def noDupList : List Json → Bool
    | [] => true
    | x :: xs => noDupDeep x && noDupList xs
  def noDupMembers : List (String × Json) → Bool
    | [] => true
    | (_, v) :: rest => noDupDeep v && noDupMembers rest
end

/-- "the two documents differ only in the order of object members" (at any depth): the least
    relation closed under reflexivity, transitivity, replacing an array element or a member value
    by a related one, and permuting the members of an object -/
inductive JPerm : Json → Json → Prop where
  | refl (j : Json) : JPerm j j
  | trans {a b c : Json} : JPerm a b → JPerm b c → JPerm a c
  | arrCons {x y : Json} {xs ys : List Json} :
      JPerm x y → JPerm (.arr xs) (.arr ys) → JPerm (.arr (x :: xs)) (.arr (y :: ys))
  | objCons {k : String} {v w : Json} {r s : List (String × Json)} :
      JPerm v w → JPerm (.obj r) (.obj s) → JPerm (.obj ((k, v) :: r)) (.obj ((k, w) :: s))
  | objPerm {kvs kvs' : List (String × Json)} : kvs.Perm kvs' → JPerm (.obj kvs) (.obj kvs')

/-! ## rendering a type space: iteration of a `BTreeMap` keyed by id -/

/-- `TypeSpace::to_stream` seen from far enough: the entries of `id_to_entry` (a `BTreeMap`) are
    visited in key order and their token texts concatenated. `T` is the text of one entry. -/
def render {T : Type} (entries : List (Nat × List T)) : List T :=
  (toMap natOrd entries).flatMap (·.2)

/-! ## T5: hash-collection sites found in typify's source by the translator -/

/-- how the contents of a `HashMap`/`HashSet` binding are observed -/
inductive Consumer where
  /-- only `insert`/`remove` results, e.g. `.all(|i| set.insert(i))` -/
  | insertAll
  /-- `len` / `is_empty` -/
  | len
  /-- keyed lookups only: `contains`, `contains_key`, `get`, `entry(..).and_modify(..).or_insert(..)` -/
  | contains
  /-- `is_subset` / `is_superset` / `is_disjoint` -/
  | isSubset
  /-- iteration whose result is sorted or collected into a `BTree*` before any other use -/
  | iterateSorted
  /-- iteration whose body only performs `BTreeMap::insert(key(k), ..)` with `key` an injective
      rendering of the hash map's own key `k` (typify-macro `patch` / `replace`) -/
  | keyedInsert
  /-- order-dependent iteration -/
  | iterate
  /-- the translator could not tell -/
  | unknown
  deriving DecidableEq, Repr

structure HashSite where
  file : String
  func : String
  binding : String
  /-- `local` (let), `param`, `field` (struct field, consumers taken from the fns that destructure
      it), `temp` (consumed in the expression that creates it) -/
  origin : String
  consumers : List Consumer
  detail : String
  deriving Repr

/-- the consumers for which `Proofs/C12.lean` has a permutation-invariance theorem -/
def orderFree : List Consumer :=
  [.insertAll, .len, .contains, .isSubset, .iterateSorted, .keyedInsert]

end TypifyModel.Determinism

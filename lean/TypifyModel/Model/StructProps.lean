import TypifyModel.Model.Json
/-! `structs.rs` `struct_property` / `has_default`: the state a struct member gets — `Required`, `Optional` (serde's bare
    `default`, i.e. `Default::default()` when the member is absent) or `Default(value)` (a default function that yields the
    schema's value) — and whether its type is wrapped in `Option`, as a function of: is the name in `required`; what kind of
    type the member's schema was converted to; the `default` the member's schema carries.

    Tied to the source by an M0 correspondence over the whole lattice kind × required × default (`./check C06`: one document per
    point through the real `TypeSpace`, state and `Option` wrapping read off the IR dump). -/
namespace TypifyModel.StructProps
open TypifyModel

/-- what `has_default` looks at of the member's type entry; `unresolved` = the lookup fails (a reference to a definition of the
    batch that is not converted yet) -/
inductive Kind where
  | option | vec | map | unit | boolean | integer | string | other | unresolved
deriving Repr, DecidableEq, Inhabited

inductive PState where
  | required
  | optional
  | dflt (v : Json)
deriving Repr, Inhabited

/-- `n.as_u64() == Some(0)` or `n.as_f64() == Some(0.0)` of a `serde_json::Number` -/
def isZero : Json → Bool
  | .int n => n == 0
  | .flt m _ => m == 0
  | _ => false

/-- `has_default` -/
def hasDefault (k : Kind) (d : Option Json) : PState :=
  match k, d with
  | .option, none => .optional
  | .vec, none => .optional
  | .map, none => .optional
  | .unit, none => .optional
  | _, none => .required
  | .option, some .null => .optional
  | .unit, some .null => .optional
  | .vec, some (.arr []) => .optional
  | .map, some (.obj []) => .optional
  | .boolean, some (.bool false) => .optional
  | .integer, some v => if isZero v then .optional else .dflt v
  | .string, some (.str s) => if s.isEmpty then .optional else .dflt (.str s)
  | _, some v => .dflt v

/-- `struct_property`: the member's state and whether its type becomes `Option<T>` -/
def propState (required : Bool) (k : Kind) (d : Option Json) : PState × Bool :=
  if required then (.required, false) else
  match hasDefault k d with
  | .required => (.optional, true)
  | other => (other, false)

/-- what `Default::default()` of the member's (unwrapped) type serialises to, for the kinds `has_default` knows -/
def intrinsic : Kind → Option Json
  | .option => some .null
  | .unit => some .null
  | .vec => some (.arr [])
  | .map => some (.obj [])
  | .boolean => some (.bool false)
  | .integer => some (.int 0)
  | .string => some (.str "")
  | _ => none

/-- equality of JSON documents as numbers where they are numbers (`0.0` is `0`) -/
def sameValue : Json → Json → Bool
  | .int a, .int b => a == b
  | .int a, .flt m _ => a == 0 && m == 0
  | .flt m _, .int b => m == 0 && b == 0
  | .null, .null => true
  | .bool a, .bool b => a == b
  | .str a, .str b => a == b
  | .arr [], .arr [] => true
  | .obj [], .obj [] => true
  | _, _ => false

end TypifyModel.StructProps

import TypifyModel.Model.Semver
/-! Model of `TypeSpace::convert_rust_extension` (typify-impl/src/rust_extension.rs) and of the
    settings it reads (typify-impl/src/lib.rs: `CrateVers`, `UnknownPolicy`, `CrateSpec`,
    `TypeSpaceSettings::{with_crate, with_unknown_crates}`), plus the way a substituted definition
    is named by `convert_ref_type` / `TypeEntryNative::name_match` (lib.rs, type_entry.rs). -/
namespace TypifyModel.RustExt
open TypifyModel

inductive CrateVers
  | version (v : Semver.Version)
  | any
  | never
deriving Repr, DecidableEq

inductive UnknownPolicy
  | generate | allow | deny
deriving Repr, DecidableEq

structure CrateSpec where
  vers : CrateVers
  rename : Option String := none
deriving Repr

/-- the part of `TypeSpaceSettings` the extension reads. `crates` is the `BTreeMap` as an
    association list, most recent insertion first (so `lookup` sees the value `insert` left). -/
structure Cfg where
  crates : List (String × CrateSpec) := []
  unknown : UnknownPolicy := .generate
deriving Repr

def Cfg.withCrate (cfg : Cfg) (name : String) (spec : CrateSpec) : Cfg :=
  { cfg with crates := (name, spec) :: cfg.crates }

def Cfg.lookup (cfg : Cfg) (name : String) : Option CrateSpec := cfg.crates.lookup name

/-- `CrateVers::parse` -/
def CrateVers.parse (s : String) : Option CrateVers :=
  if s = "!" then some .never
  else if s = "*" then some .any
  else (Semver.parseVersion s).map .version

/-- a successfully deserialised `RustExtension` (the parameters are counted here; their conversion
    is `paramIdents` below) -/
structure Ext where
  crate : String
  version : String
  path : String
  nparams : Nat := 0
deriving Repr

/-- `s.replace('-', "_")` -/
def replaceDash (s : List Char) : List Char := s.map fun c => if c = '-' then '_' else c

/-- `path.find("::")`: the text before the first `::` and the text from it on -/
def splitSep : List Char → Option (List Char × List Char)
  | [] => none
  | ':' :: ':' :: r => some ([], ':' :: ':' :: r)
  | c :: r => (splitSep r).map fun (a, b) => (c :: a, b)

/-- does the configuration accept the crate at this requirement? `some spec?` = substitute (with
    the crate's spec when configured), `none` = generate -/
def admitCrate (cfg : Cfg) (crate : String) (req : Semver.Req) : Option (Option CrateSpec) :=
  match cfg.lookup crate with
  | some spec =>
    match spec.vers with
    | .any => some (some spec)
    | .version v => if Semver.matchesReq req v then some (some spec) else none
    | .never => none
  | none =>
    match cfg.unknown with
    | .generate => none
    | .allow => some none
    | .deny => none

/-- `convert_rust_extension` up to the parameters: the native type name, or `none` = the schema is
    generated from its structure -/
def decide (cfg : Cfg) (e : Ext) : Option String :=
  match Semver.parseReq e.version with
  | none => none
  | some req =>
    match splitSep e.path.toList with
    | none => none
    | some (pre, rest) =>
      if replaceDash e.crate.toList ≠ pre then none else
      match admitCrate cfg e.crate req with
      | none => none
      | some spec? =>
        let path : List Char :=
          match spec?.bind (·.rename) with
          | some newCrate => replaceDash newCrate.toList ++ rest
          | none => e.path.toList
        some (String.ofList (':' :: ':' :: path))

/-! ### how the native type is written and named (type_entry.rs) -/

/-- `type_ident` of a native entry as printed without white space: `path<P1,P2,>` -/
def renderNative (path : String) (params : List String) : String :=
  if params.isEmpty then path
  else path ++ "<" ++ String.join (params.map (· ++ ",")) ++ ">"

/-- `type_name.rsplit("::").next()`: the text after the last `::` -/
def lastSegGo : List Char → List Char → List Char
  | [], cur => cur.reverse
  | ':' :: ':' :: r, _ => lastSegGo r []
  | c :: r, cur => lastSegGo r (c :: cur)
def lastSeg (s : String) : String := String.ofList (lastSegGo s.toList [])

/-- `TypeEntryNative::name_match` for a definition (`Name::Required key`) -/
def nameMatch (key : String) (path : String) (nparams : Nat) : Bool :=
  nparams != 0 || key == lastSeg path

inductive Outcome
  | generate
  | use (ident : String)                    -- the native path stands for the schema
  | wrap (name : String) (ident : String)   -- a newtype `name` around the native path
deriving Repr, DecidableEq

/-- an anonymous schema (`add_type`): the extension decides alone -/
def decideType (cfg : Cfg) (e : Ext) (params : List String) : Outcome :=
  match decide cfg e with
  | none => .generate
  | some p => .use (renderNative p params)

/-- a named definition (`add_ref_types`): `convert_ref_type` keeps the native entry when
    `name_match`, otherwise wraps it in a newtype named after the definition -/
def decideDef (cfg : Cfg) (key : String) (e : Ext) (params : List String) : Outcome :=
  match decide cfg e with
  | none => .generate
  | some p =>
    if nameMatch key p params.length then .use (renderNative p params)
    else .wrap key (renderNative p params)

/-- the identifier by which other types refer to the outcome, `gen` being the generated name -/
def Outcome.ident (gen : String) : Outcome → String
  | .generate => gen
  | .use i => i
  | .wrap n _ => n

end TypifyModel.RustExt

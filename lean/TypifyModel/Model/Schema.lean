import TypifyModel.Model.Json
/-! JSON Schema (draft-07) for the faithful fragment, as an AST, and its validity semantics
    `valid` — the oracle of C02/C03/C05/C09. Tied to python-jsonschema's Draft7Validator by the
    M4 correspondence. `$ref` makes recursion non-structural: `valid` takes fuel and answers
    `none` when it runs out (never `false`). -/
namespace TypifyModel

inductive Additional (α : Type) where
  | open_                 -- absent / true
  | closed                -- false
  | schema (s : α)
deriving Repr, Inhabited

inductive Schema where
  | any                                                   -- `true` / `{}`
  | never                                                 -- `false`
  | null
  | boolean
  | integer (lo hi : Option Int)                          -- bounds already combined with the format's range
  | number
  | string (minLen maxLen : Option Nat) (pattern : Option String)
  | enumVals (vs : List Json)                             -- `enum` (with or without `type`)
  | ref (name : String)                                   -- `#/definitions/name`
  | array (items : Schema) (minItems maxItems : Option Nat) (unique : Bool)
  | tuple (items : List Schema)                           -- `items: [..]` with minItems = maxItems = length
  | object (props : List (String × Schema)) (required : List String) (additional : Additional Schema)
  | oneOf (ss : List Schema)
  | anyOf (ss : List Schema)
  | allOf (ss : List Schema)
  | not (s : Schema)
deriving Repr, Inhabited

structure Doc where
  defs : List (String × Schema)
deriving Repr, Inhabited

def Doc.get (d : Doc) (k : String) : Option Schema :=
  (d.defs.find? (fun e => e.1 == k)).map (·.2)

namespace Validate

/-- third-party semantics the validity notion is parametric in (same parameter as `Serde.Ext`) -/
structure Ext where
  regex : String → String → Bool

def and3 : Option Bool → Option Bool → Option Bool
  | some a, some b => some (a && b)
  | _, _ => none

/-- all of a list of verdicts -/
def allV (f : Schema → Option Bool) : List Schema → Option Bool
  | [] => some true
  | s :: r => and3 (f s) (allV f r)

/-- number of `true` verdicts -/
def countV (f : Schema → Option Bool) : List Schema → Option Nat
  | [] => some 0
  | s :: r =>
    match f s, countV f r with
    | some b, some n => some (if b then n + 1 else n)
    | _, _ => none

def allJ (f : Json → Option Bool) : List Json → Option Bool
  | [] => some true
  | j :: r => and3 (f j) (allJ f r)

def zipV (f : Schema → Json → Option Bool) : List Schema → List Json → Option Bool
  | [], [] => some true
  | s :: ss, j :: js => and3 (f s j) (zipV f ss js)
  | _, _ => some false

/-- every member: declared property → its schema; otherwise per `additional` -/
def membersV (f : Schema → Json → Option Bool) (props : List (String × Schema))
    (additional : Additional Schema) : List (String × Json) → Option Bool
  | [] => some true
  | (k, v) :: r =>
    let here : Option Bool :=
      match props.find? (fun p => p.1 == k) with
      | some (_, s) => f s v
      | none =>
        match additional with
        | .open_ => some true
        | .closed => some false
        | .schema s => f s v
    and3 here (membersV f props additional r)

def distinctJ : List Json → Bool
  | [] => true
  | j :: r => !(r.any (· == j)) && distinctJ r

def strLen (s : String) : Nat := s.toList.length

/-- draft-07 validity (integers: an integer literal; `1.0` is outside the model's instance domain) -/
def valid (x : Ext) (d : Doc) : Nat → Schema → Json → Option Bool
  | 0, _, _ => none
  | f + 1, s, j =>
    match s with
    | .any => some true
    | .never => some false
    | .null => some (match j with | .null => true | _ => false)
    | .boolean => some (match j with | .bool _ => true | _ => false)
    | .integer lo hi =>
      some (match j with
        | .int n => (match lo with | some l => decide (l ≤ n) | none => true) &&
                    (match hi with | some h => decide (n ≤ h) | none => true)
        | _ => false)
    | .number => some (match j with | .int _ => true | .flt _ _ => true | _ => false)
    | .string mn mx pat =>
      some (match j with
        | .str t => (match mn with | some m => decide (m ≤ strLen t) | none => true) &&
                    (match mx with | some m => decide (strLen t ≤ m) | none => true) &&
                    (match pat with | some p => x.regex p t | none => true)
        | _ => false)
    | .enumVals vs => some (vs.any (· == j))
    | .ref k =>
      (match d.get k with
       | some s' => valid x d f s' j
       | none => some false)
    | .array items mn mx uniq =>
      (match j with
       | .arr xs =>
         and3 (some ((match mn with | some m => decide (m ≤ xs.length) | none => true) &&
                     (match mx with | some m => decide (xs.length ≤ m) | none => true) &&
                     (!uniq || distinctJ xs)))
              (allJ (valid x d f items) xs)
       | _ => some false)
    | .tuple items =>
      (match j with
       | .arr xs => zipV (valid x d f) items xs
       | _ => some false)
    | .object props req additional =>
      (match j with
       | .obj kvs =>
         and3 (some (req.all (fun r => (Json.lookup kvs r).isSome)))
              (membersV (valid x d f) props additional kvs)
       | _ => some false)
    | .oneOf ss => (countV (fun s' => valid x d f s' j) ss).map (· == 1)
    | .anyOf ss => (countV (fun s' => valid x d f s' j) ss).map (fun n => decide (0 < n))
    | .allOf ss => allV (fun s' => valid x d f s' j) ss
    | .not s' => (valid x d f s' j).map (!·)

end Validate
end TypifyModel

/-! JSON values as the generated code and serde_json see them.
    Numbers keep the distinction serde_json makes: an integer literal (`int`) versus a literal with a
    fraction or exponent (`flt m e` = m × 10^(-e), e.g. `1.0` = `flt 10 1`… kept canonical by the
    driver as mantissa/decimal-exponent with no trailing zero unless the value is integral, in which
    case `flt n 0` stands for `n.0`). Objects are association lists; the driver delivers them key-sorted
    and duplicate-free (serde_json's BTreeMap). -/
namespace TypifyModel

inductive Json where
  | null
  | bool (b : Bool)
  | int (n : Int)
  | flt (m : Int) (e : Nat)
  | str (s : String)
  | arr (xs : List Json)
  | obj (kvs : List (String × Json))
deriving Repr, Inhabited

namespace Json

def lookup (kvs : List (String × Json)) (k : String) : Option Json :=
  match kvs with
  | [] => none
  | (k', v) :: r => if k' = k then some v else lookup r k

def erase (kvs : List (String × Json)) (k : String) : List (String × Json) :=
  kvs.filter (fun kv => kv.1 ≠ k)

def keys (kvs : List (String × Json)) : List String := kvs.map (·.1)

/-- insertion into a key-sorted association list (replacing an equal key) -/
def insertSorted (k : String) (v : Json) : List (String × Json) → List (String × Json)
  | [] => [(k, v)]
  | (k', v') :: r =>
    if k < k' then (k, v) :: (k', v') :: r
    else if k = k' then (k, v) :: r
    else (k', v') :: insertSorted k v r

def sortObj (kvs : List (String × Json)) : List (String × Json) :=
  kvs.foldl (fun acc kv => insertSorted kv.1 kv.2 acc) []

end Json

-- structural equality of JSON values through mutual helpers (nested inductive)
mutual
def Json.beq : Json → Json → Bool
  | .null, .null => true
  | .bool a, .bool b => a == b
  | .int a, .int b => a == b
  | .flt m e, .flt m' e' => m == m' && e == e'
  | .str a, .str b => a == b
  | .arr xs, .arr ys => Json.beqList xs ys
  | .obj xs, .obj ys => Json.beqObj xs ys
  | _, _ => false
def Json.beqList : List Json → List Json → Bool
  | [], [] => true
  | x :: xs, y :: ys => Json.beq x y && Json.beqList xs ys
  | _, _ => false
def Json.beqObj : List (String × Json) → List (String × Json) → Bool
  | [], [] => true
  | (k, x) :: xs, (k', y) :: ys => k == k' && Json.beq x y && Json.beqObj xs ys
  | _, _ => false
end

instance : BEq Json := ⟨Json.beq⟩

end TypifyModel

import TypifyModel.Model.Exclusive
/-! `convert.rs` `convert_schema` / `convert_schema_object`: the shape dispatch — which conversion a schema object is handed to,
    as a function of the keywords it carries (schemars' grouping as in `Model/Exclusive.lean`: `metadata`, `instance_type`,
    `format`, `enum_values`, `const_value`, `subschemas`, `number`, `string`, `array`, `object`, `reference`; everything else is an
    extension and ignored). The match of the source is followed arm by arm, in order. Arms that rewrite the schema and dispatch
    again (`const` dropped, a type list that names every type dropped, a one-element type list read as that type, `[null, null]`)
    are followed (`resolve`). The `x-rust-type` extension and the conversion cache come first in the source; this model is about
    schemas without either (default settings ignore the extension).

    The last arm of the source is `todo!()`: `Arm.todo` marks the schemas on which ingestion panics. -/
namespace TypifyModel.Dispatch
open TypifyModel TypifyModel.Excl

inductive Arm where
  | never                  -- `Schema::Bool(false)`
  | permissive             -- `Schema::Bool(true)`, or an object without any validation keyword
  | nullOnly               -- a two-element type list with `null` whose enumerated values are all `null`
  | optionOf (t : JT)      -- a two-element type list with `null`: `Option` of the rest read with the other type
  | string | stringUntyped | enumString | integer | number | boolean
  | object | objectUntyped | array | arrayUntyped | arrayOfAny | null
  | reference | referenceTyped | referenceMerged
  | typedEnum | unknownEnum
  | allOf | anyOf | oneOf | not
  | subschemasMerged       -- several subschema keywords (or if / then / else) and nothing else
  | subschemasWithRest     -- subschema keywords next to other validation: merged into the rest
  | multiType (ts : List JT)
  | todo                   -- the last arm: `todo!("invalid (or unexpected) schema")`
  | malformed              -- not a schema schemars reads (outside the model)
deriving Repr, DecidableEq, Inhabited

/-- a rewriting arm's result: dispatch again on this schema -/
inductive Step where
  | done (a : Arm)
  | again (kvs : Kvs)
deriving Repr

def sameSet (a b : List JT) : Bool := a.all (fun x => b.contains x) && b.all (fun x => a.contains x)

def allTypes : List JT := [.null, .boolean, .object, .array, .number, .string, .integer]

def setType (kvs : Kvs) (t : Option Json) : Kvs :=
  let rest := kvs.filter (fun kv => kv.1 != "type")
  match t with
  | some j => ("type", j) :: rest
  | none => rest

def jtName : JT → String
  | .null => "null" | .boolean => "boolean" | .object => "object" | .array => "array"
  | .number => "number" | .string => "string" | .integer => "integer"

/-- exactly one of the subschema keywords, and which -/
def soleSub (kvs : Kvs) : Option String :=
  let present := Tag_subKeys.filter (fun k => has kvs k)
  match present with
  | [k] => some k
  | _ => none
where Tag_subKeys : List String := ["allOf", "anyOf", "oneOf", "not", "if", "then", "else"]

/-- there are enumerated values and they are all `null` -/
def onlyNullEnum (kvs : Kvs) : Bool :=
  match Json.lookup kvs "enum" with
  | some (.arr vs) => vs.all (fun v => match v with | .null => true | _ => false)
  | _ => false

/-- the first arm: a two-element type list with `null` -/
def armNullable (kvs : Kvs) (ts : List JT) : Option Step :=
  if ts.length == 2 && ts.contains .null then
    if onlyNullEnum kvs then some (.done .nullOnly) else
    match ts.find? (fun t => t != .null) with
    | some t => some (.done (.optionOf t))
    | none => some (.again (setType kvs (some (.str "null"))))
  else none

/-- which keyword groups a schema object has (what the match looks at besides the type) -/
structure Groups where
  fmt : Bool
  en : Bool
  cn : Bool
  sub : Bool
  num : Bool
  str : Bool
  arr : Bool
  obj : Bool
  rf : Bool
deriving Repr, DecidableEq

def groupsOf (kvs : Kvs) : Groups :=
  { fmt := has kvs "format", en := has kvs "enum", cn := has kvs "const", sub := subP kvs, num := numP kvs, str := strP kvs,
    arr := arrP kvs, obj := objP kvs, rf := has kvs "$ref" }

/-- the arm a lone subschema keyword is handed to -/
def soleArm (kvs : Kvs) : Arm :=
  match soleSub kvs with
  | some "allOf" => .allOf
  | some "anyOf" => .anyOf
  | some "oneOf" => .oneOf
  | some "not" => .not
  | _ => .subschemasMerged

/-- the arms for a single stated type (`single t`: the type is exactly `t`; `untyped`: no `type` at all; `one`: some single
    type) up to and including the subschema arms, in the order of the source: (guard, arm) -/
def typedArmsG (g : Groups) (sole : Arm) (single : JT → Bool) (untyped one : Bool) : List (Bool × Arm) :=
  let fmt := g.fmt
  let en := g.en
  let cn := g.cn
  let sub := g.sub
  let num := g.num
  let str := g.str
  let arr := g.arr
  let obj := g.obj
  let rf := g.rf
  [ -- strings
    (single .string && !en && !cn && !sub && !rf, .string),
    (untyped && !en && !cn && !sub && !num && str && !arr && !obj && !rf, .stringUntyped),
    (single .string && en && !cn && !sub && !rf, .enumString),
    -- integers, numbers
    (single .integer && !en && !cn && !sub && !rf, .integer),
    (single .number && !en && !cn && !sub && !rf, .number),
    -- boolean (enumerated values ignored)
    (single .boolean && !fmt && !cn && !sub && !rf, .boolean),
    -- objects
    (single .object && !fmt && !en && !cn && !sub && !rf, .object),
    (untyped && !fmt && !en && !cn && !sub && !num && !str && !arr && obj && !rf, .objectUntyped),
    -- arrays
    (single .array && !fmt && !en && !cn && !sub && arr && !rf, .array),
    (untyped && !fmt && !en && !cn && !sub && !num && !str && arr && !obj && !rf, .arrayUntyped),
    (single .array && !fmt && !en && !cn && !sub && !arr && !rf, .arrayOfAny),
    -- the permissive schema
    (untyped && !fmt && !en && !cn && !sub && !num && !str && !arr && !obj && !rf, .permissive),
    -- null
    (single .null && !en && !cn && !sub && !rf, .null),
    -- references
    (untyped && !fmt && !en && !cn && !sub && !num && !str && !arr && !obj && rf, .reference),
    (!fmt && !en && !cn && !sub && !num && !str && !arr && !obj && rf, .referenceTyped),
    (rf, .referenceMerged),
    -- enumerations of a non-string type / of no stated type
    (one && en, .typedEnum),
    (untyped && !fmt && en && !cn && !sub && !num && !str && !arr && !obj && !rf, .unknownEnum),
    -- subschemas alone
    (!fmt && !en && !cn && sub && !num && !str && !arr && !obj && !rf, sole),
    -- subschemas next to something else
    (sub, .subschemasWithRest) ]

def typedArms (kvs : Kvs) (single : JT → Bool) (untyped one : Bool) : List (Bool × Arm) :=
  typedArmsG (groupsOf kvs) (soleArm kvs) single untyped one

/-- the first arm whose guard holds; `none`: fall through to the rewriting arms -/
def armsTyped (kvs : Kvs) (single : JT → Bool) (untyped one : Bool) : Option Step :=
  ((typedArms kvs single untyped one).find? (fun ga => ga.1)).map (fun ga => .done ga.2)

/-- the last arms: `const` is dropped; a type list naming every type is dropped; a one-element list is that type; any other
    list becomes an untagged union of the types; everything else is the `todo!()` -/
def armsRewrite (kvs : Kvs) (ty : Ty) : Step :=
  if has kvs "const" then .again (kvs.filter (fun kv => kv.1 != "const"))
  else
    match ty with
    | .multi ts =>
      if allTypes.all (fun t => ts.contains t) then .again (setType kvs none)
      else match ts with
        | [t] => .again (setType kvs (some (.str (jtName t))))
        | _ =>
          if !has kvs "enum" && !has kvs "const" && !subP kvs && !has kvs "$ref" then .done (.multiType ts.eraseDups) else .done .todo
    | _ => .done .todo

def isSingle : Ty → JT → Bool
  | .single t', t => t' == t
  | _, _ => false
def isUntyped : Ty → Bool
  | .none => true
  | _ => false
def isOne : Ty → Bool
  | .single _ => true
  | _ => false

/-- one pass through the `match` of `convert_schema_object` -/
def step (kvs : Kvs) : Step :=
  let ty := tyOf kvs
  match ty with
  | .bad => .done .malformed
  | _ =>
  match (match ty with | .multi ts => armNullable kvs ts | _ => none) with
  | some s => s
  | none =>
  match armsTyped kvs (isSingle ty) (isUntyped ty) (isOne ty) with
  | some s => s
  | none => armsRewrite kvs ty

/-- the arm a schema ends in, rewriting arms followed -/
def resolve : Nat → Json → Arm
  | 0, _ => .malformed
  | f + 1, j =>
    match j with
    | .bool true => .permissive
    | .bool false => .never
    | .obj kvs =>
      (match step kvs with
       | .done a => a
       | .again kvs' => resolve f (.obj kvs'))
    | _ => .malformed

/-- the schema the `[T, null]` arm hands to `convert_option`: the other type alone, `null` removed from the enumerated values, a
    `null` default dropped -/
def optionInner (kvs : Kvs) (t : JT) : Kvs :=
  let kvs1 := setType kvs (some (.str (jtName t)))
  let kvs2 := kvs1.map (fun kv =>
    if kv.1 == "enum" then
      (match kv.2 with
       | .arr vs => (kv.1, Json.arr (vs.filter (fun v => match v with | .null => false | _ => true)))
       | _ => kv)
    else kv)
  kvs2.filter (fun kv => !(kv.1 == "default" && (match kv.2 with | .null => true | _ => false)))

/-- the arm the inner schema of an `Option` ends in -/
def optionInnerArm (f : Nat) (kvs : Kvs) (t : JT) : Arm := resolve f (.obj (optionInner kvs t))

end TypifyModel.Dispatch

import TypifyModel.Model.Exclusive
/-! `convert.rs` `convert_schema` / `convert_schema_object`: the shape dispatch — which conversion a schema object is handed to,
    as a function of the keywords it carries (schemars' grouping as in `Model/Exclusive.lean`: `metadata`, `instance_type`,
    `format`, `enum_values`, `const_value`, `subschemas`, `number`, `string`, `array`, `object`, `reference`; everything else is an
    extension and ignored). The match of the source is followed arm by arm, in order. Arms that rewrite the schema and dispatch
    again (`const` dropped, a type list that names every type dropped, a one-element type list read as that type, `[null, null]`)
    are followed (`resolve`). The `x-rust-type` extension and the conversion cache come first in the source; this model is about
    schemas without either (default settings ignore the extension).

    The last arm of the source is `todo!()`: `Arm.todo` marks the schemas on which ingestion panics. -/
namespace TypifyModel.Dispatch
open TypifyModel TypifyModel.Excl

inductive Arm where
  | never                  -- `Schema::Bool(false)`
  | permissive             -- `Schema::Bool(true)`, or an object without any validation keyword
  | nullOnly               -- a two-element type list with `null` whose enumerated values are all `null`
  | optionOf (t : JT)      -- a two-element type list with `null`: `Option` of the rest read with the other type
  | string | stringUntyped | enumString | integer | number | boolean
  | object | objectUntyped | array | arrayUntyped | arrayOfAny | null
  | reference | referenceTyped | referenceMerged
  | typedEnum | unknownEnum
  | allOf | anyOf | oneOf | not
  | subschemasMerged       -- several subschema keywords (or if / then / else) and nothing else
  | subschemasWithRest     -- subschema keywords next to other validation: merged into the rest
  | multiType (ts : List JT)
  | todo                   -- the last arm: `todo!("invalid (or unexpected) schema")`
  | malformed              -- not a schema schemars reads (outside the model)
deriving Repr, DecidableEq, Inhabited

/-- a rewriting arm's result: dispatch again on this schema -/
inductive Step where
  | done (a : Arm)
  | again (kvs : Kvs)
deriving Repr

def sameSet (a b : List JT) : Bool := a.all (fun x => b.contains x) && b.all (fun x => a.contains x)

def allTypes : List JT := [.null, .boolean, .object, .array, .number, .string, .integer]

def setType (kvs : Kvs) (t : Option Json) : Kvs :=
  let rest := kvs.filter (fun kv => kv.1 != "type")
  match t with
  | some j => ("type", j) :: rest
  | none => rest

def jtName : JT → String
  | .null => "null" | .boolean => "boolean" | .object => "object" | .array => "array"
  | .number => "number" | .string => "string" | .integer => "integer"

/-- exactly one of the subschema keywords, and which -/
def soleSub (kvs : Kvs) : Option String :=
  let present := Tag_subKeys.filter (fun k => has kvs k)
  match present with
  | [k] => some k
  | _ => none
where Tag_subKeys : List String := ["allOf", "anyOf", "oneOf", "not", "if", "then", "else"]

/-- there are enumerated values and they are all `null` -/
def onlyNullEnum (kvs : Kvs) : Bool :=
  match Json.lookup kvs "enum" with
  | some (.arr vs) => vs.all (fun v => match v with | .null => true | _ => false)
  | _ => false

/-- one pass through the `match` of `convert_schema_object` -/
def step (kvs : Kvs) : Step :=
  let ty := tyOf kvs
  let fmt := has kvs "format"
  let en := has kvs "enum"
  let cn := has kvs "const"
  let sub := subP kvs
  let num := numP kvs
  let str := strP kvs
  let arr := arrP kvs
  let obj := objP kvs
  let rf := has kvs "$ref"
  match ty with
  | .bad => .done .malformed
  | _ =>
  -- 1. `[T, null]`
  let arm1 : Option Step :=
    match ty with
    | .multi ts =>
      if ts.length == 2 && ts.contains .null then
        if onlyNullEnum kvs then some (.done .nullOnly) else
        match ts.find? (fun t => t != .null) with
        | some t => some (.done (.optionOf t))
        | none => some (.again (setType kvs (some (.str "null"))))
      else none
    | _ => none
  match arm1 with
  | some s => s
  | none =>
  let single (t : JT) : Bool := match ty with | .single t' => t' == t | _ => false
  let untyped : Bool := match ty with | .none => true | _ => false
  -- 2. strings
  if single .string && !en && !cn && !sub && !rf then .done .string
  else if untyped && !en && !cn && !sub && !num && str && !arr && !obj && !rf then .done .stringUntyped
  else if single .string && en && !cn && !sub && !rf then .done .enumString
  -- integers, numbers
  else if single .integer && !en && !cn && !sub && !rf then .done .integer
  else if single .number && !en && !cn && !sub && !rf then .done .number
  -- boolean (enumerated values ignored)
  else if single .boolean && !fmt && !cn && !sub && !rf then .done .boolean
  -- objects
  else if single .object && !fmt && !en && !cn && !sub && !rf then .done .object
  else if untyped && !fmt && !en && !cn && !sub && !num && !str && !arr && obj && !rf then .done .objectUntyped
  -- arrays
  else if single .array && !fmt && !en && !cn && !sub && arr && !rf then .done .array
  else if untyped && !fmt && !en && !cn && !sub && !num && !str && arr && !obj && !rf then .done .arrayUntyped
  else if single .array && !fmt && !en && !cn && !sub && !arr && !rf then .done .arrayOfAny
  -- the permissive schema
  else if untyped && !fmt && !en && !cn && !sub && !num && !str && !arr && !obj && !rf then .done .permissive
  -- null
  else if single .null && !en && !cn && !sub && !rf then .done .null
  -- references
  else if untyped && !fmt && !en && !cn && !sub && !num && !str && !arr && !obj && rf then .done .reference
  else if !fmt && !en && !cn && !sub && !num && !str && !arr && !obj && rf then .done .referenceTyped
  else if rf then .done .referenceMerged
  -- enumerations of a non-string type / of no stated type
  else if (match ty with | .single _ => true | _ => false) && en then .done .typedEnum
  else if untyped && !fmt && en && !cn && !sub && !num && !str && !arr && !obj then .done .unknownEnum
  -- subschemas alone
  else if !fmt && !en && !cn && sub && !num && !str && !arr && !obj then
    (match soleSub kvs with
     | some "allOf" => .done .allOf
     | some "anyOf" => .done .anyOf
     | some "oneOf" => .done .oneOf
     | some "not" => .done .not
     | _ => .done .subschemasMerged)
  -- subschemas next to something else
  else if sub then .done .subschemasWithRest
  -- `const` is dropped
  else if cn then .again (kvs.filter (fun kv => kv.1 != "const"))
  else
    match ty with
    | .multi ts =>
      if allTypes.all (fun t => ts.contains t) then .again (setType kvs none)
      else match ts with
        | [t] => .again (setType kvs (some (.str (jtName t))))
        | _ =>
          if !en && !cn && !sub && !rf then .done (.multiType ts.eraseDups) else .done .todo
    | _ => .done .todo

/-- the arm a schema ends in, rewriting arms followed -/
def resolve : Nat → Json → Arm
  | 0, _ => .malformed
  | f + 1, j =>
    match j with
    | .bool true => .permissive
    | .bool false => .never
    | .obj kvs =>
      (match step kvs with
       | .done a => a
       | .again kvs' => resolve f (.obj kvs'))
    | _ => .malformed

/-- the schema the `[T, null]` arm hands to `convert_option`: the other type alone, `null` removed from the enumerated values, a
    `null` default dropped -/
def optionInner (kvs : Kvs) (t : JT) : Kvs :=
  let kvs1 := setType kvs (some (.str (jtName t)))
  let kvs2 := kvs1.map (fun kv =>
    if kv.1 == "enum" then
      (match kv.2 with
       | .arr vs => (kv.1, Json.arr (vs.filter (fun v => match v with | .null => false | _ => true)))
       | _ => kv)
    else kv)
  kvs2.filter (fun kv => !(kv.1 == "default" && (match kv.2 with | .null => true | _ => false)))

/-- the arm the inner schema of an `Option` ends in -/
def optionInnerArm (f : Nat) (kvs : Kvs) (t : JT) : Arm := resolve f (.obj (optionInner kvs t))

end TypifyModel.Dispatch

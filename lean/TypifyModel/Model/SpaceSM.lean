import TypifyModel.Model.Names
/-! # SpaceSM — the `TypeSpace` bookkeeping as a state machine (C16)

Model of typify-impl/src/lib.rs: the fields of `TypeSpace` (`next_id`, `definitions`, `id_to_entry`,
`type_to_id`, `name_to_id`, `ref_to_id`), `assign` / `assign_type`, `id_for_schema`, `id_to_option`,
`type_to_option`, `convert_ref_type`, `add_ref_types_impl`, `add_ref_types`, `add_type_with_name`,
`add_root_schema`, the finalize loops and `TypeEntryEnum::finalize`.

The schema → entry conversion (convert.rs, 2 300 lines) is modelled for a *fragment* `Sch` only
(`convertLite`): `{"type":"string"}`, `{"type":"integer"}`, `{"type":"boolean"}`, `$ref`, arrays with one
item schema (`Vec`), `"type": [T, "null"]` (`Option`), objects with properties / required /
`additionalProperties: false`, string enums; every one optionally with a `title`.  Names follow
util.rs `get_type_name`, structs.rs `struct_members` / `struct_property`, convert.rs `convert_array`
(`…Item`), `convert_schema_object` (`…Inner`) and type_entry.rs `TypeEntryEnum::from_metadata`
(through `Names.variantNames`).  Everything else is answered `unsupported` by the driver's parser.

`break_cycles` is modelled on by-value-acyclic batches only: `checkAcyclic` searches the by-value
graph reachable from the batch's reserved ids; a cycle makes the model answer `unsupported` (the
real code inserts a `Box` there — that is C07's model `TypifyModel.Cycles`), no cycle means
`break_cycles` changes nothing (C07 `break_minimal`).

Associative containers (`BTreeMap`) are association lists: insertion conses, lookup takes the first
match, so an insertion under an existing key shadows the old binding exactly as `BTreeMap::insert`
replaces it.  Bugs are modelled as they are (`convert_ref_type` inserts into `name_to_id` without a
collision check; `assign_type` reuses by name without comparing structure).  Imports nothing
outside core + `Model.Names`. -/
namespace TypifyModel.Space
open TypifyModel.Names (Str)

/-- `TypeId` -/
local notation "Id" => Nat

/-- lib.rs `RefKey` -/
inductive RefKey where
  | root
  | defn (k : Str)
deriving DecidableEq, Repr, Inhabited

/-- lib.rs `Name` -/
inductive Name where
  | required (s : Str)
  | suggested (s : Str)
  | unknown
deriving DecidableEq, Repr, Inhabited

/-- the schema fragment (`title` is the only metadata that matters here; `description` is ignored by
    the dump, `default` is outside the fragment) -/
inductive Sch where
  | str (title : Option Str)
  | int (title : Option Str)
  | bool (title : Option Str)
  | ref (title : Option Str) (key : RefKey)
  | arr (title : Option Str) (item : Sch)
  /-- `"type": [T, "null"]`: `inner` is the same schema object with `"type": T` (it keeps the title) -/
  | nullable (inner : Sch)
  | obj (title : Option Str) (props : List (Str × Sch)) (req : List Str) (closed : Bool)
  | enumStr (title : Option Str) (values : List Str)
deriving Repr, Inhabited

/-- `metadata.title` of the schema object -/
def Sch.title : Sch → Option Str
  | .str t => t
  | .int t => t
  | .bool t => t
  | .ref t _ => t
  | .arr t _ => t
  | .nullable i => i.title
  | .obj t _ _ _ => t
  | .enumStr t _ => t

/-- `sanitize(_, Case::Pascal)` -/
def sanP (s : Str) : Str := Names.sanitize s .pascal

/-- util.rs `get_type_name` -/
def getTypeName (n : Name) (title : Option Str) : Option Str :=
  match n, title with
  | .required s, _ => some (sanP s)
  | .suggested s, none => some (sanP s)
  | _, some t => some (sanP t)
  | .unknown, none => none

/-! ## the IR of the fragment (type_entry.rs `TypeEntryDetails`) -/

/-- `StructProperty` (state is `Required` or `Optional`; `Default(_)` needs a `default`) -/
structure Field where
  name : Str
  rename : Option Str
  required : Bool
  ty : Id
deriving DecidableEq, Repr, Inhabited

inductive Details where
  /-- externally tagged, all variants simple: `(raw_name, ident_name)`; `bespoke` = `AllSimpleVariants` set -/
  | enum (name : Str) (variants : List (Str × Str)) (bespoke : Bool)
  | struct (name : Str) (props : List Field) (deny : Bool)
  /-- constraints `None` -/
  | newtype (name : Str) (inner : Id)
  | option (t : Id)
  | box (t : Id)
  | vec (t : Id)
  | boolean
  | integer (name : Str)
  | string
  | reference (t : Id)
deriving DecidableEq, Repr, Inhabited

/-- `TypeEntry::name` -/
def Details.name? : Details → Option Str
  | .enum n _ _ => some n
  | .struct n _ _ => some n
  | .newtype n _ => some n
  | _ => none

def Details.refTarget? : Details → Option Id
  | .reference t => some t
  | _ => none

/-- every type id mentioned by an entry -/
def Details.ids : Details → List Id
  | .struct _ ps _ => ps.map (·.ty)
  | .newtype _ t => [t]
  | .option t => [t]
  | .box t => [t]
  | .vec t => [t]
  | .reference t => [t]
  | _ => []

/-- cycles.rs `get_child_ids`: the members held by value -/
def Details.byValueIds : Details → List Id
  | .struct _ ps _ => ps.map (·.ty)
  | .newtype _ t => [t]
  | .option t => [t]
  | _ => []

inductive ErrKind where
  | invalidSchema
deriving DecidableEq, Repr, Inhabited

inductive Fault where
  | err (k : ErrKind)
  | panic
  | fuel
  | unsupported
deriving DecidableEq, Repr, Inhabited

/-- `Result<_, Error>` plus panic / fuel / outside-the-model -/
inductive R (α : Type) where
  | ok (a : α)
  | fail (f : Fault)
deriving DecidableEq, Repr

/-! ## the state -/

def alookup {α β : Type} [DecidableEq α] : List (α × β) → α → Option β
  | [], _ => none
  | (k, v) :: r, x => if k = x then some v else alookup r x

/-- lib.rs `TypeSpace` (the fields the bookkeeping uses) -/
structure State where
  nextId : Nat
  definitions : List RefKey
  idToEntry : List (Id × Details)
  typeToId : List (Details × Id)
  nameToId : List (Str × Id)
  refToId : List (RefKey × Id)
deriving DecidableEq, Repr, Inhabited

/-- `TypeSpace::default()` -/
def init : State :=
  { nextId := 1, definitions := [], idToEntry := [], typeToId := [], nameToId := [], refToId := [] }

def State.entry (σ : State) (i : Id) : Option Details := alookup σ.idToEntry i

def State.setEntry (σ : State) (i : Id) (e : Details) : State :=
  { σ with idToEntry := (i, e) :: σ.idToEntry }

/-- `assign_type` (with `assign` inlined): `Reference` passes through; a named entry is reused BY NAME
    without any structural comparison; an unnamed one is reused by structure through `type_to_id` -/
def assignType (e : Details) (σ : State) : Id × State :=
  match e.refTarget? with
  | some t => (t, σ)
  | none =>
    match e.name? with
    | some n =>
      match alookup σ.nameToId n with
      | some id => (id, σ)
      | none =>
        (σ.nextId, { σ with nextId := σ.nextId + 1, nameToId := (n, σ.nextId) :: σ.nameToId,
                            idToEntry := (σ.nextId, e) :: σ.idToEntry })
    | none =>
      match alookup σ.typeToId e with
      | some id => (id, σ)
      | none =>
        (σ.nextId, { σ with nextId := σ.nextId + 1, typeToId := (e, σ.nextId) :: σ.typeToId,
                            idToEntry := (σ.nextId, e) :: σ.idToEntry })

/-- `id_to_option` -/
def idToOption (t : Id) (σ : State) : Id × State := assignType (.option t) σ

/-- `id_to_box` -/
def idToBox (t : Id) (σ : State) : Id × State := assignType (.box t) σ

/-- structs.rs `has_default` with no `default` value: Option / Vec (/ Map / Unit, outside the fragment)
    have an intrinsic default; a missing entry (forward `$ref`) does not -/
def hasIntrinsicDefault : Option Details → Bool
  | some (.option _) => true
  | some (.vec _) => true
  | _ => false

/-- the name handed to a property's schema: `format!("{}_{}", base, prop_name.to_snake_case())` -/
def propName (base : Option Str) (pn : Str) : Name :=
  match base with
  | some b => .suggested (b ++ '_' :: Names.toSnake pn)
  | none => .unknown

/-- convert.rs `convert_array`: `Name::Suggested(format!("{}Item", get_type_name(..)))` -/
def itemName (n : Name) (title : Option Str) : Name :=
  match getTypeName n title with
  | some s => .suggested (s ++ "Item".toList)
  | none => .unknown

/-- convert.rs, the `[T, null]` arm: `Required(name)` becomes `Suggested(name + "Inner")` -/
def innerName (n : Name) : Name :=
  match n with
  | .required s => .suggested (s ++ "Inner".toList)
  | _ => n

/-- structs.rs `struct_property` after `id_for_schema` answered `p = (type_id, space)`: a required
    property keeps the id; an optional one keeps it when the type has an intrinsic default and is
    wrapped by `id_to_option` otherwise -/
def propResult (req : List Str) (pn : Str) (p : Id × State) : R (Field × State) :=
  let rc := Names.recase pn .snake
  if pn ∈ req then .ok ({ name := rc.1, rename := rc.2, required := true, ty := p.1 }, p.2)
  else if hasIntrinsicDefault (p.2.entry p.1) then
    .ok ({ name := rc.1, rename := rc.2, required := false, ty := p.1 }, p.2)
  else
    let q := idToOption p.1 p.2
    .ok ({ name := rc.1, rename := rc.2, required := false, ty := q.1 }, q.2)

/-- structs.rs `struct_property` -/
def structProperty (rec : Name → Sch → State → R (Details × State)) (base : Option Str)
    (req : List Str) (pn : Str) (s : Sch) (σ : State) : R (Field × State) :=
  match rec (propName base pn) s σ with
  | .fail f => .fail f
  | .ok (e, σ1) => propResult req pn (assignType e σ1)

/-- structs.rs `struct_members`, the loop over `validation.properties` (BTreeMap order = the order of
    the list handed in by the parser) -/
def structMembers (rec : Name → Sch → State → R (Details × State)) (base : Option Str)
    (req : List Str) : List (Str × Sch) → State → R (List Field × State)
  | [], σ => .ok ([], σ)
  | (pn, s) :: ps, σ =>
    match structProperty rec base req pn s σ with
    | .fail f => .fail f
    | .ok (fld, σ1) =>
      match structMembers rec base req ps σ1 with
      | .fail f => .fail f
      | .ok (fs, σ2) => .ok (fld :: fs, σ2)

/-- insertion before the first element that is not smaller (keeps the order of equal names) -/
def insertField (x : Field) : List Field → List Field
  | [] => [x]
  | y :: ys => if Names.strLe x.name y.name then x :: y :: ys else y :: insertField x ys

/-- `properties.sort_by(|a, b| a.name.cmp(&b.name))`: a stable sort by identifier (byte order); written
    as a structurally recursive insertion sort so that the kernel can evaluate it -/
def sortFields : List Field → List Field
  | [] => []
  | x :: xs => insertField x (sortFields xs)

/-- `convert_schema` on the fragment; the returned entry is not yet assigned an id.
    Fuel bounds the nesting depth of the schema. -/
def convertLite : Nat → Name → Sch → State → R (Details × State)
  | 0, _, _, _ => .fail .fuel
  | f + 1, n, s, σ =>
    match s with
    | .str _ => .ok (.string, σ)
    | .int _ => .ok (.integer "i64".toList, σ)
    | .bool _ => .ok (.boolean, σ)
    | .ref _ k =>
      -- convert_reference: `.unwrap_or_else(|| panic!("$ref {} is missing", ..))`
      match alookup σ.refToId k with
      | none => .fail .panic
      | some id => .ok (.reference id, σ)
    | .arr t item =>
      match convertLite f (itemName n t) item σ with
      | .fail e => .fail e
      | .ok (e, σ1) =>
        let p := assignType e σ1
        .ok (.vec p.1, p.2)
    | .nullable inner =>
      -- convert_option: convert_schema(inner), then type_to_option
      match convertLite f (innerName n) inner σ with
      | .fail e => .fail e
      | .ok (e, σ1) =>
        let p := assignType e σ1
        .ok (.option p.1, p.2)
    | .obj t props req closed =>
      -- convert_object, "the typical case": struct_members first, then
      -- TypeEntryStruct::from_metadata (`get_type_name(..).unwrap()`)
      match structMembers (convertLite f) (getTypeName n t) req props σ with
      | .fail e => .fail e
      | .ok (fs, σ1) =>
        match getTypeName n t with
        | none => .fail .panic
        | some nm => .ok (.struct nm (sortFields fs) closed, σ1)
    | .enumStr t vals =>
      if vals = [] then .fail (.err .invalidSchema)
      else
        match Names.variantNames vals with
        | .panic => .fail .panic
        | .ok idents =>
          match getTypeName n t with
          | none => .fail .panic
          | some nm => .ok (.enum nm (vals.zip idents) false, σ)

/-- `id_for_schema` (no `default` in the fragment) -/
def idForSchema (fuel : Nat) (n : Name) (s : Sch) (σ : State) : R (Id × State) :=
  match convertLite fuel n s σ with
  | .fail e => .fail e
  | .ok (e, σ1) => .ok (assignType e σ1)

/-- `convert_ref_type`: the definition's entry is put at its pre-assigned id; unnamed results and
    references are wrapped in a newtype; `name_to_id.insert` happens WITHOUT a collision check -/
def convertRefType (fuel : Nat) (n : Name) (s : Sch) (tid : Id) (σ : State) : R State :=
  match convertLite fuel n s σ with
  | .fail e => .fail e
  | .ok (e, σ1) =>
    let named : R (Details × State) :=
      match e.refTarget? with
      | some t =>
        match getTypeName n s.title with
        | none => .fail .panic
        | some nm => .ok (.newtype nm t, σ1)
      | none =>
        match e.name? with
        | some _ => .ok (e, σ1)
        | none =>
          let p := assignType e σ1
          match getTypeName n s.title with
          | none => .fail .panic
          | some nm => .ok (.newtype nm p.1, p.2)
    match named with
    | .fail e => .fail e
    | .ok (ent, σ2) =>
      .ok { σ2 with
            nameToId := (match ent.name? with
                         | some nm => (nm, tid) :: σ2.nameToId
                         | none => σ2.nameToId),
            idToEntry := (tid, ent) :: σ2.idToEntry }

/-- `TypeEntry::finalize` on the fragment: `TypeEntryEnum::finalize` sets `AllSimpleVariants`
    (not untagged, non-empty, all simple); `check_defaults` has nothing to check -/
def finalizeEntry : Details → Details
  | .enum n vs _ => .enum n vs (!vs.isEmpty)
  | d => d

/-- `for index in base..self.next_id { get(..).unwrap().clone().finalize(); insert }` -/
def finalizeIds : List Id → State → R State
  | [], σ => .ok σ
  | i :: r, σ =>
    match σ.entry i with
    | none => .fail .panic
    | some e => finalizeIds r (σ.setEntry i (finalizeEntry e))

def finalizeFrom (base : Id) (σ : State) : R State :=
  finalizeIds (List.range' base (σ.nextId - base)) σ

/-! ### `break_cycles` on acyclic batches -/

inductive Acy where
  | ok | cyclic | dangling | fuel
deriving DecidableEq, Repr

def Acy.and : Acy → Acy → Acy
  | .cyclic, _ => .cyclic
  | _, .cyclic => .cyclic
  | .fuel, _ => .fuel
  | _, .fuel => .fuel
  | .dangling, _ => .dangling
  | _, .dangling => .dangling
  | .ok, .ok => .ok

/-- depth-first search of the by-value graph below `i`; `path` = the ids on the current path -/
def acyclicFrom (σ : State) : Nat → List Id → Id → Acy
  | 0, _, _ => .fuel
  | f + 1, path, i =>
    if i ∈ path then .cyclic
    else
      match σ.entry i with
      | none => .dangling       -- `id_to_entry.get_mut(type_id).unwrap()` panics
      | some e => (e.byValueIds.map (acyclicFrom σ f (i :: path))).foldl Acy.and .ok

/-- `break_cycles(lo..hi)` restricted to graphs where it has nothing to do -/
def checkAcyclic (σ : State) (lo hi : Id) : R Unit :=
  match ((List.range' lo (hi - lo)).map (acyclicFrom σ (σ.nextId + 1) [])).foldl Acy.and .ok with
  | .ok => .ok ()
  | .cyclic => .fail .unsupported
  | .dangling => .fail .panic
  | .fuel => .fail .fuel

/-! ### `add_ref_types_impl` -/

/-- the loop `ref_to_id.insert(ref_name, base_id + index); definitions.insert(ref_name, schema)` -/
def reserve (base : Id) : List (RefKey × Sch) → Nat → State → State
  | [], _, σ => σ
  | (k, _) :: r, i, σ =>
    reserve base r (i + 1)
      { σ with refToId := (k, base + i) :: σ.refToId, definitions := k :: σ.definitions }

def keyName : RefKey → Name
  | .defn d => .required d
  | .root => .unknown

/-- the loop calling `convert_ref_type` for every definition with its pre-assigned id -/
def convertDefs (fuel : Nat) (base : Id) : List (RefKey × Sch) → Nat → State → R State
  | [], _, σ => .ok σ
  | (k, s) :: r, i, σ =>
    match convertRefType fuel (keyName k) s (base + i) σ with
    | .fail e => .fail e
    | .ok σ1 => convertDefs fuel base r (i + 1) σ1

def addRefTypesImpl (fuel : Nat) (defs : List (RefKey × Sch)) (σ : State) : R State :=
  let base := σ.nextId
  let σ1 := reserve base defs 0 { σ with nextId := σ.nextId + defs.length }
  match convertDefs fuel base defs 0 σ1 with
  | .fail e => .fail e
  | .ok σ2 =>
    match checkAcyclic σ2 base (base + defs.length) with
    | .fail e => .fail e
    | .ok () => finalizeFrom base σ2

def defKeys (defs : List (Str × Sch)) : List (RefKey × Sch) := defs.map (fun d => (RefKey.defn d.1, d.2))

/-- `add_ref_types` -/
def addRefTypes (fuel : Nat) (defs : List (Str × Sch)) (σ : State) : R State :=
  addRefTypesImpl fuel (defKeys defs) σ

/-- `match name_hint { Some(s) => Name::Suggested(s), None => Name::Unknown }` -/
def hintName : Option Str → Name
  | some h => .suggested h
  | none => .unknown

/-- `add_type_with_name` -/
def addTypeWithName (fuel : Nat) (s : Sch) (hint : Option Str) (σ : State) : R (Id × State) :=
  let base := σ.nextId
  match idForSchema fuel (hintName hint) s σ with
  | .fail e => .fail e
  | .ok (id, σ1) =>
    match finalizeFrom base σ1 with
    | .fail e => .fail e
    | .ok σ2 => .ok (id, σ2)

/-- the definitions handed to `add_ref_types_impl` by `add_root_schema`: all of `definitions`, then the
    root schema itself when it has a title -/
def rootDefs (root : Sch) (defs : List (Str × Sch)) : List (RefKey × Sch) :=
  defKeys defs ++ (if root.title.isSome then [(RefKey.root, root)] else [])

/-- `add_root_schema` -/
def addRootSchema (fuel : Nat) (root : Sch) (defs : List (Str × Sch)) (σ : State) :
    R (Option Id × State) :=
  match addRefTypesImpl fuel (rootDefs root defs) σ with
  | .fail e => .fail e
  | .ok σ1 => .ok (if root.title.isSome then alookup σ1.refToId .root else none, σ1)

/-! ### histories -/

inductive Call where
  | refTypes (defs : List (Str × Sch))
  | rootSchema (root : Sch) (defs : List (Str × Sch))
  | typeWithName (s : Sch) (hint : Option Str)
deriving Repr, Inhabited

/-- one API call: the `TypeId` it returned (if any) and the new state -/
def step (fuel : Nat) (c : Call) (σ : State) : R (Option Id × State) :=
  match c with
  | .refTypes defs =>
    match addRefTypes fuel defs σ with
    | .fail e => .fail e
    | .ok σ1 => .ok (none, σ1)
  | .rootSchema root defs => addRootSchema fuel root defs σ
  | .typeWithName s hint =>
    match addTypeWithName fuel s hint σ with
    | .fail e => .fail e
    | .ok (id, σ1) => .ok (some id, σ1)

/-- a history of calls on one `TypeSpace`; stops at the first failing call -/
def run (fuel : Nat) : List Call → State → R (State × List (Option Id))
  | [], σ => .ok (σ, [])
  | c :: cs, σ =>
    match step fuel c σ with
    | .fail e => .fail e
    | .ok (r, σ1) =>
      match run fuel cs σ1 with
      | .fail e => .fail e
      | .ok (σ2, rs) => .ok (σ2, r :: rs)

end TypifyModel.Space

/-! `convert_object` (convert.rs): whether an object schema becomes a map or a struct, and what the map's keys and values
    are read by. The members themselves are converted recursively by the real code (`struct_members`, `make_map`); this
    model is about the selection, tied to the code by the M0 correspondence of `./check C10` over the keyword lattice. -/
namespace TypifyModel.ConvertObject

inductive Addl where
  | absent | true_ | false_ | schema
deriving Repr, DecidableEq, Inhabited

structure ObjV where
  /-- `None` in the source: no object keyword at all -/
  present : Bool := true
  required : Nat := 0                 -- number of required names
  properties : Nat := 0
  patternProps : Nat := 0
  patternSame : Bool := true          -- all pattern property schemas are equal
  additional : Addl := .absent
  propertyNames : Bool := false
deriving Repr, DecidableEq, Inhabited

inductive KeyBy where
  | string | propertyNames | patterns
deriving Repr, DecidableEq, Inhabited

inductive ValBy where
  | any | additional | patternSchema
deriving Repr, DecidableEq, Inhabited

inductive Out where
  | map (k : KeyBy) (v : ValBy)
  | struct
deriving Repr, DecidableEq, Inhabited

def canHandlePatternProperties (v : ObjV) : Bool :=
  v.required == 0 && v.properties == 0 && v.patternProps > 0 && v.patternSame &&
  (v.additional == .absent || v.additional == .false_) && !v.propertyNames

def convertObject (v : ObjV) : Out :=
  if !v.present then .map .string .any else
  if v.required == 0 && v.properties == 0 && v.patternProps == 0 && v.additional != .false_ then
    .map (if v.propertyNames then .propertyNames else .string)
         (match v.additional with | .schema => .additional | _ => .any)
  else if canHandlePatternProperties v then .map .patterns .patternSchema
  else .struct

end TypifyModel.ConvertObject

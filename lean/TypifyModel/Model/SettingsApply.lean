import TypifyModel.Model.Render
/-! Definitions used to state C14 ("replacement, conversion, patch, derive and map-type settings apply
    everywhere") over the Render model.

    * `Tok` / `typeToks` / `flat`: a type expression (`type_ident`, type_entry.rs:1663-1830) as a list of
      tokens that keeps apart (a) identifiers of generated types, which are read from the *entry* at
      render time, (b) the configured map type, (c) fixed text (std paths, builtin and native paths,
      punctuation). `Proofs/Lemmas/SettingsApplyLemmas.lean` proves `typeIdent = flat ∘ typeToks`.
    * `typeExprs`: every type string of an emitted item (fields, variant payloads, impl headers).
    * `childIds`: the ids an entry refers to.
    * `typeDef` / `wire`: the projections of an item that the builder setting / no setting may change. -/
namespace TypifyModel.SettingsApply
open TypifyModel TypifyModel.Render

inductive Tok where
  | name (n : String)     -- identifier of a generated type: the `name` of an enum/struct/newtype entry
  | mapTy                 -- the configured map type (`settings.map_type`)
  | lit (s : String)      -- fixed text
deriving Repr, DecidableEq, Inhabited

def Tok.text (st : Settings) : Tok → String
  | .name n => n
  | .mapTy => st.mapType
  | .lit s => s

def flat (st : Settings) : List Tok → String
  | [] => ""
  | t :: r => t.text st ++ flat st r

def commaToks : List (List Tok) → List Tok
  | [] => []
  | [a] => a
  | a :: r => a ++ [.lit ","] ++ commaToks r

/-- string→any maps are `::serde_json::Map` whatever the configured map type (type_entry.rs:1743) -/
def isStrAny (σ : Space) (k v : Id) : Bool :=
  match σ.get k, σ.get v with
  | some ⟨.string, _, _⟩, some ⟨.jsonValue, _, _⟩ => true
  | _, _ => false

/-- `type_ident` as tokens; mirrors `Render.typeIdent` arm by arm -/
def typeToks (σ : Space) : Nat → Id → List Tok
  | 0, _ => [.lit "?"]
  | f + 1, t =>
    match σ.get t with
    | none => [.lit "?"]
    | some ent =>
      match ent.details with
      | .enum n .. | .struct n .. | .newtype n .. => [.name n]
      | .option t' =>
        (match σ.get t' with
         | some ⟨.option _, _, _⟩ => typeToks σ f t'
         | _ => [.lit "::std::option::Option<"] ++ typeToks σ f t' ++ [.lit ">"])
      | .box t' => [.lit "::std::boxed::Box<"] ++ typeToks σ f t' ++ [.lit ">"]
      | .vec t' => [.lit "::std::vec::Vec<"] ++ typeToks σ f t' ++ [.lit ">"]
      | .set t' => [.lit "Vec<"] ++ typeToks σ f t' ++ [.lit ">"]
      | .map k v =>
        (match σ.get k, σ.get v with
         | some ⟨.string, _, _⟩, some ⟨.jsonValue, _, _⟩ =>
           [.lit "::serde_json::Map<::std::string::String,::serde_json::Value>"]
         | _, _ => [Tok.mapTy, .lit "<"] ++ typeToks σ f k ++ [.lit ","] ++ typeToks σ f v ++ [.lit ">"])
      | .tuple ts =>
        (match ts with
         | [a] => [.lit "("] ++ typeToks σ f a ++ [.lit ",)"]
         | _ => [.lit "("] ++ commaToks (ts.map (typeToks σ f)) ++ [.lit ")"])
      | .array t' n => [.lit "["] ++ typeToks σ f t' ++ [.lit (";" ++ toString n ++ "usize]")]
      | .native name ps =>
        if ps.isEmpty then [.lit name]
        else [.lit name, .lit "<"] ++ commaToks (ps.map (typeToks σ f)) ++ [.lit ">"]
      | .unit => [.lit "()"]
      | .string => [.lit "::std::string::String"]
      | .boolean => [.lit "bool"]
      | .jsonValue => [.lit "::serde_json::Value"]
      | .integer n | .float n => [.lit n]
      | .reference _ => [.lit "?"]

/-- the type strings an impl header mentions -/
def implTys : ImplK → List String
  | .fromInner ty | .tryFromInner ty | .intoInner ty | .fromVariant ty => [ty]
  | _ => []

def variantTys (v : VariantS) : List String := v.tys ++ v.fields.map (·.ty)

/-- every type expression of an emitted item -/
def typeExprs (it : ItemS) : List String :=
  it.fields.map (·.ty) ++ (it.variants.map variantTys).flatten ++ (it.impls.map implTys).flatten

def variantIds (v : Variant) : List Id :=
  match v.details with
  | .simple => []
  | .item t => [t]
  | .tuple ts => ts
  | .struct ps => ps.map (·.ty)

/-- the ids a named entry refers to (`get_child_ids` restricted to named entries) -/
def childIds (ent : Entry) : List Id :=
  match ent.details with
  | .struct _ ps _ _ => ps.map (·.ty)
  | .enum _ _ vs _ _ _ => (vs.map variantIds).flatten
  | .newtype _ inner _ _ => [inner]
  | _ => []

/-- how a type expression of an item is made from its entry's child ids: the type of one child, or
    a tuple of children (1-tuples print as `(T,)`) -/
def ExprOf (st : Settings) (σ : Space) (ids : List Id) (s : String) : Prop :=
  (∃ t, t ∈ ids ∧ s = typeIdent st σ fuel t) ∨
  (∃ a, a ∈ ids ∧ s = "(" ++ typeIdent st σ fuel a ++ ",)") ∨
  (∃ ts : List Id, (∀ t, t ∈ ts → t ∈ ids) ∧ s = "(" ++ commaSep (ts.map (typeIdent st σ fuel)) ++ ")")

/-- no entry of the space carries the name `n` (evaluated on IR dumps by the check) -/
def NoEntryNamed (σ : Space) (n : String) : Prop :=
  ∀ e, e ∈ σ.entries → e.2.details.name? ≠ some n

instance (σ : Space) (n : String) : Decidable (NoEntryNamed σ n) := by
  unfold NoEntryNamed; infer_instance

/-- the type-definition part of an item: everything except the `builder()` inherent impl -/
structure TypeDef where
  name : String
  kind : String
  isPub : Bool
  derives : List String
  serde : List String
  fields : List FieldS
  variants : List VariantS
  impls : List ImplK
  displayArms : Option (List (String × String))
  fromstrArms : Option (List (String × String))

def typeDef (it : ItemS) : TypeDef :=
  ⟨it.name, it.kind, it.isPub, it.derives, it.serde, it.fields, it.variants,
   it.impls.filter (· ≠ .builderFn), it.displayArms, it.fromstrArms⟩

/-- the type-definition part minus the derive list -/
def typeDefNoDerives (it : ItemS) : TypeDef := { typeDef it with derives := [] }

/-- erase the path of `skip_serializing_if` (the only serde argument that mentions a setting) -/
def eraseSkip : SerdeArg → SerdeArg
  | .skipIf _ => .skipIf ""
  | a => a

def fieldWire (f : FieldS) : String × List SerdeArg := (f.name, f.serde.map eraseSkip)

/-- what decides the wire format of an item given the wire formats of its member types: names, kind,
    serde attributes, member names and arities — no type strings, derives or impls -/
def wire (it : ItemS) :
    String × String × List String × List (String × List SerdeArg) ×
      List (String × List String × String × Nat × List (String × List SerdeArg)) :=
  (it.name, it.kind, it.serde, it.fields.map fieldWire,
   it.variants.map fun v => (v.name, v.serde, v.kind, v.tys.length, v.fields.map fieldWire))

end TypifyModel.SettingsApply

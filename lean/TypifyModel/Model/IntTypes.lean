/-! Rust integer types as typify names them, with their true ranges (the language's, not typify's). -/
namespace TypifyModel

inductive RTy
  | i8 | u8 | i16 | u16 | i32 | u32 | i64 | u64 | nzu8 | nzu16 | nzu32 | nzu64
deriving DecidableEq, Repr, Inhabited

/-- inclusive range of values the Rust type can hold -/
def RTy.lo : RTy → Int
  | .i8 => -128 | .u8 => 0 | .i16 => -32768 | .u16 => 0
  | .i32 => -2147483648 | .u32 => 0 | .i64 => -9223372036854775808 | .u64 => 0
  | .nzu8 => 1 | .nzu16 => 1 | .nzu32 => 1 | .nzu64 => 1

def RTy.hi : RTy → Int
  | .i8 => 127 | .u8 => 255 | .i16 => 32767 | .u16 => 65535
  | .i32 => 2147483647 | .u32 => 4294967295
  | .i64 => 9223372036854775807 | .u64 => 18446744073709551615
  | .nzu8 => 255 | .nzu16 => 65535 | .nzu32 => 4294967295 | .nzu64 => 18446744073709551615

def RTy.isNonZero : RTy → Bool
  | .nzu8 | .nzu16 | .nzu32 | .nzu64 => true
  | _ => false

/-- the type name typify stores in `TypeEntryDetails::Integer` -/
def RTy.name : RTy → String
  | .i8 => "i8" | .u8 => "u8" | .i16 => "i16" | .u16 => "u16"
  | .i32 => "i32" | .u32 => "u32" | .i64 => "i64" | .u64 => "u64"
  | .nzu8 => "::std::num::NonZeroU8" | .nzu16 => "::std::num::NonZeroU16"
  | .nzu32 => "::std::num::NonZeroU32" | .nzu64 => "::std::num::NonZeroU64"

def RTy.inRange (t : RTy) (n : Int) : Prop := t.lo ≤ n ∧ n ≤ t.hi

instance (t : RTy) (n : Int) : Decidable (t.inRange n) := by unfold RTy.inRange; infer_instance

/-- one row of `convert_integer`'s `formats` table: JSON-Schema format, Rust type, NonZero type,
    and the type's MIN and MAX *as f64* (exact integer value of that double) -/
structure FormatRow where
  name : String
  ty : RTy
  nz : RTy
  min : Int
  max : Int
deriving Repr, DecidableEq

end TypifyModel

/-! Model of the `semver` crate 1.0.26 as used by typify (`VersionReq::parse`, `Version::parse`,
    `VersionReq::matches`): src/parse.rs, src/eval.rs, src/impls.rs (`Ord for Prerelease`).
    Strings are lists of characters; the Rust code works on bytes and accepts only ASCII, so any
    non-ASCII character is an "unexpected character" in both. Numbers are `Nat`; the parser rejects
    components above `u64::MAX` as the crate does (`checked_mul`/`checked_add`). Build metadata is
    parsed and dropped (it never takes part in matching). Nothing is out of the model's domain. -/
namespace TypifyModel.Semver

/-- one dot-separated pre-release identifier. Numeric identifiers have no leading zero (the parser
    rejects them), so comparing them "by length, then as strings" is comparing the numbers. -/
inductive Ident
  | num (n : Nat)
  | str (s : List Char)
deriving Repr, DecidableEq

/-- `Prerelease`: `[]` is `Prerelease::EMPTY` (a release) -/
abbrev Pre := List Ident

structure Version where
  major : Nat
  minor : Nat
  patch : Nat
  pre : Pre := []
deriving Repr, DecidableEq

inductive Op
  | exact | greater | greaterEq | less | lessEq | tilde | caret | wildcard
deriving Repr, DecidableEq

structure Comparator where
  op : Op
  major : Nat
  minor : Option Nat
  patch : Option Nat
  pre : Pre := []
deriving Repr, DecidableEq

/-- `VersionReq { comparators }` -/
abbrev Req := List Comparator

/-! ## ordering of pre-release tags (impls.rs `impl Ord for Prerelease`) -/

/-- `Ord::cmp` on `str` restricted to ASCII: lexicographic by code point, shorter prefix first -/
def cmpChars : List Char → List Char → Ordering
  | [], [] => .eq
  | [], _ :: _ => .lt
  | _ :: _, [] => .gt
  | a :: as, b :: bs =>
    if a.toNat < b.toNat then .lt else if b.toNat < a.toNat then .gt else cmpChars as bs

def cmpNat (a b : Nat) : Ordering :=
  if a < b then .lt else if b < a then .gt else .eq

def cmpIdent : Ident → Ident → Ordering
  | .num a, .num b => cmpNat a b
  | .num _, .str _ => .lt
  | .str _, .num _ => .gt
  | .str a, .str b => cmpChars a b

/-- the identifier-by-identifier loop; a longer list wins when all preceding fields are equal -/
def cmpIdents : Pre → Pre → Ordering
  | [], [] => .eq
  | [], _ :: _ => .lt
  | _ :: _, [] => .gt
  | a :: as, b :: bs =>
    match cmpIdent a b with
    | .eq => cmpIdents as bs
    | o => o

/-- `Prerelease::cmp`: a release (empty) is greater than every pre-release -/
def cmpPre : Pre → Pre → Ordering
  | [], [] => .eq
  | [], _ :: _ => .gt
  | _ :: _, [] => .lt
  | a :: as, b :: bs => cmpIdents (a :: as) (b :: bs)

/-! ## eval.rs -/

def matchesExact (c : Comparator) (v : Version) : Bool :=
  if v.major ≠ c.major then false else
  match c.minor, c.patch with
  | some mi, some pa =>
    if v.minor ≠ mi then false else if v.patch ≠ pa then false else decide (v.pre = c.pre)
  | some mi, none => if v.minor ≠ mi then false else decide (v.pre = c.pre)
  | none, some pa => if v.patch ≠ pa then false else decide (v.pre = c.pre)
  | none, none => decide (v.pre = c.pre)

def matchesGreater (c : Comparator) (v : Version) : Bool :=
  if v.major ≠ c.major then decide (v.major > c.major) else
  match c.minor with
  | none => false
  | some mi =>
    if v.minor ≠ mi then decide (v.minor > mi) else
    match c.patch with
    | none => false
    | some pa =>
      if v.patch ≠ pa then decide (v.patch > pa) else cmpPre v.pre c.pre == .gt

def matchesLess (c : Comparator) (v : Version) : Bool :=
  if v.major ≠ c.major then decide (v.major < c.major) else
  match c.minor with
  | none => false
  | some mi =>
    if v.minor ≠ mi then decide (v.minor < mi) else
    match c.patch with
    | none => false
    | some pa =>
      if v.patch ≠ pa then decide (v.patch < pa) else cmpPre v.pre c.pre == .lt

/-- `ver.pre >= cmp.pre` -/
def preGe (v : Version) (c : Comparator) : Bool := cmpPre v.pre c.pre != .lt

def matchesTilde (c : Comparator) (v : Version) : Bool :=
  if v.major ≠ c.major then false else
  match c.minor, c.patch with
  | some mi, some pa =>
    if v.minor ≠ mi then false else if v.patch ≠ pa then decide (v.patch > pa) else preGe v c
  | some mi, none => if v.minor ≠ mi then false else preGe v c
  | none, some pa => if v.patch ≠ pa then decide (v.patch > pa) else preGe v c
  | none, none => preGe v c

def matchesCaret (c : Comparator) (v : Version) : Bool :=
  if v.major ≠ c.major then false else
  match c.minor with
  | none => true
  | some minor =>
    match c.patch with
    | none => if c.major > 0 then decide (v.minor ≥ minor) else decide (v.minor = minor)
    | some patch =>
      if c.major > 0 then
        if v.minor ≠ minor then decide (v.minor > minor)
        else if v.patch ≠ patch then decide (v.patch > patch)
        else preGe v c
      else if minor > 0 then
        if v.minor ≠ minor then false
        else if v.patch ≠ patch then decide (v.patch > patch)
        else preGe v c
      else if v.minor ≠ minor ∨ v.patch ≠ patch then false
      else preGe v c

/-- `matches_impl` -/
def matchesImpl (c : Comparator) (v : Version) : Bool :=
  match c.op with
  | .exact | .wildcard => matchesExact c v
  | .greater => matchesGreater c v
  | .greaterEq => matchesExact c v || matchesGreater c v
  | .less => matchesLess c v
  | .lessEq => matchesExact c v || matchesLess c v
  | .tilde => matchesTilde c v
  | .caret => matchesCaret c v

def preIsCompatible (c : Comparator) (v : Version) : Bool :=
  decide (c.major = v.major) && decide (c.minor = some v.minor) && decide (c.patch = some v.patch)
    && !c.pre.isEmpty

/-- `matches_req`: every comparator must hold; a pre-release version additionally needs a
    comparator on the same major.minor.patch that itself carries a pre-release tag -/
def matchesReq (r : Req) (v : Version) : Bool :=
  r.all (matchesImpl · v) && (v.pre.isEmpty || r.any (preIsCompatible · v))

/-! ## parse.rs -/

def u64Max : Nat := 18446744073709551615

def trimSp : List Char → List Char
  | ' ' :: cs => trimSp cs
  | cs => cs

/-- the loop of `numeric_identifier`: (value, digits consumed, rest); `none` = LeadingZero/Overflow -/
def numGo : List Char → Nat → Nat → Option (Nat × Nat × List Char)
  | [], value, len => some (value, len, [])
  | c :: cs, value, len =>
    if c.isDigit then
      if value = 0 ∧ len > 0 then none
      else
        let v' := value * 10 + (c.toNat - 48)
        if v' > u64Max then none else numGo cs v' (len + 1)
    else some (value, len, c :: cs)

def numericIdentifier (s : List Char) : Option (Nat × List Char) :=
  match numGo s 0 0 with
  | some (v, len, rest) => if len > 0 then some (v, rest) else none
  | none => none

def wildcard : List Char → Option (List Char)
  | '*' :: r => some r
  | 'x' :: r => some r
  | 'X' :: r => some r
  | _ => none

def dot : List Char → Option (List Char)
  | '.' :: r => some r
  | _ => none

def isIdentChar (c : Char) : Bool := c.isAlphanum || c == '-'

/-- the boundary step of `identifier`: `cur` is the current segment (reversed), `acc` the finished
    ones. Returns `none` for EmptySegment / LeadingZero, `some none` to stop with the segments. -/
def segCheck (isPre : Bool) (cur : List Char) : Bool :=
  -- LeadingZero: only for pre-release, segment longer than 1, all digits, starts with '0'
  !(isPre && cur.length > 1 && cur.all Char.isDigit && cur.getLast? == some '0')

/-- `identifier(input, pos)`: dot-separated non-empty segments of `[A-Za-z0-9-]`.
    `([], input)` when the input does not start with an identifier character (and not with '.') -/
def identGo (isPre : Bool) : List Char → List Char → List (List Char) →
    Option (List (List Char) × List Char)
  | [], cur, acc =>
    if cur.isEmpty then (if acc.isEmpty then some ([], []) else none)
    else if !segCheck isPre cur then none
    else some (acc ++ [cur.reverse], [])
  | c :: cs, cur, acc =>
    if isIdentChar c then identGo isPre cs (c :: cur) acc
    else if cur.isEmpty then
      (if acc.isEmpty && c != '.' then some ([], c :: cs) else none)
    else if !segCheck isPre cur then none
    else if c == '.' then identGo isPre cs [] (acc ++ [cur.reverse])
    else some (acc ++ [cur.reverse], c :: cs)

def digitsToNat (s : List Char) : Nat := s.foldl (fun n c => n * 10 + (c.toNat - 48)) 0

def toIdent (seg : List Char) : Ident :=
  if seg.all Char.isDigit then .num (digitsToNat seg) else .str seg

/-- `-pre` part: after the '-', a non-empty identifier -/
def parsePre (text : List Char) : Option (Pre × List Char) :=
  match identGo true text [] [] with
  | some (segs, rest) => if segs.isEmpty then none else some (segs.map toIdent, rest)
  | none => none

/-- `+build` part: parsed, checked non-empty, dropped -/
def parseBuild (text : List Char) : Option (List Char) :=
  match identGo false text [] [] with
  | some (segs, rest) => if segs.isEmpty then none else some rest
  | none => none

/-- `Version::from_str` -/
def parseVersionChars (text : List Char) : Option Version :=
  if text.isEmpty then none else
  match numericIdentifier text with
  | none => none
  | some (major, text) =>
  match dot text with
  | none => none
  | some text =>
  match numericIdentifier text with
  | none => none
  | some (minor, text) =>
  match dot text with
  | none => none
  | some text =>
  match numericIdentifier text with
  | none => none
  | some (patch, text) =>
  if text.isEmpty then some { major, minor, patch, pre := [] } else
  let preR : Option (Pre × List Char) :=
    match text with
    | '-' :: t => parsePre t
    | _ => some ([], text)
  match preR with
  | none => none
  | some (pre, text) =>
  let buildR : Option (List Char) :=
    match text with
    | '+' :: t => parseBuild t
    | _ => some text
  match buildR with
  | none => none
  | some text => if text.isEmpty then some { major, minor, patch, pre } else none

def parseVersion (s : String) : Option Version := parseVersionChars s.toList

/-- `op(input)`: operator, whether it was defaulted, rest -/
def parseOp : List Char → Op × Bool × List Char
  | '=' :: r => (.exact, false, r)
  | '>' :: '=' :: r => (.greaterEq, false, r)
  | '>' :: r => (.greater, false, r)
  | '<' :: '=' :: r => (.lessEq, false, r)
  | '<' :: r => (.less, false, r)
  | '~' :: r => (.tilde, false, r)
  | '^' :: r => (.caret, false, r)
  | r => (.caret, true, r)

/-- the minor position of `comparator`: (minor, has_wildcard, op, rest) -/
def parseMinor (dflt : Bool) (op0 : Op) (text : List Char) : Option (Option Nat × Bool × Op × List Char) :=
  match text with
  | '.' :: t =>
    match wildcard t with
    | some t' => some (none, true, if dflt then .wildcard else op0, t')
    | none =>
      match numericIdentifier t with
      | some (mi, t') => some (some mi, false, op0, t')
      | none => none
  | _ => some (none, false, op0, text)

/-- the patch position of `comparator`: (patch, op, rest); a number after a wildcard minor is
    `UnexpectedAfterWildcard` -/
def parsePatch (dflt hasWild : Bool) (op1 : Op) (text : List Char) : Option (Option Nat × Op × List Char) :=
  match text with
  | '.' :: t =>
    match wildcard t with
    | some t' => some (none, if dflt then .wildcard else op1, t')
    | none =>
      if hasWild then none else
      match numericIdentifier t with
      | some (pa, t') => some (some pa, op1, t')
      | none => none
  | _ => some (none, op1, text)

/-- `-pre` is only looked for after a numeric patch -/
def parsePreOpt (patch : Option Nat) (text : List Char) : Option (Pre × List Char) :=
  match patch, text with
  | some _, '-' :: t => parsePre t
  | _, _ => some ([], text)

/-- `+build` likewise -/
def parseBuildOpt (patch : Option Nat) (text : List Char) : Option (List Char) :=
  match patch, text with
  | some _, '+' :: t => parseBuild t
  | _, _ => some text

/-- `comparator(input)`: the comparator and the rest (spaces trimmed) -/
def parseComparator (input : List Char) : Option (Comparator × List Char) :=
  match parseOp input with
  | (op0, dflt, text) =>
  match numericIdentifier (trimSp text) with
  | none => none
  | some (major, text) =>
  match parseMinor dflt op0 text with
  | none => none
  | some (minor, hasWild, op1, text) =>
  match parsePatch dflt hasWild op1 text with
  | none => none
  | some (patch, op, text) =>
  match parsePreOpt patch text with
  | none => none
  | some (pre, text) =>
  match parseBuildOpt patch text with
  | none => none
  | some text => some ({ op, major, minor, patch, pre }, trimSp text)

/-- `version_req(input, out, depth)` with `fuel = MAX_COMPARATORS - depth` -/
def versionReq : Nat → List Char → Option Req
  | 0, _ => none
  | fuel + 1, input =>
    match parseComparator input with
    | none => none
    | some (c, text) =>
      match text with
      | [] => some [c]
      | ',' :: t =>
        if fuel = 0 then none      -- ExcessiveComparators
        else (versionReq fuel (trimSp t)).map (c :: ·)
      | _ => none                  -- ExpectedCommaFound

def maxComparators : Nat := 32

/-- `VersionReq::from_str` -/
def parseReqChars (s : List Char) : Option Req :=
  let text := trimSp s
  match wildcard text with
  | some rest => if (trimSp rest).isEmpty then some [] else none
  | none => versionReq maxComparators text

def parseReq (s : String) : Option Req := parseReqChars s.toList

end TypifyModel.Semver

import TypifyModel.Model.Serde
/-! `serde_json::to_string` of a value of a generated type (same conventions as `Serde.lean`). -/
namespace TypifyModel.Serde
open TypifyModel

def zipSe (f : Id → Val → Except E Json) : List Id → List Val → Except E (List Json)
  | [], [] => .ok []
  | t :: ts, v :: vs =>
    match f t v with
    | .error e => .error e
    | .ok j => match zipSe f ts vs with
      | .error e => .error e
      | .ok js => .ok (j :: js)
  | _, _ => .error .reject

/-- is this member left out by `skip_serializing_if`? (structs.rs generate_serde_attr: only for
    `Optional` state and a property type that *is* Option / Vec / Map) -/
def skipped (σ : Space) (p : Field) (v : Val) : Bool :=
  match p.state with
  | .optional =>
    (match σ.get p.ty with
     | some ⟨.option _, _, _⟩ => (match v with | .none => true | _ => false)
     | some ⟨.vec _, _, _⟩ => (match v with | .seq [] => true | _ => false)
     | some ⟨.map _ _, _, _⟩ => (match v with | .map [] => true | _ => false)
     | _ => false)
  | _ => false

/-- members in declaration order, `skip_serializing_if` applied (the recursive call is a parameter) -/
def seFieldsR (rec : Id → Val → Except E Json) (σ : Space) :
    List Field → List (String × Val) → Except E (List (String × Json))
  | [], [] => .ok []
  | p :: ps, (_, v) :: fs =>
    if p.rename == .flatten then
      -- FlatMapSerializer: a struct / map / tagged enum contributes its entries in place, `None` and `()` nothing
      (match seFieldsR rec σ ps fs with
       | .error e => .error e
       | .ok rest =>
         if skipped σ p v then .ok rest else
         match rec p.ty v with
         | .ok (.obj es) => .ok (es ++ rest)
         | .ok .null => .ok rest
         | .ok _ => .error .reject
         | .error e => .error e)
    else
    match seFieldsR rec σ ps fs with
    | .error e => .error e
    | .ok rest =>
      if skipped σ p v then .ok rest else
      match rec p.ty v with
      | .error e => .error e
      | .ok j => .ok ((p.wire, j) :: rest)
  | _, _ => .error .reject

mutual
def se (σ : Space) : Nat → Id → Val → Except E Json
  | 0, _, _ => .error .fuel
  | f + 1, t, v =>
    match σ.get t with
    | none => .error .unsupported
    | some ent =>
      match ent.details with
      | .unit => (match v with | .unit => .ok .null | _ => .error .reject)
      | .boolean => (match v with | .bool b => .ok (.bool b) | _ => .error .reject)
      | .integer _ => (match v with | .int n => .ok (.int n) | _ => .error .reject)
      | .float _ => (match v with | .flt m e => .ok (.flt m e) | _ => .error .reject)
      | .string => (match v with | .str s => .ok (.str s) | _ => .error .reject)
      | .jsonValue => (match v with | .json j => .ok j | _ => .error .reject)
      | .native _ _ => .error .unsupported
      | .reference _ => .error .unsupported
      | .option t' =>
        (match σ.get t' with
         | some ⟨.option _, _, _⟩ => se σ f t' v
         | _ =>
           match v with
           | .none => .ok .null
           | .some a => se σ f t' a
           | _ => .error .reject)
      | .box t' => se σ f t' v
      | .vec t' | .set t' | .array t' _ =>
        (match v with
         | .seq vs => (match mapM' (se σ f t') vs with | .ok js => .ok (.arr js) | .error e => .error e)
         | _ => .error .reject)
      | .tuple ts =>
        (match v with
         | .seq vs => (match zipSe (se σ f) ts vs with | .ok js => .ok (.arr js) | .error e => .error e)
         | _ => .error .reject)
      | .map _ vt =>
        (match v with
         | .map kvs =>
           (match mapM' (fun (kv : String × Val) =>
               match se σ f vt kv.2 with | .ok j => .ok (kv.1, j) | .error e => .error e) kvs with
            | .ok es => .ok (.obj es) | .error e => .error e)
         | _ => .error .reject)
      | .newtype _ inner _ _ => se σ f inner v
      | .struct _ props _ _ =>
        (match v with
         | .struct fs => (match seStruct σ f props fs with | .ok es => .ok (.obj es) | .error e => .error e)
         | _ => .error .reject)
      | .enum _ tag variants _ _ _ =>
        match v with
        | .variant i p =>
          (match variants[i]? with
           | none => .error .reject
           | some vr =>
             match tag with
             | .external =>
               (match vr.details with
                | .simple => .ok (.str vr.wire)
                | d => match seVariantBody σ f d p with
                  | .ok b => .ok (.obj [(vr.wire, b)]) | .error e => .error e)
             | .untagged => seVariantBody σ f vr.details p
             | .adjacent tg ct =>
               (match vr.details with
                | .simple => .ok (.obj [(tg, .str vr.wire)])
                | d => match seVariantBody σ f d p with
                  | .ok b => .ok (.obj [(tg, .str vr.wire), (ct, b)]) | .error e => .error e)
             | .internal tg =>
               -- (fuel accounting mirrors `de`'s internal arm)
               (match vr.details, p with
                | .simple, _ => .ok (.obj [(tg, .str vr.wire)])
                | .tuple _, _ => .error .unsupported
                | .struct ps, .struct fs =>
                  (match seStruct σ f ps fs with
                   | .ok es => .ok (.obj ((tg, .str vr.wire) :: es))
                   | .error e => .error e)
                | .struct _, _ => .error .reject
                | .item t', p =>
                  (match se σ f t' p with
                   | .ok (.obj es) => .ok (.obj ((tg, .str vr.wire) :: es))
                   | .ok _ => .error .reject          -- serde: cannot serialize tagged newtype variant
                   | .error e => .error e)))
        | _ => .error .reject

def seVariantBody (σ : Space) : Nat → VDetails → Val → Except E Json
  | 0, _, _ => .error .fuel
  | f + 1, d, p =>
    match d with
    | .simple => (match p with | .unit => .ok .null | _ => .error .reject)
    | .item t => se σ f t p
    | .tuple ts =>
      (match p with
       | .seq vs => (match zipSe (se σ f) ts vs with | .ok js => .ok (.arr js) | .error e => .error e)
       | _ => .error .reject)
    | .struct ps =>
      (match p with
       | .struct fs => (match seStruct σ f ps fs with | .ok es => .ok (.obj es) | .error e => .error e)
       | _ => .error .reject)

/-- a struct's (or struct variant's) members; consumes one unit of fuel like `deStruct` -/
def seStruct (σ : Space) : Nat → List Field → List (String × Val) → Except E (List (String × Json))
  | 0, _, _ => .error .fuel
  | f + 1, ps, fs => seFieldsR (se σ f) σ ps fs
end

end TypifyModel.Serde

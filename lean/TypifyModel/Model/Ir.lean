import TypifyModel.Model.Json
/-! The intermediate representation of typify (`TypeEntryDetails` graph, type_entry.rs:20-217) as
    delivered by the hook `TypeSpace::verif_dump()`. Everything downstream (rendering, the run-time
    meaning of the generated code, the introspection API) is a function of this. -/
namespace TypifyModel

abbrev Id := Nat

inductive PropState where
  | required
  | optional
  | dflt (v : Json)
deriving Repr, Inhabited

inductive Rename where
  | none
  | rename (s : String)
  | flatten
deriving Repr, Inhabited, DecidableEq

structure Field where
  name : String          -- Rust field identifier
  rename : Rename
  state : PropState
  ty : Id
deriving Repr, Inhabited

inductive VDetails where
  | simple
  | item (t : Id)
  | tuple (ts : List Id)
  | struct (ps : List Field)
deriving Repr, Inhabited

structure Variant where
  rawName : String
  identName : String
  details : VDetails
deriving Repr, Inhabited

inductive Tag where
  | external
  | internal (tag : String)
  | adjacent (tag content : String)
  | untagged
deriving Repr, Inhabited, DecidableEq

inductive Constraints where
  | none
  | enumValues (vs : List Json)
  | denyValues (vs : List Json)
  | string (max min : Option Nat) (pattern : Option String)
deriving Repr, Inhabited

inductive Bespoke where
  | allSimpleVariants | untaggedFromStr | untaggedDisplay
deriving Repr, DecidableEq, Inhabited

inductive Details where
  | enum (name : String) (tag : Tag) (variants : List Variant) (deny : Bool)
      (dflt : Option Json) (bespoke : List Bespoke)
  | struct (name : String) (props : List Field) (deny : Bool) (dflt : Option Json)
  | newtype (name : String) (inner : Id) (c : Constraints) (dflt : Option Json)
  | native (typeName : String) (params : List Id)
  | option (t : Id)
  | box (t : Id)
  | vec (t : Id)
  | map (k v : Id)
  | set (t : Id)
  | array (t : Id) (n : Nat)
  | tuple (ts : List Id)
  | unit
  | boolean
  | integer (name : String)
  | float (name : String)
  | string
  | jsonValue
  | reference (t : Id)
deriving Repr, Inhabited

inductive Impl where
  | fromStr | display | default
deriving Repr, DecidableEq, Inhabited

structure Entry where
  details : Details
  extraDerives : List String := []
  impls : List Impl := []      -- `has_impl` answers recorded in the dump
deriving Repr, Inhabited

structure Space where
  entries : List (Id × Entry)
  nextId : Nat := 0
deriving Repr, Inhabited

def Space.get (σ : Space) (t : Id) : Option Entry :=
  (σ.entries.find? (fun e => e.1 == t)).map (·.2)

def Details.name? : Details → Option String
  | .enum n .. => some n
  | .struct n .. => some n
  | .newtype n .. => some n
  | _ => none

/-- the JSON member name serde uses for a struct field -/
def Field.wire (p : Field) : String :=
  match p.rename with
  | .rename s => s
  | _ => p.name

/-- the name serde uses for a variant: `output_variant` emits `#[serde(rename = raw)]` exactly when the
    identifier differs from the raw name (enums.rs:717), so it is always the raw name -/
def Variant.wire (v : Variant) : String :=
  if v.rawName ≠ v.identName then v.rawName else v.identName

theorem Variant.wire_eq_raw (v : Variant) : v.wire = v.rawName := by
  unfold Variant.wire; split <;> simp_all

end TypifyModel

/-! Base vocabulary shared by the regenerated front-end tables (`Generated/Frontends.lean`, table T7)
    and the front-end model (`Model/Frontends.lean`).

* `CharSem`: Rust's `char::is_alphabetic` / `char::is_numeric` are Unicode tables. They are an
  abstract parameter of the model, constrained only on ASCII (where they are `[A-Za-z]` and
  `[0-9]`); every theorem holds for every instance.
* `Coll`: the kind of collection a `MacroSettings` field is deserialised into; it decides the
  iteration order the macro sees. -/
namespace TypifyModel.Frontends

structure CharSem where
  isAlphabetic : Char → Bool
  isNumeric : Char → Bool
  alpha_ascii : ∀ c : Char, c.val < 128 → isAlphabetic c = c.isAlpha
  num_ascii : ∀ c : Char, c.val < 128 → isNumeric c = c.isDigit

/-- Rust `char::is_alphanumeric` = `is_alphabetic() || is_numeric()` -/
def CharSem.isAlphanumeric (cs : CharSem) (c : Char) : Bool := cs.isAlphabetic c || cs.isNumeric c

/-- the executable instance used by the driver: exact on ASCII; the driver answers `unsupported`
    for requests containing non-ASCII characters, so the value outside ASCII is never compared. -/
def CharSem.ascii : CharSem where
  isAlphabetic c := c.isAlpha
  isNumeric c := c.isDigit
  alpha_ascii _ _ := rfl
  num_ascii _ _ := rfl

/-- collection kinds: `hash` iterates in an arbitrary order, `btree` in key order, `ordered` in
    source order (serde_tokenstream `OrderedMap`, `Vec`). -/
inductive Coll where
  | hash | btree | ordered
  deriving DecidableEq, Repr

/-- `TypeSpaceImpl` (typify-impl/src/lib.rs); constructor order = the derived `Ord` -/
inductive Impl where
  | fromStr | display | default
  deriving DecidableEq, Repr

end TypifyModel.Frontends

import TypifyModel.Model.Json
/-! `util.rs` `all_mutually_exclusive` / `schemas_mutually_exclusive`: the test by which `convert_any_of` decides whether an
    `anyOf` may be generated like a `oneOf` (an enum) or has to become the struct of flattened optional subtypes.

    The function is written over schemars' `SchemaObject`, whose fields group the JSON keywords; the model works on the raw
    JSON of a schema and re-creates that grouping (`present` below follows schemars' `skip_if_default`: a group whose keywords
    are all absent — or hold their default, e.g. `required: []` — is `None`). Keywords outside every group are schemars
    `extensions` and are ignored, as in the source. Answers: `some b` — what the source returns; `none` — outside the model
    (malformed input, a shape on which the source panics or reaches `todo!()`, or out of fuel). -/
namespace TypifyModel.Excl
open TypifyModel

/-- `schemars::schema::InstanceType` -/
inductive JT where
  | null | boolean | object | array | number | string | integer
deriving DecidableEq, Repr, Inhabited

def JT.ofName : String → Option JT
  | "null" => some .null | "boolean" => some .boolean | "object" => some .object | "array" => some .array
  | "number" => some .number | "string" => some .string | "integer" => some .integer | _ => none

/-- the instance type the source assigns to an enumerated value (`Number` for every number) -/
def JT.ofValue : Json → JT
  | .null => .null | .bool _ => .boolean | .int _ => .number | .flt _ _ => .number | .str _ => .string
  | .arr _ => .array | .obj _ => .object

abbrev Kvs := List (String × Json)

def has (kvs : Kvs) (k : String) : Bool := (Json.lookup kvs k).isSome

def nonEmptyArr (kvs : Kvs) (k : String) : Bool :=
  match Json.lookup kvs k with | some (.arr (_ :: _)) => true | some (.arr []) => false | some _ => true | none => false
def nonEmptyObj (kvs : Kvs) (k : String) : Bool :=
  match Json.lookup kvs k with | some (.obj (_ :: _)) => true | some (.obj []) => false | some _ => true | none => false
def isTrue (kvs : Kvs) (k : String) : Bool :=
  match Json.lookup kvs k with | some (.bool true) => true | _ => false

/-- `metadata: Some(..)` -/
def metaP (kvs : Kvs) : Bool :=
  has kvs "$id" || has kvs "title" || has kvs "description" || has kvs "default" ||
  isTrue kvs "deprecated" || isTrue kvs "readOnly" || isTrue kvs "writeOnly" || nonEmptyArr kvs "examples"
def subP (kvs : Kvs) : Bool :=
  has kvs "allOf" || has kvs "anyOf" || has kvs "oneOf" || has kvs "not" || has kvs "if" || has kvs "then" || has kvs "else"
def numP (kvs : Kvs) : Bool :=
  has kvs "multipleOf" || has kvs "maximum" || has kvs "exclusiveMaximum" || has kvs "minimum" || has kvs "exclusiveMinimum"
def strP (kvs : Kvs) : Bool := has kvs "maxLength" || has kvs "minLength" || has kvs "pattern"
def arrP (kvs : Kvs) : Bool :=
  has kvs "items" || has kvs "additionalItems" || has kvs "maxItems" || has kvs "minItems" || has kvs "uniqueItems" || has kvs "contains"
def objP (kvs : Kvs) : Bool :=
  has kvs "maxProperties" || has kvs "minProperties" || nonEmptyArr kvs "required" || nonEmptyObj kvs "properties" ||
  nonEmptyObj kvs "patternProperties" || has kvs "additionalProperties" || has kvs "propertyNames"

inductive Ty where
  | none | single (t : JT) | multi (ts : List JT) | bad
deriving Repr

def tyOf (kvs : Kvs) : Ty :=
  match Json.lookup kvs "type" with
  | none => .none
  | some (.str s) => (match JT.ofName s with | some t => .single t | none => .bad)
  | some (.arr xs) =>
    (match xs.mapM (fun x => match x with | .str s => JT.ofName s | _ => none) with
     | some ts => .multi ts
     | none => .bad)
  | some _ => .bad

/-- a schema that is nothing but subschemas (annotations aside: `metadata: _`) -/
def subOnly (kvs : Kvs) : Bool :=
  !has kvs "type" && !has kvs "format" && !has kvs "enum" && !has kvs "const" && subP kvs &&
  !numP kvs && !strP kvs && !arrP kvs && !objP kvs && !has kvs "$ref"

/-- `constant_string_value` -/
def constStr (s : Json) : Option String :=
  match s with
  | .obj kvs =>
    let plain := !has kvs "format" && !subP kvs && !numP kvs && !strP kvs && !arrP kvs && !objP kvs && !has kvs "$ref"
    if !plain then none else
    let tyOk : Option Bool :=      -- some true: typed `string`; some false: untyped; none: anything else
      match tyOf kvs with
      | .single .string => some true
      | .none => some false
      | _ => none
    match tyOk, Json.lookup kvs "enum", Json.lookup kvs "const" with
    | some _, some (.arr [.str v]), none => some v
    | some _, none, some (.str v) => some v
    | _, _, _ => none
  | _ => none

def strList (j : Option Json) : Option (List String) :=
  match j with
  | none => some []
  | some (.arr xs) => xs.mapM (fun x => match x with | .str s => some s | _ => none)
  | some _ => none

def propsOf (kvs : Kvs) : Option Kvs :=
  match Json.lookup kvs "properties" with
  | none => some []
  | some (.obj ps) => some ps
  | some _ => none

/-- `object_schemas_mutually_exclusive` on the two `ObjectValidation`s -/
def objRule (ka kb : Kvs) : Option Bool :=
  match strList (Json.lookup ka "required"), strList (Json.lookup kb "required"), propsOf ka, propsOf kb with
  | some ra, some rb, some pa, some pb =>
    if pa.isEmpty || pb.isEmpty then some false else
    if !(ra.all (fun r => has pb r)) || !(rb.all (fun r => has pa r)) then some true else
    -- fixed-value properties: `a_properties.get(name).unwrap()` panics on a required name without a property
    if !(ra.all (fun r => has pa r)) || !(rb.all (fun r => has pb r)) then none else
    let fixed := fun (req : List String) (ps : Kvs) =>
      req.filterMap (fun n => match Json.lookup ps n with
        | some s => (constStr s).map (fun c => (n, c))
        | none => none)
    let aa := fixed ra pa
    let bb := fixed rb pb
    some (!(aa.all (fun x => bb.contains x)) && !(bb.all (fun x => aa.contains x)))
  | _, _, _, _ => none

def natOf (j : Option Json) : Option (Option Nat) :=
  match j with
  | none => some none
  | some (.int n) => if 0 ≤ n then some (some n.toNat) else none
  | some _ => none

/-- schemas whose only validation is the object (resp. array) group, as the two typed arms require -/
def onlyObj (kvs : Kvs) : Bool :=
  !has kvs "format" && !has kvs "enum" && !has kvs "const" && !subP kvs && !numP kvs && !strP kvs && !arrP kvs && objP kvs &&
  !has kvs "$ref"
def onlyArr (kvs : Kvs) : Bool :=
  !has kvs "format" && !has kvs "enum" && !has kvs "const" && !subP kvs && !numP kvs && !strP kvs && arrP kvs && !objP kvs &&
  !has kvs "$ref"

/-- three-valued `any` / `all` in source order (short-circuit on the deciding value) -/
def anyO {α : Type} (f : α → Option Bool) : List α → Option Bool
  | [] => some false
  | a :: r => match f a with
    | some true => some true
    | some false => anyO f r
    | none => none
def allO {α : Type} (f : α → Option Bool) : List α → Option Bool
  | [] => some true
  | a :: r => match f a with
    | some false => some false
    | some true => allO f r
    | none => none

/-- `schemas_mutually_exclusive a b` -/
def excl : Nat → Json → Json → Option Bool
  | 0, _, _ => none
  | f + 1, a, b =>
    match a, b with
    | .bool false, _ => some true
    | _, .bool false => some true
    | .bool true, _ => some false
    | _, .bool true => some false
    | .obj ka, .obj kb =>
      let subRule := fun (ks : Kvs) (other : Json) =>
        let onlyKey := fun (k : String) =>
          has ks k && ["allOf", "anyOf", "oneOf", "not", "if", "then", "else"].all (fun k' => k' == k || !has ks k')
        if onlyKey "allOf" then
          (match Json.lookup ks "allOf" with | some (.arr l) => anyO (fun s => excl f s other) l | _ => none)
        else if onlyKey "anyOf" then
          (match Json.lookup ks "anyOf" with | some (.arr l) => allO (fun s => excl f s other) l | _ => none)
        else if onlyKey "oneOf" then
          (match Json.lookup ks "oneOf" with | some (.arr l) => allO (fun s => excl f s other) l | _ => none)
        else if onlyKey "not" then
          (match Json.lookup ks "not" with | some s => (excl f s other).map (!·) | none => none)
        else some false
      if subOnly kb then subRule kb a
      else if subOnly ka then subRule ka b
      else
        let enumTypes := fun (ks : Kvs) =>
          match Json.lookup ks "enum" with
          | some (.arr vs) => some (vs.map JT.ofValue)
          | _ => none
        match tyOf ka, tyOf kb with
        | .bad, _ => none
        | _, .bad => none
        | ta, tb =>
          -- a typed schema against an untyped enumeration
          match ta, tb, enumTypes kb, enumTypes ka with
          | .single t, .none, some vts, _ => some (vts.all (fun vt => vt != t))
          | .none, .single t, _, some vts => some (vts.all (fun vt => vt != t))
          | _, _, _, _ =>
            match ta, tb with
            | .none, _ => some false
            | _, .none => some false
            | .single x, .single y =>
              if x != y then some true
              else if x == .object then (if onlyObj ka && onlyObj kb then objRule ka kb else some false)
              else if x == .array then
                (if onlyArr ka && onlyArr kb then
                   -- `array_schemas_mutually_exclusive`
                   let itemsOf := fun (ks : Kvs) => Json.lookup ks "items"
                   let tupleSide := fun (ks : Kvs) =>
                     match itemsOf ks, natOf (Json.lookup ks "maxItems"), natOf (Json.lookup ks "minItems") with
                     | some (.arr vec), some (some mx), some (some mn) =>
                       if !has ks "additionalItems" && !has ks "uniqueItems" && !has ks "contains" && mx == mn && mx == vec.length
                       then some vec else none
                     | _, _, _ => none
                   let singleSide := fun (ks : Kvs) =>
                     match itemsOf ks with
                     | some (.arr _) => none
                     | some s => if !has ks "additionalItems" then some s else none
                     | none => none
                   match singleSide ka, tupleSide kb, tupleSide ka, singleSide kb with
                   | some s, some vec, _, _ => anyO (fun x => excl f x s) vec
                   | _, _, some vec, some s => anyO (fun x => excl f x s) vec
                   | _, _, _, _ =>
                     match natOf (Json.lookup ka "maxItems"), natOf (Json.lookup kb "minItems"),
                           natOf (Json.lookup kb "maxItems"), natOf (Json.lookup ka "minItems") with
                     | some amax, some bmin, some bmax, some amin =>
                       let gap1 := match amax, bmin with | some mx, some mn => decide (mn > mx) | _, _ => false
                       let gap2 := match bmax, amin with | some mx, some mn => decide (mn > mx) | _, _ => false
                       if gap1 || gap2 then some true else
                       (match itemsOf ka, itemsOf kb with
                        | some (.arr _), _ => some false
                        | _, some (.arr _) => some false
                        | some sa, some sb => excl f sa sb
                        | _, _ => some false)
                     | _, _, _, _ => none
                 else some false)
              else some false
            | .multi xs, .multi ys => some (xs.all (fun x => !ys.contains x))
            | .single x, .multi ys => some (!ys.contains x)
            | .multi xs, .single y => some (!xs.contains y)
            | _, _ => none
    | _, _ => none

/-- `resolve`: a schema that is nothing but a reference (annotations aside) is replaced by its definition, once -/
def resolve (defs : Kvs) (s : Json) : Option Json :=
  match s with
  | .obj kvs =>
    (match Json.lookup kvs "$ref" with
     | some (.str r) =>
       if !has kvs "type" && !has kvs "format" && !has kvs "enum" && !has kvs "const" && !subP kvs && !numP kvs && !strP kvs &&
          !arrP kvs && !objP kvs then
         -- `ref_key`: the text after the last '/'
         let name := (r.splitOn "/").getLast!
         if r == "#" then none else Json.lookup defs name
       else none          -- `todo!()`
     | some _ => none
     | none => some s)
  | _ => some s

def pairs {α : Type} : List α → List (α × α)
  | [] => []
  | a :: r => r.map (fun b => (a, b)) ++ pairs r

/-- `all_mutually_exclusive subschemas definitions` -/
def exclAll (fuel : Nat) (defs : Kvs) (ss : List Json) : Option Bool :=
  allO (fun (p : Json × Json) =>
    match resolve defs p.1, resolve defs p.2 with
    | some a, some b => excl fuel a b
    | _, _ => none) (pairs ss)

end TypifyModel.Excl

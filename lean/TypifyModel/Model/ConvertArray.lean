/-! `convert_array` (convert.rs): which shape an array schema gets — tuple, fixed-size array, `Vec`, set — as a function
    of `items` / `additionalItems` / `minItems` / `maxItems` / `uniqueItems` / `contains`. The item types themselves are
    converted recursively by the real code; this model is about the shape and the arity, tied to the code by the M0
    correspondence of `./check C10` over the whole keyword lattice. -/
namespace TypifyModel.ConvertArray

inductive Items where
  | none
  | single
  | list (k : Nat)          -- `items: [s0 .. s(k-1)]`
deriving Repr, DecidableEq, Inhabited

structure ArrV where
  items : Items := .none
  additional : Bool := false          -- `additionalItems` present
  maxItems : Option Nat := none
  minItems : Option Nat := none
  unique : Option Bool := none
  contains : Bool := false
deriving Repr, DecidableEq, Inhabited

inductive Out where
  /-- tuple of `n` members: the first `fromItems` from `items`, the rest from `additionalItems` (`restAdditional`) or any -/
  | tuple (n fromItems : Nat) (restAdditional : Bool)
  | array (n : Nat) (anyItem : Bool)
  | vec (anyItem : Bool)
  | set (anyItem : Bool)
  | invalid                           -- `Error::InvalidSchema("unhandled array validation ..")`
deriving Repr, DecidableEq, Inhabited

def convertArray (v : ArrV) : Out :=
  if v.contains then .invalid else
  match v.maxItems, v.minItems, v.unique with
  | some mx, some mn, none =>
    if mx == mn && mx > 0 then
      (match v.items with
       | .list k => if k < mx then .tuple mx k v.additional else .tuple mx mx false
       | .single => .array mx false
       | .none => .array mx true)
    else
      (match v.items with
       | .single => .vec false
       | .none => .vec true
       | .list _ => .invalid)
  | _, _, uq =>
    (match v.items with
     | .single => if uq == some true then .set false else .vec false
     | .none => if uq == some true then .set true else .vec true
     | .list _ => .invalid)

end TypifyModel.ConvertArray

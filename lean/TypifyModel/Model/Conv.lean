import TypifyModel.Model.Schema
import TypifyModel.Model.Serde
/-! `convB`: the executable relation "type τ of the IR σ is a faithful reading of schema S".
    It is a Bool-valued, fuel-indexed function (an inductive predicate with ∀/∃ premises over itself
    is rejected by the kernel) and doubles as the translation-validation checker that the driver
    runs on the real (schema, IR dump) pairs. The `$ref` arm does not unfold: recursive definitions
    have no finite unfolding; all definitions are required to be faithful at once (`AllConv`). -/
namespace TypifyModel.Conv
open TypifyModel TypifyModel.Serde

/-- the type's string checks are implied by the schema's (so every schema-valid string passes) -/
def strImplied (smn smx : Option Nat) (spat : Option String) (tmx tmn : Option Nat) (tpat : Option String) : Bool :=
  (match tmx with | none => true | some t => (match smx with | some s => decide (s ≤ t) | none => false)) &&
  (match tmn with | none => true | some t => (match smn with | some s => decide (t ≤ s) | none => false)) &&
  (match tpat with | none => true | some t => (match spat with | some s => s == t | none => false))

def nodupB : List String → Bool
  | [] => true
  | a :: r => !r.contains a && nodupB r

def isSimple (v : Variant) : Bool := match v.details with | .simple => true | _ => false

def zipB (f : Schema → Id → Bool) : List Schema → List Id → Bool
  | [], [] => true
  | s :: ss, t :: ts => f s t && zipB f ss ts
  | _, _ => false

/-- struct members against an object schema: every declared property has a member read by its
    wire name whose type reads the property's schema (directly, or under `Option` when the
    property is not required), and a member that may be absent in a valid instance has a default -/
def propsB (f : Schema → Id → Bool) (σ : Space) (fields : List Field) (req : List String) :
    List (String × Schema) → Bool
  | [] => true
  | (k, s) :: r =>
    (match fields.find? (fun p => p.wire == k) with
     | none => false
     | some p =>
       if req.contains k then f s p.ty
       else
         (hasDefaultAttr p || optionLikeT σ p.ty) &&
         (f s p.ty ||
          (match σ.get p.ty with
           | some ⟨.option t', _, _⟩ =>
             (match σ.get t' with
              | some ⟨.option _, _, _⟩ => false
              | _ => f s t')
           | _ => false))) &&
    propsB f σ fields req r

/-- the payload of a variant against the schema that stands for it -/
def variantB (f : Schema → Id → Bool) (structB : List (String × Schema) → List String → Additional Schema → List Field → Bool → Bool)
    (deny : Bool) (s : Schema) (d : VDetails) : Bool :=
  match d, s with
  | .simple, .null => true
  | .item t, s => f s t
  | .tuple ts, .tuple items => zipB f items ts
  | .struct ps, .object props req addl => structB props req addl ps deny
  | _, _ => false

/-- struct members (of a struct or a struct variant) against an object schema without a typed `additionalProperties` -/
def structPlainB (rec : Schema → Id → Bool) (σ : Space) (props : List (String × Schema)) (req : List String)
    (addl : Additional Schema) (fields : List Field) (deny : Bool) : Bool :=
  !hasFlatten fields && nodupB (fields.map (·.wire)) &&
  (match addl with | .open_ => !deny | .closed => true | .schema _ => false) &&
  fields.all (fun p => props.any (fun q => q.1 == p.wire)) &&
  propsB rec σ fields req props

/-- the members that are read by name -/
def namedOf (fields : List Field) : List Field := fields.filter (fun p => p.rename != .flatten)

/-- `additionalProperties: <schema>`: besides the named members exactly one flattened member, a map with plain string keys
    whose value type stands for that schema; the struct is not closed -/
def structFlatB (rec : Schema → Id → Bool) (σ : Space) (props : List (String × Schema)) (req : List String)
    (addl : Additional Schema) (fields : List Field) (deny : Bool) : Bool :=
  (match addl with
   | .schema sa =>
     !deny &&
     (match fields.filter (fun p => p.rename == .flatten) with
      | [e] =>
        (match σ.get e.ty with
         | some ⟨.map k vt, _, _⟩ => (match σ.get k with | some ⟨.string, _, _⟩ => true | _ => false) && rec sa vt
         | _ => false)
      | _ => false)
   | _ => false) &&
  nodupB ((namedOf fields).map (·.wire)) &&
  (namedOf fields).all (fun p => props.any (fun q => q.1 == p.wire)) &&
  propsB rec σ (namedOf fields) req props

/-- struct members (of a struct or a struct variant) against an object schema -/
def structB (rec : Schema → Id → Bool) (σ : Space) (props : List (String × Schema)) (req : List String)
    (addl : Additional Schema) (fields : List Field) (deny : Bool) : Bool :=
  structPlainB rec σ props req addl fields deny || structFlatB rec σ props req addl fields deny

def variantsB (rec : Schema → Id → Bool) (σ : Space) (deny : Bool) (ss : List Schema) (variants : List Variant) : Bool :=
  decide (ss.length = variants.length) &&
  (ss.zip variants).all (fun sv => variantB rec (structB rec σ) deny sv.1 sv.2.details)

/-- one branch of an externally tagged union: a string enum of data-less variant names, or a closed
    single-member object `{wire: payload}` -/
def extBranchB (rec : Schema → Id → Bool) (σ : Space) (deny : Bool) (variants : List Variant) (s : Schema) : Bool :=
  match s with
  | .enumVals vs =>
    vs.all (fun v => match v with
      | .str w => variants.any (fun vr => vr.wire == w && isSimple vr)
      | _ => false)
  | .object [(k, sk)] [k'] .closed =>
    k == k' &&
    (match variants.find? (fun vr => vr.wire == k) with
     | some vr => variantB rec (structB rec σ) deny sk vr.details
     | none => false)
  | _ => false

def isClosed : Additional Schema → Bool
  | .closed => true
  | _ => false

/-- one branch of an internally tagged union: an object whose `tag` member is a one-value string
    enum naming the variant; the remaining members are the variant's own -/
def intBranchB (rec : Schema → Id → Bool) (σ : Space) (deny : Bool) (tg : String) (variants : List Variant)
    (s : Schema) : Bool :=
  match s with
  | .object props req addl =>
    (match props.find? (fun p => p.1 == tg) with
     | some (_, .enumVals [.str w]) =>
       req.contains tg &&
       (match variants.find? (fun vr => vr.wire == w) with
        | some vr =>
          (match vr.details with
           | .simple => true
           | .struct ps => structB rec σ (props.filter (fun p => p.1 != tg)) (req.filter (· != tg)) addl ps deny
           | .item t' => rec (.object (props.filter (fun p => p.1 != tg)) (req.filter (· != tg)) addl) t'
           | .tuple _ => false)
        | none => false)
     | _ => false)
  | _ => false

/-- one branch of an adjacently tagged union: `{tag: <one-value enum>, content: <payload>}` -/
def adjBranchB (rec : Schema → Id → Bool) (σ : Space) (deny : Bool) (tg ct : String) (variants : List Variant)
    (s : Schema) : Bool :=
  match s with
  | .object props req addl =>
    (match props.find? (fun p => p.1 == tg) with
     | some (_, .enumVals [.str w]) =>
       req.contains tg &&
       (!deny || (isClosed addl && props.all (fun p => p.1 == tg || p.1 == ct))) &&
       (match variants.find? (fun vr => vr.wire == w), props.find? (fun p => p.1 == ct) with
        | some vr, none => isSimple vr && isClosed addl && tg != ct
        | some vr, some (_, sc) => req.contains ct && tg != ct && variantB rec (structB rec σ) deny sc vr.details
        | none, _ => false)
     | _ => false)
  | _ => false

/-- one schema construct against one (non-transparent) kind of entry; `rec` is the relation for
    sub-schemas and sub-types -/
def convD (rec : Schema → Id → Bool) (σ : Space) (s : Schema) (det : Details) : Bool :=
  match s, det with
  | .any, .jsonValue => true
  | .null, .unit => true
  | .boolean, .boolean => true
  | .number, .float _ => true
  | .integer (some lo) (some hi), .integer name =>
    (match rtyOfName name with
     | some ty => decide (ty.lo ≤ lo) && decide (hi ≤ ty.hi)
     | none => false)
  | .string none none none, .string => true
  | .string mn mx pat, .newtype _ inner (.string tmx tmn tpat) _ =>
    (match σ.get inner with | some ⟨.string, _, _⟩ => true | _ => false) && strImplied mn mx pat tmx tmn tpat
  | .enumVals vs, .enum _ .external variants _ _ _ =>
    variants.all isSimple &&
    vs.all (fun v => match v with | .str w => variants.any (fun vr => vr.wire == w) | _ => false)
  | .array items (some mn) (some mx) _, .array t' n => decide (mn = n) && decide (mx = n) && rec items t'
  | .object [] _ (.schema sv), .map k vt =>
    (match σ.get k with | some ⟨.string, _, _⟩ => true | _ => false) && rec sv vt
  | .array items _ _ _, .vec t' => rec items t'
  | .array items _ _ _, .set t' => rec items t'
  | .tuple items, .tuple ts => zipB rec items ts
  | .object props req addl, .struct _ fields deny _ => structB rec σ props req addl fields deny
  | .oneOf [s', .null], .option t' => rec s' t'
  | .oneOf [.null, s'], .option t' => rec s' t'
  | .anyOf [s', .null], .option t' => rec s' t'
  | .anyOf [.null, s'], .option t' => rec s' t'
  | .oneOf ss, .enum _ .external variants deny _ _ =>
    nodupB (variants.map (·.wire)) && ss.all (extBranchB rec σ deny variants)
  | .anyOf ss, .enum _ .external variants deny _ _ =>
    nodupB (variants.map (·.wire)) && ss.all (extBranchB rec σ deny variants)
  | .oneOf ss, .enum _ (.internal tg) variants deny _ _ =>
    nodupB (variants.map (·.wire)) && ss.all (intBranchB rec σ deny tg variants)
  | .anyOf ss, .enum _ (.internal tg) variants deny _ _ =>
    nodupB (variants.map (·.wire)) && ss.all (intBranchB rec σ deny tg variants)
  | .oneOf ss, .enum _ (.adjacent tg ct) variants deny _ _ =>
    nodupB (variants.map (·.wire)) && ss.all (adjBranchB rec σ deny tg ct variants)
  | .anyOf ss, .enum _ (.adjacent tg ct) variants deny _ _ =>
    nodupB (variants.map (·.wire)) && ss.all (adjBranchB rec σ deny tg ct variants)
  | .oneOf ss, .enum _ .untagged variants deny _ _ => variantsB rec σ deny ss variants
  | .anyOf ss, .enum _ .untagged variants deny _ _ => variantsB rec σ deny ss variants
  | _, _ => false

def convB (σ : Space) (rid : String → Option Id) : Nat → Schema → Id → Bool
  | 0, _, _ => false
  | fc + 1, s, t =>
    match s with
    | .ref k =>
      rid k == some t ||
      (match σ.get t with
       | some ⟨.box t', _, _⟩ => convB σ rid fc s t'      -- `Box` inserted by cycle breaking
       | some ⟨.newtype _ inner .none _, _, _⟩ => convB σ rid fc s inner     -- a definition that is an alias
       | _ => false)
    | _ =>
      match σ.get t with
      | none => false
      | some ent =>
        match ent.details with
        | .newtype _ inner .none _ => convB σ rid fc s inner
        | .box t' => convB σ rid fc s t'
        | det => convD (convB σ rid fc) σ s det

/-- every definition is read faithfully by the type registered for it -/
def AllConv (σ : Space) (rid : String → Option Id) (d : Doc) : Prop :=
  ∀ k s, d.get k = some s → ∃ t fc, rid k = some t ∧ convB σ rid fc s t = true

end TypifyModel.Conv

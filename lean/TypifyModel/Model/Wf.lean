import TypifyModel.Model.SettingsApply
/-! # C01 — well-formedness of an IR (`WF`) and the Rust rules the emitted module must satisfy (`Compiles`)

* `Ty` / `tyOf`: a type expression (`type_ident`, type_entry.rs:1675-1831) as a TREE, so that the rules
  rustc applies to it (does every name resolve, which members are held by value, which std impls
  exist for it) are structural functions. `Proofs/Lemmas/WfLemmas.lean` proves
  `Render.typeIdent = Ty.render ∘ tyOf`, i.e. the tree is a view of the string the M2 correspondence
  compares with the real `to_stream()`.
* `Mod` / `modOf`: the module `to_stream()` emits = the Render summary item by item (`MItem.base`,
  projection `Mod.summary`, `modOf_summary`) plus the trees of every member type.
* `Compiles`: SPECIFICATION of the rustc / serde_derive rules relevant to the narrow class of items
  typify emits (names, members, resolution, coherence, derivability, finite size, serde attribute
  legality). rustc itself is not verified: that this spec agrees with rustc is the correspondence
  "`WF` true ⇔ the case compiles" of `tools/props/c01.py`.
* `WF`: decidable predicate on (settings, IR), a conjunction of separately named conjuncts; evaluated
  by `drv_c01` on every real IR dump. `Proofs/C01.lean`: `WF = true → Compiles (modOf …)`.
* `panicTable`: the `unwrap` / `expect` / `panic!` / `unreachable!` / `assert!` sites reachable from
  `to_stream()`, each with the WF conjunct that excludes it (tied to the source by the translator table
  `Generated.panicSites`, theorem `C01.panic_sites_covered`). -/
namespace TypifyModel.Wf
open TypifyModel TypifyModel.Render TypifyModel.SettingsApply

/-! ## type expressions as trees -/

inductive Ty where
  | named (id : Id) (n : String)      -- a generated item (held by value)
  | opt (t : Ty)
  | box (t : Ty)
  | vec (t : Ty)
  | set (t : Ty)                      -- printed `Vec<T>`
  | map (k v : Ty)                    -- the configured map type
  | jsonMap                           -- `::serde_json::Map<String, Value>`
  | tuple (ts : List Ty)
  | array (t : Ty) (n : Nat)
  | native (name : String) (ps : List Ty)
  | lit (s : String)                  -- `()`, `bool`, `::std::string::String`, `::serde_json::Value`, number types
  | bad                               -- dangling id / `Reference` / nesting deeper than the fuel
deriving Repr, Inhabited

def tupleStr : List String → String
  | [a] => "(" ++ a ++ ",)"
  | l => "(" ++ commaSep l ++ ")"

def nativeStr (name : String) (l : List String) : String :=
  if l.isEmpty then name else name ++ "<" ++ commaSep l ++ ">"

def wrapStr (h s : String) : String := h ++ s ++ ">"
def mapStr (m k v : String) : String := m ++ "<" ++ k ++ "," ++ v ++ ">"
def arrStr (t : String) (n : Nat) : String := "[" ++ t ++ ";" ++ toString n ++ "usize]"

mutual
def Ty.render (st : Settings) : Ty → String
  | .named _ n => n
  | .opt t => wrapStr "::std::option::Option<" (t.render st)
  | .box t => wrapStr "::std::boxed::Box<" (t.render st)
  | .vec t => wrapStr "::std::vec::Vec<" (t.render st)
  | .set t => wrapStr "Vec<" (t.render st)
  | .map k v => mapStr st.mapType (k.render st) (v.render st)
  | .jsonMap => "::serde_json::Map<::std::string::String,::serde_json::Value>"
  | .tuple ts => tupleStr (Ty.renderList st ts)
  | .array t n => arrStr (t.render st) n
  | .native name ps => nativeStr name (Ty.renderList st ps)
  | .lit s => s
  | .bad => "?"
def Ty.renderList (st : Settings) : List Ty → List String
  | [] => []
  | a :: r => a.render st :: Ty.renderList st r
end

/-- `type_ident` as a tree; mirrors `Render.typeIdent` arm by arm -/
def tyOf (σ : Space) : Nat → Id → Ty
  | 0, _ => .bad
  | f + 1, t =>
    match σ.get t with
    | none => .bad
    | some ent =>
      match ent.details with
      | .enum n .. | .struct n .. | .newtype n .. => .named t n
      | .option t' =>
        (match σ.get t' with
         | some ⟨.option _, _, _⟩ => tyOf σ f t'
         | _ => .opt (tyOf σ f t'))
      | .box t' => .box (tyOf σ f t')
      | .vec t' => .vec (tyOf σ f t')
      | .set t' => .set (tyOf σ f t')
      | .map k v =>
        (match σ.get k, σ.get v with
         | some ⟨.string, _, _⟩, some ⟨.jsonValue, _, _⟩ => .jsonMap
         | _, _ => .map (tyOf σ f k) (tyOf σ f v))
      | .tuple ts => .tuple (ts.map (tyOf σ f))
      | .array t' n => .array (tyOf σ f t') n
      | .native name ps => .native name (ps.map (tyOf σ f))
      | .unit => .lit "()"
      | .string => .lit "::std::string::String"
      | .boolean => .lit "bool"
      | .jsonValue => .lit "::serde_json::Value"
      | .integer n | .float n => .lit n
      | .reference _ => .bad

/-! ### structural judgements on a type tree -/

/-- what the module declares: (entry id, item name) -/
abbrev Decls := List (Id × String)

mutual
/-- every name resolves: generated items are declared, natives are recorded, nothing dangles -/
def Ty.resolved (decl : Decls) (natives : List String) : Ty → Bool
  | .named id n => decl.contains (id, n)
  | .opt t | .box t | .vec t | .set t => t.resolved decl natives
  | .map k v => k.resolved decl natives && v.resolved decl natives
  | .jsonMap => true
  | .tuple ts => Ty.resolvedList decl natives ts
  | .array t _ => t.resolved decl natives
  | .native name ps => natives.contains name && Ty.resolvedList decl natives ps
  | .lit _ => true
  | .bad => false
def Ty.resolvedList (decl : Decls) (natives : List String) : List Ty → Bool
  | [] => true
  | a :: r => a.resolved decl natives && Ty.resolvedList decl natives r
end

mutual
/-- ids of the generated items a value of this type CONTAINS (no `Box` / `Vec` / map in between) -/
def Ty.byValue : Ty → List Id
  | .named id _ => [id]
  | .opt t => t.byValue
  | .tuple ts => Ty.byValueList ts
  | .array t _ => t.byValue
  | _ => []
def Ty.byValueList : List Ty → List Id
  | [] => []
  | a :: r => a.byValue ++ Ty.byValueList r
end

def nonZeroPrefix : String := "::std::num::NonZero"

/-- a map key is `Eq + Hash + Ord`: `String` / integers / a generated item that derives them -/
def keyOk (hashable : Id → Bool) : Ty → Bool
  | .named id _ => hashable id
  | .lit s => s != "::serde_json::Value" && !s.startsWith "f"      -- f32 / f64 are neither Eq nor Hash
  | .native _ _ => true                                            -- external: the user's claim
  | _ => false

def litHasDefault (s : String) : Bool := !s.startsWith nonZeroPrefix

mutual
/-- the std / serde impls the base derives (`Debug`, `Clone`, `Serialize`, `Deserialize`) rely on exist:
    std implements `Debug` / `Clone` / `Default` for tuples of at most 12 elements, serde implements
    `Serialize` / `Deserialize` for arrays of at most 32 elements (and tuples of at most 16). `hashable id`:
    the generated item derives `Eq + Hash + Ord` (needed of a map key). -/
def Ty.shapeOk (hashable : Id → Bool) : Ty → Bool
  | .opt t | .box t | .vec t | .set t => t.shapeOk hashable
  | .map k v => k.shapeOk hashable && v.shapeOk hashable && keyOk hashable k
  | .tuple ts => decide (ts.length ≤ 12) && Ty.shapeOkList hashable ts
  | .array t n => decide (n ≤ 32) && t.shapeOk hashable
  | .native _ ps => Ty.shapeOkList hashable ps
  | .named _ _ | .jsonMap | .lit _ => true
  | .bad => false
def Ty.shapeOkList (hashable : Id → Bool) : List Ty → Bool
  | [] => true
  | a :: r => a.shapeOk hashable && Ty.shapeOkList hashable r
end

mutual
/-- the type implements `Default` (`#[serde(default)]` and `..: Default::default()` need it);
    `dflt id`: the generated item has a `Default` impl -/
def Ty.hasDefault (dflt : Id → Bool) : Ty → Bool
  | .named id _ => dflt id
  | .opt _ | .vec _ | .set _ | .map _ _ | .jsonMap => true
  | .box t => t.hasDefault dflt
  | .tuple ts => decide (ts.length ≤ 12) && Ty.hasDefaultList dflt ts
  | .array t n => decide (n ≤ 32) && t.hasDefault dflt
  | .native _ _ => false
  | .lit s => litHasDefault s
  | .bad => false
def Ty.hasDefaultList (dflt : Id → Bool) : List Ty → Bool
  | [] => true
  | a :: r => a.hasDefault dflt && Ty.hasDefaultList dflt r
end

/-! ## the emitted module -/

/-- one item of the Render summary together with the trees of its member types -/
structure MItem where
  id : Id
  base : ItemS
  ftys : List Ty               -- struct: member types; newtype: the inner type; enum: none
  vtys : List (List Ty)        -- per variant: payload types, then struct-variant member types
deriving Repr, Inhabited

structure Mod where
  items : List MItem
  builders : List String
  defaultFns : List String     -- custom fns in `mod defaults`, one per emission (not de-duplicated)
  sharedFns : List String      -- generic fns in `mod defaults`
deriving Repr, Inhabited

def MItem.allTys (m : MItem) : List Ty := m.ftys ++ m.vtys.flatten

def Mod.decls (M : Mod) : Decls := M.items.map fun m => (m.id, m.base.name)

def variantTysT (σ : Space) (v : Variant) : List Ty :=
  match v.details with
  | .simple => []
  | .item t => [tyOf σ fuel t]
  | .tuple ts =>
    (match ts with
     | [a] => [.tuple [tyOf σ fuel a]]
     | _ => ts.map (tyOf σ fuel))
  | .struct ps => ps.map (fun p => tyOf σ fuel p.ty)

def entryTys (σ : Space) (ent : Entry) : List Ty × List (List Ty) :=
  match ent.details with
  | .struct _ props _ _ => (props.map (fun p => tyOf σ fuel p.ty), [])
  | .enum _ _ vs _ _ _ => ([], vs.map (variantTysT σ))
  | .newtype _ inner _ _ => ([tyOf σ fuel inner], [])
  | _ => ([], [])

def mitemOf (tb : DeriveTables) (st : Settings) (σ : Space) (e : Id × Entry) : Option (MItem × List String) :=
  match itemOf tb st σ e.2 with
  | some (it, fns) => some (⟨e.1, it, (entryTys σ e.2).1, (entryTys σ e.2).2⟩, fns)
  | none => none

/-- `to_stream()` with type trees -/
def modOf (tb : DeriveTables) (st : Settings) (σ : Space) : Mod :=
  let its := σ.entries.filterMap (mitemOf tb st σ)
  { items := its.map (·.1)
    builders := (render tb st σ).builders
    defaultFns := (its.map (·.2)).flatten
    sharedFns := st.sharedDefaults.map sharedFnName }

/-- the projection the M2 correspondence compares with the real output -/
def Mod.summary (M : Mod) : Summary :=
  { items := M.items.map (·.base), builders := M.builders, defaultFns := toSet (M.defaultFns ++ M.sharedFns) }

/-! ## auto-deref chains

Every newtype gets `impl Deref { type Target = <inner> }` and `Box<T>` derefs to `T`. rustc collects the whole
auto-deref chain of the receiver before it looks a method up (`value.clone()` in the `From<&T> for T` template of
every item), so a chain that never leaves newtypes and boxes is error E0055 even though the types have finite size. -/

/-- the generated item a value of this type derefs to first, looking through `Box` -/
def Ty.derefHead : Ty → Option Id
  | .named id _ => some id
  | .box t => t.derefHead
  | _ => none

/-- one `Deref` step from item `id`: only newtypes implement `Deref` -/
def Mod.derefNext (M : Mod) (id : Id) : Option Id :=
  match M.items.find? (fun m => m.id == id) with
  | some m => if m.base.kind == "newtype" then (match m.ftys with | [T] => T.derefHead | _ => none) else none
  | none => none

/-- the chain from `id` leaves the newtypes within `n` steps -/
def derefEnds (M : Mod) : Nat → Id → Bool
  | 0, _ => false
  | n + 1, id =>
    match M.derefNext id with
    | none => true
    | some j => derefEnds M n j

/-! ## impl headers -/

/-- `impl <tr><arg> for <self>` (arg `""` when the trait takes none), as strings of the summary -/
structure Hdr where
  self : String
  tr : String
  arg : String
deriving Repr, DecidableEq, Inhabited

def stdString : String := "::std::string::String"

/-- the argument of `TryFrom<..>` as spelled by the two templates (`String` = `::std::string::String`) -/
def strArg (a : String) : String :=
  if a = "String" then stdString else if a = "&String" then "&" ++ stdString else a

def implHdr (name : String) : ImplK → Hdr
  | .fromRef => ⟨name, "From", "&" ++ name⟩
  | .default => ⟨name, "Default", ""⟩
  | .display => ⟨name, "Display", ""⟩
  | .fromStr => ⟨name, "FromStr", ""⟩
  | .tryFromStr a => ⟨name, "TryFrom", strArg a⟩
  | .deserialize => ⟨name, "Deserialize", ""⟩
  | .deref => ⟨name, "Deref", ""⟩
  | .fromInner ty => ⟨name, "From", ty⟩
  | .tryFromInner ty => ⟨name, "TryFrom", ty⟩
  | .intoInner ty => ⟨ty, "From", name⟩
  | .fromVariant ty => ⟨name, "From", ty⟩
  | .builderFn => ⟨name, "inherent builder", ""⟩

/-- the trait a derive implements -/
def deriveTrait (d : String) : String :=
  if d = "::serde::Deserialize" then "Deserialize" else if d = "::serde::Serialize" then "Serialize"
  else if d = "::std::default::Default" then "Default" else d

def itemHdrs (it : ItemS) : List Hdr :=
  it.impls.map (implHdr it.name) ++ it.derives.map (fun d => ⟨it.name, deriveTrait d, ""⟩)

def allHdrs (S : Summary) : List Hdr := (S.items.map itemHdrs).flatten

/-- rustc's notion of "the same type" on the type strings of impl headers is a parameter (`Vec<T>` and
    `::std::vec::Vec<T>`, `String` and `::std::string::String` are one type); `env.sameTy` must be
    reflexive on what it is asked about — the driver's instance normalises the known aliases. -/
structure Env where
  sameTy : String → String → Bool
  userDerives : List String := []        -- derives the user asked for (settings + patches)
  natives : List String := []            -- paths of the `Native` entries
  dfltOk : Bool := true                  -- conjunct 6, delivered by the C06 slice (`Defaults.hasType`)

/-- two headers collide: same trait (with the same argument) for the same type -/
def overlap (env : Env) (a b : Hdr) : Bool :=
  a.tr == b.tr && env.sameTy a.self b.self && env.sameTy a.arg b.arg

/-- `impl<T> From<T> for T` (core) -/
def hitsReflexiveFrom (env : Env) (h : Hdr) : Bool :=
  h.tr == "From" && (env.sameTy h.arg h.self ||
    -- alloc's `impl<T> From<T> for Box<T>` (a newtype whose inner type is a `Box` of itself)
    env.sameTy ("::std::boxed::Box<" ++ h.arg ++ ">") h.self)

/-- `impl<T, U: Into<T>> TryFrom<U> for T` (core): an explicit `TryFrom<U> for T` collides with it as soon
    as `From<U> for T` exists (or `U = T`) -/
def hitsBlanketTryFrom (env : Env) (hs : List Hdr) (h : Hdr) : Bool :=
  h.tr == "TryFrom" && (env.sameTy h.arg h.self ||
    hs.any fun g => g.tr == "From" && env.sameTy g.self h.self && env.sameTy g.arg h.arg)

def pairwiseB {α : Type} (r : α → α → Bool) : List α → Bool
  | [] => true
  | a :: l => l.all (r a) && pairwiseB r l

/-! ## names -/

def identOk (s : String) : Bool := Names.isRustIdent s.toList

def nodupB (l : List String) : Bool := pairwiseB (fun a b => a != b) l

/-- fixed module names of the output (output.rs) -/
def reservedMods : List String := ["error", "builder", "defaults"]

/-- prelude names the templates use unqualified at module level: `Default::default()`, `Vec<T>` (sets),
    `&String` / `String` (`TryFrom` of newtypes over a `FromStr` type) -/
def preludeTypes : List String := ["Default", "Vec", "String"]
/-- … and the value-namespace ones (`Ok(..)`, `Err(..)`): only a tuple struct (newtype) defines a value -/
def preludeValues : List String := ["Ok", "Err"]

def fieldNamesOk (fs : List FieldS) : Bool :=
  nodupB (fs.map (·.name)) && fs.all (fun f => identOk f.name)

/-! ## serde_derive's compile-time checks (internals/{attr,check}.rs 1.0.219) and format literals -/

def fieldWire (f : FieldS) : String :=
  (f.serde.findSome? fun a => match a with | .rename s => some s | _ => none).getD f.name

def hasArg (f : FieldS) (a : SerdeArg) : Bool := f.serde.contains a

def isDefaultArg : SerdeArg → Bool
  | .default => true
  | _ => false

/-- the item's `#[serde(..)]` container/variant attributes are accepted by serde_derive -/
def serdeLegalItem (it : ItemS) : Bool :=
  -- `tag = ".."`: "cannot be used with tuple variants" (arity ≠ 1); "variant field name conflicts with internal tag"
  (match it.serde.find? (fun s => s.startsWith "tag=") with
   | some tg =>
     if it.serde.any (fun s => s.startsWith "content=") then
       -- adjacent: "enum tags .. for type and content conflict with each other"
       !it.serde.contains ("content=" ++ (tg.drop 4).toString)
     else
       it.variants.all fun v =>
         !(v.kind == "tuple" && v.tys.length != 1) &&
         v.fields.all (fun f => quoteStr (fieldWire f) != (tg.drop 4).toString)
   | none => true) &&
  -- `flatten`: "cannot be used on newtype structs"
  (it.kind != "newtype" || it.fields.all (fun f => !hasArg f .flatten)) &&
  -- typify's own `assert!`: an untagged enum has at most one unit variant
  (!it.serde.contains "untagged" || decide ((it.variants.filter (fun v => v.kind == "unit")).length ≤ 1)) &&
  -- no default was unrenderable (typify panics there)
  it.fields.all (fun f => !hasArg f .panics) &&
  it.variants.all (fun v => v.fields.all (fun f => !hasArg f .panics)) &&
  -- `write!(f, "<lit>")`: the literal is a valid format string without arguments
  (match it.displayArms with
   | some arms => arms.all (fun a => (Serde.fmtLiteral a.2.toList).isSome)
   | none => true)

/-! ## the specification -/

def universalDerives : List String := ["::serde::Serialize", "::serde::Deserialize", "Debug", "Clone"]
def fieldlessDerivable : List String := ["Copy", "Clone", "Debug", "PartialOrd", "Ord", "PartialEq", "Eq", "Hash"]
def stringImplements : List String := ["Clone", "Debug", "Default", "PartialOrd", "Ord", "PartialEq", "Eq", "Hash"]

def isFieldless (it : ItemS) : Bool := it.kind == "enum" && it.variants.all (fun v => v.kind == "unit")
def isStringNewtype (it : ItemS) : Bool :=
  it.kind == "newtype" && (it.fields.map (·.ty)) == [stdString]

/-- a derive on an item is satisfiable per the std tables (user-requested derives are the user's claim) -/
def deriveOk (env : Env) (it : ItemS) (d : String) : Bool :=
  env.userDerives.contains d || universalDerives.contains d ||
  (fieldlessDerivable.contains d && isFieldless it) || (stringImplements.contains d && isStringNewtype it)

/-- the item derives `Eq + Hash + Ord` (what a map key needs) -/
def hashableItem (it : ItemS) : Bool :=
  ["Eq", "Hash", "Ord"].all (fun d => it.derives.contains d)

def Mod.hashable (M : Mod) (id : Id) : Bool :=
  M.items.any fun m => m.id == id && hashableItem m.base

def Mod.dflt (M : Mod) (id : Id) : Bool :=
  M.items.any fun m => m.id == id && m.base.impls.contains .default

/-- member types paired with the member summaries (struct members; `#[serde(default)]` needs `Default`) -/
def defaultsAvailable (M : Mod) (m : MItem) : Bool :=
  ((m.base.fields.zip m.ftys).all fun (f, T) => !(f.serde.any isDefaultArg) || T.hasDefault M.dflt) &&
  ((m.base.variants.zip m.vtys).all fun (v, Ts) =>
     (v.fields.zip (Ts.drop v.tys.length)).all fun (f, T) => !(f.serde.any isDefaultArg) || T.hasDefault M.dflt)

/-- **The Rust rules the emitted module has to satisfy** (spec; see the file header) -/
structure Compiles (env : Env) (M : Mod) : Prop where
  /-- item names unique per module namespace: types at the root (and not a fixed module / shadowing a
      prelude name the templates use), fns in `defaults` -/
  uniqueItems : (M.items.map (·.base.name)).Nodup ∧
    (∀ m ∈ M.items, m.base.name ∉ reservedMods ∧ m.base.name ∉ preludeTypes ∧
        ¬ (m.base.kind = "newtype" ∧ m.base.name ∈ preludeValues)) ∧
    M.defaultFns.Nodup ∧ (∀ f ∈ M.defaultFns, f ∉ M.sharedFns)
  /-- member / variant names are identifiers and unique within their item -/
  fieldsDistinct : ∀ m ∈ M.items, identOk m.base.name = true ∧
    (m.base.kind = "newtype" ∨ fieldNamesOk m.base.fields = true) ∧
    (m.base.variants.map (·.name)).Nodup ∧
    ∀ v ∈ m.base.variants, identOk v.name = true ∧ fieldNamesOk v.fields = true
  /-- every member type resolves -/
  typesResolve : ∀ m ∈ M.items, ∀ T ∈ m.allTys, T.resolved M.decls env.natives = true
  /-- impl headers pairwise non-overlapping, none overlapping core's blanket impls -/
  implsCoherent : (allHdrs M.summary).Pairwise (fun a b => overlap env a b = false) ∧
    ∀ h ∈ allHdrs M.summary, hitsReflexiveFrom env h = false ∧ hitsBlanketTryFrom env (allHdrs M.summary) h = false
  /-- derives satisfiable: per the std tables, member types within the arity limits, `Default` where
      `#[serde(default)]` needs it -/
  derivable : ∀ m ∈ M.items, (∀ d ∈ m.base.derives, deriveOk env m.base d = true) ∧
    (∀ T ∈ m.allTys, T.shapeOk M.hashable = true) ∧ defaultsAvailable M m = true
  /-- default expressions well typed (C06 slice) -/
  defaultsTyped : env.dfltOk = true
  /-- no infinitely sized type: by-value containment between items is well founded -/
  finiteSize : ∃ rank : Id → Nat, ∀ m ∈ M.items, ∀ T ∈ m.allTys, ∀ i ∈ T.byValue, rank i < rank m.id
  /-- serde attribute combinations and format literals are accepted -/
  serdeLegal : ∀ m ∈ M.items, serdeLegalItem m.base = true
  /-- every auto-deref chain is finite (E0055 otherwise) -/
  derefFinite : ∀ m ∈ M.items, ∃ n, derefEnds M n m.id = true

/-! ## `WF`: the decidable predicate on the IR -/

def itemNames (σ : Space) : List String := σ.entries.filterMap (·.2.details.name?)

def nativeNames (σ : Space) : List String :=
  σ.entries.filterMap fun e => match e.2.details with | .native n _ => some n | _ => none

def isNewtypeEntry (e : Entry) : Bool := match e.details with | .newtype .. => true | _ => false

/-- a type path as `syn::parse_str::<TypePath>` wants it, approximated: non-empty, made of identifier
    characters and `: < > , space`, every identifier run starts with a letter or `_`, brackets balanced
    (the real code panics in `type_ident` otherwise: `expect("type path wasn't valid")`) -/
def isTypePath (s : String) : Bool :=
  let cs := s.toList
  let rec go : List Char → Bool → Nat → Bool
    | [], _, depth => depth == 0
    | c :: r, inIdent, depth =>
      if Names.isXidContinue c then
        (inIdent || Names.isXidStart c || c == '_') && go r true depth
      else if c == '<' then go r false (depth + 1)
      else if c == '>' then depth != 0 && go r false (depth - 1)
      else if c == ':' || c == ',' || c == ' ' then go r false depth
      else false
  !cs.isEmpty && cs.any Names.isXidStart && go cs false 0

/-- (1) names: items pairwise distinct, none is a fixed module name or shadows a prelude name the
    templates rely on, custom default fns pairwise distinct and distinct from the generic ones -/
def c1_items (σ : Space) : Bool := nodupB (itemNames σ)
def c1_mods (σ : Space) : Bool := (itemNames σ).all (fun n => !reservedMods.contains n)
def c1_prelude (σ : Space) : Bool :=
  σ.entries.all fun e => match e.2.details.name? with
    | some n => !preludeTypes.contains n && !(isNewtypeEntry e.2 && preludeValues.contains n)
    | none => true
def c1_defaultFns (tb : DeriveTables) (st : Settings) (σ : Space) : Bool :=
  let M := modOf tb st σ
  nodupB M.defaultFns && M.defaultFns.all (fun f => !M.sharedFns.contains f)

def fieldIdentsOk (ps : List Field) : Bool :=
  nodupB (ps.map (·.name)) && ps.all (fun p => identOk p.name)

/-- (2) identifiers: item, member and variant names are identifiers, distinct within their item -/
def c2_idents (σ : Space) : Bool :=
  σ.entries.all fun e => match e.2.details with
    | .struct n ps _ _ => identOk n && fieldIdentsOk ps
    | .enum n _ vs _ _ _ => identOk n && nodupB (vs.map (·.identName)) &&
        vs.all (fun v => identOk v.identName &&
          (match v.details with | .struct ps => fieldIdentsOk ps | _ => true))
    | .newtype n _ _ _ => identOk n
    | _ => true

def keysNodup (σ : Space) : Bool := pairwiseB (fun (a b : Nat) => a != b) (σ.entries.map (·.1))

/-- (3) ids: entry ids are keys, no `Reference` entry is left, number / native type names are paths, and
    every member type of every named entry resolves (nothing dangles, within the rendering fuel) -/
def c3_ids (env : Env) (tb : DeriveTables) (st : Settings) (σ : Space) : Bool :=
  keysNodup σ &&
  (σ.entries.all fun e => match e.2.details with
    | .reference _ => false
    | .native n _ => isTypePath n
    | .integer n | .float n => isTypePath n
    | _ => true) &&
  let M := modOf tb st σ
  M.items.all fun m => m.allTys.all fun T => T.resolved M.decls env.natives

/-- (4) impl coherence on the emitted headers -/
def c4_impls (env : Env) (tb : DeriveTables) (st : Settings) (σ : Space) : Bool :=
  let hs := allHdrs (render tb st σ)
  pairwiseB (fun a b => !overlap env a b) hs &&
  hs.all (fun h => !hitsReflexiveFrom env h && !hitsBlanketTryFrom env hs h)

/-- the derive tables name only traits that are derivable where typify adds them -/
def tablesDerivable (tb : DeriveTables) : Bool :=
  tb.base.all (universalDerives.contains ·) && tb.simpleEnum.all (fieldlessDerivable.contains ·) &&
  tb.strNewtype.all (stringImplements.contains ·)

/-- `Default` of a generated item, read off the IR (`output_struct` / `output_enum` / `output_newtype`) -/
def irDflt (σ : Space) (id : Id) : Bool :=
  σ.entries.any fun e => e.1 == id &&
    (match e.2.details with
     | .struct _ props _ d => d.isSome || props.all (fun p => match p.state with | .required => false | _ => true)
     | .enum _ _ _ _ d _ => d.isSome
     | .newtype _ _ _ d => d.isSome
     | _ => false)

/-- (5) derivability -/
def c5_derives (env : Env) (tb : DeriveTables) (st : Settings) (σ : Space) : Bool :=
  let M := modOf tb st σ
  tablesDerivable tb &&
  -- `strings_to_derives`: `syn::parse_str::<Path>(derive).unwrap()`
  st.extraDerives.all isTypePath && σ.entries.all (fun e => e.2.extraDerives.all isTypePath) &&
  M.items.all fun m =>
    m.base.derives.all (deriveOk env m.base) && m.allTys.all (fun T => T.shapeOk M.hashable) &&
    defaultsAvailable M m

/-- by-value members of an entry (`get_child_ids`, cycles.rs) -/
def byValIds : Details → List Id
  | .struct _ ps _ _ => ps.map (·.ty)
  | .enum _ _ vs _ _ _ => (vs.map variantIds).flatten
  | .newtype _ inner _ _ => [inner]
  | .option t => [t]
  | .array t _ => [t]
  | .tuple ts => ts
  | _ => []

def lookupRank (r : List (Id × Nat)) (t : Id) : Option Nat := (r.find? (fun e => e.1 == t)).map (·.2)

def allSome : List (Option Nat) → Option (List Nat)
  | [] => some []
  | none :: _ => none
  | some a :: r => (allSome r).map (a :: ·)

/-- one round of height assignment: an entry all of whose by-value members have a height gets one -/
def stepRanks (σ : Space) (r : List (Id × Nat)) : List (Id × Nat) :=
  σ.entries.filterMap fun e =>
    match lookupRank r e.1 with
    | some k => some (e.1, k)
    | none =>
      match allSome ((byValIds e.2.details).map (lookupRank r)) with
      | some ks => some (e.1, ks.foldl max 0 + 1)
      | none => none

def iterRanks (σ : Space) : Nat → List (Id × Nat) → List (Id × Nat)
  | 0, r => r
  | n + 1, r =>
    let r' := stepRanks σ r
    if r'.length == r.length then r else iterRanks σ n r'

/-- candidate heights (a certificate: `c7_acyclic` re-checks it, the theorem relies on the check only) -/
def ranks (σ : Space) : List (Id × Nat) := iterRanks σ (σ.entries.length + 1) []

def rankOf (r : List (Id × Nat)) (t : Id) : Nat := (lookupRank r t).getD 0

/-- (7) by-value containment is acyclic: the height strictly decreases along every by-value member -/
def c7_acyclic (σ : Space) : Bool :=
  let r := ranks σ
  σ.entries.all fun e => (byValIds e.2.details).all fun c => decide (rankOf r c < rankOf r e.1)

/-- (8) serde attribute legality and format literals, on the emitted items -/
def c8_serde (tb : DeriveTables) (st : Settings) (σ : Space) : Bool :=
  (render tb st σ).items.all serdeLegalItem &&
  -- typify's own `assert!` in `output_newtype`: an enumerated-values newtype is not over `String`
  σ.entries.all fun e => match e.2.details with
    | .newtype _ inner (.enumValues _) _ => !isStrInner σ inner
    | _ => true

/-- (9) auto-deref chains leave the newtypes: checked with fuel = number of items + 1 on the emitted module -/
def c9_deref (tb : DeriveTables) (st : Settings) (σ : Space) : Bool :=
  let M := modOf tb st σ
  M.items.all fun m => derefEnds M (M.items.length + 1) m.id

/-- conjunct names, in the order of the property text -/
def conjuncts (env : Env) (tb : DeriveTables) (st : Settings) (σ : Space) : List (String × Bool) :=
  [("items_unique", c1_items σ), ("no_module_clash", c1_mods σ), ("no_prelude_shadow", c1_prelude σ),
   ("default_fns_unique", c1_defaultFns tb st σ), ("idents", c2_idents σ), ("ids_resolve", c3_ids env tb st σ),
   ("impls_coherent", c4_impls env tb st σ), ("derivable", c5_derives env tb st σ),
   ("defaults_typed", env.dfltOk), ("acyclic", c7_acyclic σ), ("serde_legal", c8_serde tb st σ),
   ("deref_finite", c9_deref tb st σ)]

/-- **WF** -/
def WF (env : Env) (tb : DeriveTables) (st : Settings) (σ : Space) : Bool :=
  c1_items σ && c1_mods σ && c1_prelude σ && c1_defaultFns tb st σ && c2_idents σ && c3_ids env tb st σ &&
  c4_impls env tb st σ && c5_derives env tb st σ && env.dfltOk && c7_acyclic σ && c8_serde tb st σ &&
  c9_deref tb st σ

/-- the environment the IR itself determines (the driver supplies `sameTy` and `dfltOk`) -/
def envOf (sameTy : String → String → Bool) (dfltOk : Bool) (st : Settings) (σ : Space) : Env :=
  { sameTy := sameTy
    userDerives := st.extraDerives ++ (σ.entries.map (·.2.extraDerives)).flatten
    natives := nativeNames σ
    dfltOk := dfltOk }

/-! ## panic sites reachable from `to_stream()` and the conjunct that excludes each

`fingerprint` = enclosing fn + `|` + the call (macro name, or `.unwrap()` / `.expect("..")` with the
receiver's last method), as produced by `harness/src/extract_t9.rs`. -/

structure Site where
  file : String
  fn : String
  fingerprint : String
deriving Repr, DecidableEq, Inhabited

/-- why a site cannot fire on a WF input -/
inductive Excl where
  | idsResolve        -- (3): the id is an entry of the space / not a `Reference` / a type path
  | identsOk          -- (2): `format_ident!` gets an identifier; `ident_name` is set after finalisation
  | derivesArePaths   -- (5): derive names (settings, patches) parse as paths
  | serdeLegal        -- (8): untagged enums have at most one unit variant; constrained newtypes are not over `String`
  | defaultsTyped     -- (6): `output_value` renders every accepted default (`validate_value` accepted it)
  | unitHasIntrinsic  -- a unit-typed member never has an explicit default fn (`has_default`)
  | ingestOnly        -- not on the `to_stream()` path (conversion / finalisation); listed for completeness
  | infallible        -- cannot fail: serialising a `Schema` to JSON, parsing a literal typify built itself
deriving Repr, DecidableEq, Inhabited

end TypifyModel.Wf

import TypifyModel.Model.FrontendsBase
/-! # Model of typify's three front-ends (property C15)

* `Settings` mirrors `TypeSpaceSettings` (typify-impl/src/lib.rs:301-315); the builder API
  (`with_*`, lib.rs:416-558) is the set of functions `Settings.with…`.
* `CliArgs`, `parseCrateSpec`, `cliSettings`, `outputPath`, `runCli` mirror
  cargo-typify/src/{lib,main}.rs.
* `MacroOpts`, `parseMacroCrate`, `macroSettings` mirror typify-macro/src/{lib,token_utils}.rs.

The code is modelled as it is (e.g. `with_derive` dedupes but `TypeSpacePatch::with_derive` does
not; the CLI's builder default is on, the macro's is off; `is_crate` accepts the empty name).
What is *not* modelled: clap's and serde_tokenstream's tokenisation (inputs are the already
parsed option structures), and the generator itself (a function of `Settings` × schema).
The tables regenerated from the source (`Generated/Frontends.lean`, T7) are parameters here. -/
namespace TypifyModel.Frontends

/-! ## Settings and the builder API -/

inductive UnknownPolicy where
  | generate | allow | deny
  deriving DecidableEq, Repr

/-- `CrateVers`; a `semver::Version` is represented by its (canonical) text -/
inductive CrateVers where
  | version (v : String) | any | never
  deriving DecidableEq, Repr

structure CrateEntry where
  version : CrateVers
  rename : Option String
  deriving DecidableEq, Repr

structure Patch where
  rename : Option String := none
  derives : List String := []
  deriving DecidableEq, Repr

structure Replace where
  replaceType : String
  impls : List Impl
  deriving DecidableEq, Repr

/-- `schema` is the text of the `SchemaObject` (opaque to the front-ends) -/
structure Conversion where
  schema : String
  typeName : String
  impls : List Impl
  deriving DecidableEq, Repr

/-- A `BTreeMap<String, β>` as an association list; `mapInsert` keeps it sorted by key. -/
abbrev SMap (β : Type) := List (String × β)

def mapInsert {β : Type} (k : String) (v : β) : SMap β → SMap β
  | [] => [(k, v)]
  | (k', v') :: t =>
    match compare k k' with
    | .lt => (k, v) :: (k', v') :: t
    | .eq => (k, v) :: t
    | .gt => (k', v') :: mapInsert k v t

def mapLookup {β : Type} (k : String) : SMap β → Option β
  | [] => none
  | (k', v') :: t => if k = k' then some v' else mapLookup k t

structure Settings where
  typeMod : Option String
  extraDerives : List String
  structBuilder : Bool
  unknownCrates : UnknownPolicy
  crates : SMap CrateEntry
  mapType : String
  patch : SMap Patch
  replace : SMap Replace
  convert : List Conversion
  deriving DecidableEq, Repr

/-- `MapType::default()` -/
def defaultMapType : String := "::std::collections::HashMap"

/-- `TypeSpaceSettings::default()` -/
def Settings.default : Settings :=
  { typeMod := none, extraDerives := [], structBuilder := false, unknownCrates := .generate,
    crates := [], mapType := defaultMapType, patch := [], replace := [], convert := [] }

namespace Settings
def withTypeMod (s : Settings) (m : String) : Settings := { s with typeMod := some m }
/-- `with_derive`: pushed unless already present -/
def withDerive (s : Settings) (d : String) : Settings :=
  if s.extraDerives.contains d then s else { s with extraDerives := s.extraDerives ++ [d] }
def withStructBuilder (s : Settings) (b : Bool) : Settings := { s with structBuilder := b }
def withReplacement (s : Settings) (name ty : String) (impls : List Impl) : Settings :=
  { s with replace := mapInsert name ⟨ty, impls⟩ s.replace }
def withPatch (s : Settings) (name : String) (p : Patch) : Settings :=
  { s with patch := mapInsert name p s.patch }
def withConversion (s : Settings) (schema ty : String) (impls : List Impl) : Settings :=
  { s with convert := s.convert ++ [⟨schema, ty, impls⟩] }
def withUnknownCrates (s : Settings) (p : UnknownPolicy) : Settings := { s with unknownCrates := p }
def withCrate (s : Settings) (name : String) (v : CrateVers) (rename : Option String) : Settings :=
  { s with crates := mapInsert name ⟨v, rename⟩ s.crates }
def withMapType (s : Settings) (m : String) : Settings := { s with mapType := m }
end Settings

namespace Patch
def withRename (p : Patch) (r : String) : Patch := { p with rename := some r }
/-- `TypeSpacePatch::with_derive`: pushed, no dedupe -/
def withDerive (p : Patch) (d : String) : Patch := { p with derives := p.derives ++ [d] }
end Patch

/-- one call of the builder API -/
inductive Call where
  | typeMod (m : String)
  | derive (d : String)
  | structBuilder (b : Bool)
  | replacement (name ty : String) (impls : List Impl)
  | patch (name : String) (p : Patch)
  | conversion (schema ty : String) (impls : List Impl)
  | unknownCrates (p : UnknownPolicy)
  | crate (name : String) (v : CrateVers) (rename : Option String)
  | mapType (m : String)
  deriving DecidableEq, Repr

def Call.apply (s : Settings) : Call → Settings
  | .typeMod m => s.withTypeMod m
  | .derive d => s.withDerive d
  | .structBuilder b => s.withStructBuilder b
  | .replacement n t i => s.withReplacement n t i
  | .patch n p => s.withPatch n p
  | .conversion sc t i => s.withConversion sc t i
  | .unknownCrates p => s.withUnknownCrates p
  | .crate n v r => s.withCrate n v r
  | .mapType m => s.withMapType m

/-- a builder program: `TypeSpaceSettings::default()` followed by the calls, in order -/
def runCalls (cs : List Call) : Settings := cs.foldl Call.apply Settings.default

/-! ## Crate specifiers (cargo-typify/src/lib.rs:94-132, typify-impl/src/lib.rs:356-367) -/

/-- `s.find(d)` + the two slices around it -/
def splitFirst (d : Char) : List Char → Option (List Char × List Char)
  | [] => none
  | c :: t =>
    if c = d then some ([], t)
    else match splitFirst d t with
      | some (a, b) => some (c :: a, b)
      | none => none

/-- `CrateVers::parse`; `validVers` stands for `semver::Version::parse(s).is_ok()` -/
def CrateVers.parse (validVers : List Char → Bool) (s : List Char) : Option CrateVers :=
  if s = ['!'] then some .never
  else if s = ['*'] then some .any
  else if validVers s then some (.version (String.ofList s)) else none

structure CrateSpec where
  name : String
  version : CrateVers
  rename : Option String
  deriving DecidableEq, Repr

/-- `<CrateSpec as FromStr>::from_str`; `isCrate` is the regenerated `is_crate` (T7) -/
def parseCrateSpec (isCrate : List Char → Bool) (validVers : List Char → Bool) (s : List Char) :
    Option CrateSpec :=
  let go (rename : Option String) (s : List Char) : Option CrateSpec :=
    match splitFirst '@' s with
    | none => none
    | some (crateStr, versStr) =>
      if !isCrate crateStr then none
      else match CrateVers.parse validVers versStr with
        | none => none
        | some v => some ⟨String.ofList crateStr, v, rename⟩
  match splitFirst '=' s with
  | some (rename, rest) => if !isCrate rename then none else go (some (String.ofList rename)) rest
  | none => go none s

/-! ## cargo-typify -/

/-- the parsed clap structure -/
structure CliArgs where
  input : String
  builder : Bool := false
  noBuilder : Bool := false
  additionalDerives : List String := []
  output : Option String := none
  crates : List CrateSpec := []
  mapType : Option String := none
  /-- restricted by clap's `value_parser` to generate / allow / deny -/
  unknownCrates : Option String := none
  deriving DecidableEq, Repr

def CliArgs.useBuilder (a : CliArgs) : Bool := !a.noBuilder

def parsePolicy (s : String) : Option UnknownPolicy :=
  if s = "generate" then some .generate
  else if s = "allow" then some .allow
  else if s = "deny" then some .deny
  else none

/-- the settings built by `cargo_typify::convert` (lib.rs:142-170); `none` = `unreachable!()` -/
def cliSettings (a : CliArgs) : Option Settings :=
  let s := Settings.default
  let s := s.withStructBuilder a.useBuilder
  let s := a.additionalDerives.foldl (fun s d => s.withDerive d) s
  let s := a.crates.foldl (fun s c => s.withCrate c.name c.version c.rename) s
  let s := match a.mapType with
    | some m => s.withMapType m
    | none => s
  match a.unknownCrates with
  | none => some s
  | some u => match parsePolicy u with
    | some p => some (s.withUnknownCrates p)
    | none => none

inductive Output where
  | stdout | file (p : String)
  deriving DecidableEq, Repr

/-- `Path::set_extension("rs")` on a Unix path whose last component is an ordinary file name
    (std `rsplit_file_at_dot`): the stem is the file name up to its last `.`, unless that is the
    leading character. `none`: outside the modelled domain (empty, trailing `/`, `.`, `..`). -/
def splitLast (d : Char) (s : List Char) : Option (List Char × List Char) :=
  match splitFirst d s.reverse with
  | some (a, b) => some (b.reverse, a.reverse)
  | none => none

def fileStem (f : List Char) : List Char :=
  match splitLast '.' f with
  | none => f
  | some (before, _) => if before = [] then f else before

def setExtensionRs (p : List Char) : Option (List Char) :=
  let (dir, f) := match splitLast '/' p with
    | some (d, f) => (d ++ ['/'], f)
    | none => ([], p)
  if f = [] ∨ f = ['.'] ∨ f = ['.', '.'] then none
  else some (dir ++ fileStem f ++ ['.', 'r', 's'])

/-- `CliArgs::output_path` (lib.rs:64-79); `none` = input path outside the modelled domain -/
def outputPath (a : CliArgs) : Option Output :=
  match a.output with
  | some o => if o = "-" then some .stdout else some (.file o)
  | none => match setExtensionRs a.input.toList with
    | some p => some (.file (String.ofList p))
    | none => none

/-- the un-parsed command line, after clap's tokenisation -/
structure RawCli where
  input : String
  builder : Bool := false
  noBuilder : Bool := false
  additionalDerives : List String := []
  output : Option String := none
  crates : List String := []
  mapType : Option String := none
  unknownCrates : Option String := none
  deriving DecidableEq, Repr

def parseSpecs (isCrate validVers : List Char → Bool) : List String → Option (List CrateSpec)
  | [] => some []
  | s :: t => match parseCrateSpec isCrate validVers s.toList, parseSpecs isCrate validVers t with
    | some c, some cs => some (c :: cs)
    | _, _ => none

/-- clap: `--builder`/`--no-builder` exclude each other, every `--crate` must parse, the policy is
    one of three words. `none` = usage error (exit 2, before any file is touched). -/
def parseCli (isCrate validVers : List Char → Bool) (r : RawCli) : Option CliArgs :=
  if r.builder && r.noBuilder then none
  else match r.unknownCrates.map parsePolicy with
    | some none => none
    | _ => match parseSpecs isCrate validVers r.crates with
      | none => none
      | some cs => some { input := r.input, builder := r.builder, noBuilder := r.noBuilder,
                          additionalDerives := r.additionalDerives, output := r.output, crates := cs,
                          mapType := r.mapType, unknownCrates := r.unknownCrates }

structure CliResult where
  exit : Nat
  written : Option (String × String)
  stdout : String
  deriving DecidableEq, Repr

/-- main.rs: convert first; only a successful conversion writes (file or stdout).
    `generate settings input` = read + parse the schema, run the generator, format;
    `none` = any failure. -/
def runCli (isCrate validVers : List Char → Bool) (generate : Settings → String → Option String)
    (r : RawCli) : CliResult :=
  match parseCli isCrate validVers r with
  | none => ⟨2, none, ""⟩
  | some a =>
    match cliSettings a with
    | none => ⟨101, none, ""⟩
    | some s =>
      match generate s a.input with
      | none => ⟨1, none, ""⟩
      | some text =>
        match outputPath a with
        | some .stdout => ⟨0, none, text⟩
        | some (.file p) => ⟨0, some (p, text), ""⟩
        | none => ⟨1, none, ""⟩

/-! ## import_types! -/

/-- a `syn::Path` without generic arguments -/
structure TokPath where
  leading : Bool := false
  segs : List String
  deriving DecidableEq, Repr

/-- `path.to_token_stream().to_string()` (proc-macro token printing: every token separated);
    used for replacement / conversion type names, which the generator re-parses as a type -/
def TokPath.toString (p : TokPath) : String :=
  (if p.leading then ":: " else "") ++ " :: ".intercalate p.segs

/-- `derive_text` (typify-macro/src/lib.rs): the same printing with the spaces removed, i.e. the
    path as written (identifiers contain no spaces); derives are compared as strings -/
def TokPath.deriveText (p : TokPath) : String :=
  (if p.leading then "::" else "") ++ "::".intercalate p.segs

/-- `?Name` / `Name` after the colon of a replacement type -/
structure ImplTrait where
  maybe : Bool
  name : String
  deriving DecidableEq, Repr

structure TypeAndImpls where
  typeName : TokPath
  impls : List ImplTrait := []
  deriving DecidableEq, Repr

/-- `<TypeSpaceImpl as FromStr>::from_str` -/
def Impl.parse (s : String) : Option Impl :=
  if s = "FromStr" then some .fromStr
  else if s = "Display" then some .display
  else if s = "Default" then some .default
  else none

/-- a set of `TypeSpaceImpl` -/
structure ImplSet where
  fromStr : Bool := false
  display : Bool := false
  default : Bool := false
  deriving DecidableEq, Repr

def ImplSet.set (s : ImplSet) (i : Impl) (b : Bool) : ImplSet :=
  match i with
  | .fromStr => { s with fromStr := b }
  | .display => { s with display := b }
  | .default => { s with default := b }

def ImplSet.ofList (l : List Impl) : ImplSet := l.foldl (fun s i => s.set i true) {}

/-- iteration of a `BTreeSet<TypeSpaceImpl>`: derived `Ord` = declaration order -/
def ImplSet.toList (s : ImplSet) : List Impl :=
  (if s.fromStr then [Impl.fromStr] else []) ++ (if s.display then [Impl.display] else []) ++
  (if s.default then [Impl.default] else [])

/-- one `Name` / `?Name` of the trait list; unknown trait names are ignored -/
def ImplSet.step (s : ImplSet) (it : ImplTrait) : ImplSet :=
  match Impl.parse it.name with
  | some i => s.set i (!it.maybe)
  | none => s

/-- `TypeAndImpls::into_name_and_impls` (token_utils.rs:22-47) -/
def TypeAndImpls.implSet (defaults : List Impl) (t : TypeAndImpls) : ImplSet :=
  t.impls.foldl ImplSet.step (ImplSet.ofList defaults)

def TypeAndImpls.implList (defaults : List Impl) (t : TypeAndImpls) : List Impl :=
  (t.implSet defaults).toList

structure MacroPatch where
  rename : Option String := none
  derives : List TokPath := []
  deriving DecidableEq, Repr

/-- `impl From<MacroPatch> for TypeSpacePatch` (lib.rs:168-179) -/
def MacroPatch.toPatch (p : MacroPatch) : Patch :=
  let s : Patch := {}
  let s := match p.rename with
    | some r => s.withRename r
    | none => s
  p.derives.foldl (fun s d => s.withDerive d.deriveText) s

structure MacroCrateSpec where
  original : Option String
  version : CrateVers
  deriving DecidableEq, Repr

/-- `CrateName` / `MacroCrateSpec` deserialisation (lib.rs:98-158): key `"name"`, value
    `"version"` or `"original@version"` -/
def parseMacroCrate (isCrate validVers : List Char → Bool) (key value : List Char) :
    Option (String × MacroCrateSpec) :=
  if !isCrate key then none
  else
    let ov : Option (Option String × List Char) :=
      match splitFirst '@' value with
      | some (orig, rest) => if !isCrate orig then none else some (some (String.ofList orig), rest)
      | none => some (none, value)
    match ov with
    | none => none
    | some (original, versStr) =>
      match CrateVers.parse validVers versStr with
      | none => none
      | some v => some (String.ofList key, ⟨original, v⟩)

/-- the deserialised `MacroSettings`; map-like fields are listed in the iteration order of the
    collection they are deserialised into (T7 says which kind each is) -/
structure MacroOpts where
  derives : List TokPath := []
  structBuilder : Bool := false
  unknownCrates : UnknownPolicy := .generate
  crates : List (String × MacroCrateSpec) := []
  mapType : String := defaultMapType
  patch : List (String × MacroPatch) := []
  replace : List (String × TypeAndImpls) := []
  convert : List (String × TypeAndImpls) := []
  deriving DecidableEq, Repr

def applyMacroCrate (s : Settings) (e : String × MacroCrateSpec) : Settings :=
  match e.2.original with
  | some orig => s.withCrate orig e.2.version (some e.1)
  | none => s.withCrate e.1 e.2.version none

/-- the settings built by `do_import_types` (lib.rs:197-230), structured form -/
def macroSettings (defaults : List Impl) (o : MacroOpts) : Settings :=
  let s := Settings.default
  let s := o.derives.foldl (fun s d => s.withDerive d.deriveText) s
  let s := s.withStructBuilder o.structBuilder
  let s := o.patch.foldl (fun s e => s.withPatch e.1 e.2.toPatch) s
  let s := o.replace.foldl (fun s e => s.withReplacement e.1 e.2.typeName.toString (e.2.implList defaults)) s
  let s := o.convert.foldl (fun s e => s.withConversion e.1 e.2.typeName.toString (e.2.implList defaults)) s
  let s := o.crates.foldl applyMacroCrate s
  let s := s.withUnknownCrates o.unknownCrates
  s.withMapType o.mapType

end TypifyModel.Frontends

/-! String formats and the native types they select (`convert_string`, convert.rs).
    The table itself is regenerated from the source on every run (`Generated/StringFormats.lean`, translator T2);
    this file holds the row type, the model of the selection, and what is *assumed* of the third-party natives. -/
namespace TypifyModel

/-- one arm of `convert_string`'s `match format`: the path handed to `TypeEntry::new_native`, the impls it
    advertises (`TypeSpaceImpl::…`) and the `uses_<crate>` flags the arm sets; path "String" = plain `String` -/
structure StrFormatRow where
  fmt : String
  path : String
  impls : List String
  uses : List String
deriving Repr, DecidableEq, Inhabited

/-- `convert_string` for a schema with `format`: first matching arm, else the catch-all -/
def selectStringFormat (tbl : List StrFormatRow) (fallback : StrFormatRow) (fmt : String) : StrFormatRow :=
  match tbl.find? (fun r => r.fmt == fmt) with
  | some r => r
  | none => { fallback with fmt := fmt }

/-- What is assumed of a third-party native (chrono, uuid, std::net): its `Display` prints what its `Serialize`
    writes, and its `FromStr` accepts exactly what its `Deserialize` accepts, with the same value. These are facts
    about code outside `/repo`; they are *probed on compiled code on every run* (`./check C11`), not proved. -/
structure NativeFacts where
  path : String
  displayIsWire : Bool
  fromStrIsDe : Bool
  /-- crate whose `uses_` flag must be set when the path appears in the output ("" for std) -/
  crate : String
deriving Repr, DecidableEq, Inhabited

def knownNatives : List NativeFacts := [
  ⟨"::uuid::Uuid", true, true, "uuid"⟩,
  ⟨"::chrono::naive::NaiveDate", true, true, "chrono"⟩,
  -- chrono prints `2024-02-29 13:45:10 UTC` but serialises `2024-02-29T13:45:10Z`
  ⟨"::chrono::DateTime<::chrono::offset::Utc>", false, true, "chrono"⟩,
  ⟨"::std::net::IpAddr", true, true, ""⟩,
  ⟨"::std::net::Ipv4Addr", true, true, ""⟩,
  ⟨"::std::net::Ipv6Addr", true, true, ""⟩
]

def nativeFacts (path : String) : Option NativeFacts := knownNatives.find? (fun n => n.path == path)

/-- the formats the README documents, with the documented type -/
def documentedFormats : List (String × String) := [
  ("uuid", "::uuid::Uuid"),
  ("date", "::chrono::naive::NaiveDate"),
  ("date-time", "::chrono::DateTime<::chrono::offset::Utc>"),
  ("ip", "::std::net::IpAddr"),
  ("ipv4", "::std::net::Ipv4Addr"),
  ("ipv6", "::std::net::Ipv6Addr")
]

/-- a row advertises a string conversion only if the native's conversion is its wire form -/
def StrFormatRow.coherent (r : StrFormatRow) : Bool :=
  r.path == "String" ||
  match nativeFacts r.path with
  | none => false
  | some n =>
    (!r.impls.contains "Display" || n.displayIsWire) &&
    (!r.impls.contains "FromStr" || n.fromStrIsDe) &&
    r.impls.all (fun i => i == "Display" || i == "FromStr" || i == "Default")

/-- the `uses_<crate>` flag of the crate named in the path is set by the arm -/
def StrFormatRow.usesOk (r : StrFormatRow) : Bool :=
  r.path == "String" ||
  match nativeFacts r.path with
  | none => false
  | some n => n.crate == "" || r.uses.contains n.crate

end TypifyModel

namespace TypifyModel

/-- the four operations of a third-party native whose wire form is a JSON string; values are abstract (`α`) -/
structure NativeOps (α : Type) where
  parse : String → Option α      -- `FromStr`
  de : String → Option α         -- `Deserialize` applied to the JSON string
  display : α → String           -- `Display`
  ser : α → String               -- `Serialize` (always a JSON string)

/-- the assumption recorded per native in `knownNatives` -/
def NativeOps.Meets {α : Type} (o : NativeOps α) (f : NativeFacts) : Prop :=
  (f.fromStrIsDe = true → ∀ s, o.parse s = o.de s) ∧ (f.displayIsWire = true → ∀ v, o.display v = o.ser v)

/-! The templates typify emits for a newtype over a native (`output_newtype`, constraints `None`):
    `impl FromStr { Ok(Self(value.parse()?)) }`, the three `TryFrom` forms `value.parse()`, `impl Display { self.0.fmt(f) }`
    and the derived transparent `Serialize` / `Deserialize`. -/
def ntFromStr {α : Type} (o : NativeOps α) (s : String) : Option α := o.parse s
def ntTryFrom {α : Type} (o : NativeOps α) (s : String) : Option α := ntFromStr o s
def ntDe {α : Type} (o : NativeOps α) (s : String) : Option α := o.de s
def ntDisplay {α : Type} (o : NativeOps α) (v : α) : String := o.display v
def ntSer {α : Type} (o : NativeOps α) (v : α) : String := o.ser v

/-- untagged enum all of whose variants are such natives (`untagged_newtype_variants` + `UntaggedFromStr` /
    `UntaggedDisplay`): `FromStr` tries the variants in order with `value.parse()`, serde's untagged `Deserialize`
    tries them in order with the buffered string; `Display` and `Serialize` dispatch on the variant -/
def utFromStr {α : Type} : List (NativeOps α) → Nat → String → Option (Nat × α)
  | [], _, _ => none
  | o :: r, i, s => match o.parse s with | some v => some (i, v) | none => utFromStr r (i + 1) s
def utDe {α : Type} : List (NativeOps α) → Nat → String → Option (Nat × α)
  | [], _, _ => none
  | o :: r, i, s => match o.de s with | some v => some (i, v) | none => utDe r (i + 1) s
def utDisplay {α : Type} (os : List (NativeOps α)) (v : Nat × α) : Option String := (os[v.1]?).map (·.display v.2)
def utSer {α : Type} (os : List (NativeOps α)) (v : Nat × α) : Option String := (os[v.1]?).map (·.ser v.2)

end TypifyModel

import TypifyModel.Model.Render
/-! The introspection API (`Type::{name, details, has_impl, builder}`, `TypeStruct::properties_info`,
    `TypeEnum::variants_info`, `TypeNewtype::inner`; lib.rs:1012-1197, type_entry.rs:599-702) as
    functions of the IR, separate from the Render model so that "the API describes the generated
    code" (C17) is a theorem relating the two. -/
namespace TypifyModel.Api
open TypifyModel TypifyModel.Render

inductive VariantInfo where
  | simple
  | tuple (tys : List Id)
  | struct (props : List (String × Id))
deriving Repr, Inhabited

inductive DetailsInfo where
  | struct (props : List (String × Bool × Id))          -- name, required, type
  | enum (variants : List (String × VariantInfo))
  | newtype (inner : Id)
  | other
deriving Repr, Inhabited

def details (ent : Entry) : DetailsInfo :=
  match ent.details with
  | .struct _ props _ _ =>
    .struct (props.map fun p => (p.name, (match p.state with | .required => true | _ => false), p.ty))
  | .enum _ _ vs _ _ _ =>
    .enum (vs.map fun v => (v.identName,
      match v.details with
      | .simple => .simple
      | .item t => .tuple [t]
      | .tuple ts => .tuple ts
      | .struct ps => .struct (ps.map fun p => (p.name, p.ty))))
  | .newtype _ inner _ _ => .newtype inner
  | _ => .other

/-- `Type::builder()` -/
def builder (st : Settings) (ent : Entry) : Option String :=
  if !st.structBuilder then none else
  match ent.details with
  | .struct name _ _ _ => some name
  | _ => none

/-- `TypeEntry::has_impl` (type_entry.rs:599-702) -/
def hasImpl (σ : Space) : Nat → Id → Impl → Bool
  | 0, _, _ => false
  | f + 1, t, i =>
    match σ.get t with
    | none => false
    | some ent =>
      match ent.details with
      | .enum _ _ _ _ dflt bes =>
        (match i with
         | .default => dflt.isSome
         | .fromStr => bes.contains .allSimpleVariants || bes.contains .untaggedFromStr
         | .display => bes.contains .allSimpleVariants || bes.contains .untaggedDisplay)
      | .struct _ _ _ dflt => (match i with | .default => dflt.isSome | _ => false)
      | .newtype _ inner c dflt =>
        (match c, i with
         | _, .default => dflt.isSome
         | .string .., .fromStr => true
         | .string .., .display => true
         | .none, i => hasImpl σ f inner i
         | _, _ => false)
      | .native _ _ => ent.impls.contains i       -- the settings' impl list, as recorded
      | .box t' => (match i with | .default => hasImpl σ f t' .default | _ => false)
      | .jsonValue => false
      | .unit | .option _ | .vec _ | .map _ _ | .set _ => (match i with | .default => true | _ => false)
      | .tuple ts => (match i with
          | .default => decide (ts.length ≤ 12) && ts.all (fun t' => hasImpl σ f t' .default)
          | _ => false)
      | .array t' n => (match i with
          | .default => decide (n ≤ 32) && hasImpl σ f t' .default
          | _ => false)
      | .boolean | .integer _ | .float _ | .string => true
      | .reference _ => false

end TypifyModel.Api

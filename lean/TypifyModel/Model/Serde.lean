import TypifyModel.Model.Json
import TypifyModel.Model.Ir
import TypifyModel.Model.IntTypes
/-! Run-time meaning of the code typify emits for an IR, as given by serde_derive 1.0.219 +
    serde_json 1.0.140 (`from_str` / `to_string`) and by the hand-written impl templates of
    type_entry.rs. **Modelled, not verified**: serde is third-party; this file is tied to reality by
    the M3 correspondence (compiled generated code answers the same requests).

    Recursion goes through type ids, so every function takes fuel; `E.fuel` is a distinct result.
    Shapes outside the modelled fragment answer `E.unsupported` (never a default). -/
namespace TypifyModel.Serde
open TypifyModel

inductive E where
  | fuel | unsupported | reject
deriving Repr, DecidableEq, Inhabited

/-- Rust values of generated types (newtypes and boxes are transparent) -/
inductive Val where
  | unit
  | bool (b : Bool)
  | int (n : Int)
  | flt (m : Int) (e : Nat)
  | str (s : String)
  | none
  | some (v : Val)
  | seq (vs : List Val)
  | map (kvs : List (String × Val))
  | struct (fs : List (String × Val))
  | variant (idx : Nat) (payload : Val)
  | json (j : Json)
deriving Repr, Inhabited

mutual
def Val.beq : Val → Val → Bool
  | .unit, .unit => true
  | .bool a, .bool b => a == b
  | .int a, .int b => a == b
  | .flt m e, .flt m' e' => m == m' && e == e'
  | .str a, .str b => a == b
  | .none, .none => true
  | .some a, .some b => Val.beq a b
  | .seq xs, .seq ys => Val.beqList xs ys
  | .map xs, .map ys => Val.beqKvs xs ys
  | .struct xs, .struct ys => Val.beqKvs xs ys
  | .variant i a, .variant j b => i == j && Val.beq a b
  | .json a, .json b => a == b
  | _, _ => false
def Val.beqList : List Val → List Val → Bool
  | [], [] => true
  | x :: xs, y :: ys => Val.beq x y && Val.beqList xs ys
  | _, _ => false
def Val.beqKvs : List (String × Val) → List (String × Val) → Bool
  | [], [] => true
  | (k, x) :: xs, (k', y) :: ys => k == k' && Val.beq x y && Val.beqKvs xs ys
  | _, _ => false
end
instance : BEq Val := ⟨Val.beq⟩

/-- third-party behaviour the model is parametric in -/
structure Ext where
  /-- `regress::Regex::new(p).unwrap().find(s).is_some()` -/
  regex : String → String → Bool

def rtyOfName (s : String) : Option RTy :=
  [RTy.i8, .u8, .i16, .u16, .i32, .u32, .i64, .u64, .nzu8, .nzu16, .nzu32, .nzu64].find? (fun t => t.name == s)

/-- length in Unicode scalar values (`chars().count()`) -/
def charCount (s : String) : Nat := s.toList.length

def checkString (x : Ext) (max min : Option Nat) (pat : Option String) (s : String) : Bool :=
  (match max with | some m => decide (charCount s ≤ m) | none => true) &&
  (match min with | some m => decide (m ≤ charCount s) | none => true) &&
  (match pat with | some p => x.regex p s | none => true)

/-- insertion into a key-sorted association list of values -/
def insertKv (k : String) (v : Val) : List (String × Val) → List (String × Val)
  | [] => [(k, v)]
  | (k', v') :: r =>
    if k < k' then (k, v) :: (k', v') :: r
    else if k = k' then (k, v) :: r
    else (k', v') :: insertKv k v r

/-! ### list helpers (take the recursive call as an argument) -/

def mapM' {α β : Type} (f : α → Except E β) : List α → Except E (List β)
  | [] => .ok []
  | a :: r =>
    match f a with
    | .error e => .error e
    | .ok b => match mapM' f r with
      | .error e => .error e
      | .ok bs => .ok (b :: bs)

/-- element-wise over two lists of equal length (types × json) -/
def zipM (f : Id → Json → Except E Val) : List Id → List Json → Except E (List Val)
  | [], [] => .ok []
  | t :: ts, j :: js =>
    match f t j with
    | .error e => .error e
    | .ok v => match zipM f ts js with
      | .error e => .error e
      | .ok vs => .ok (v :: vs)
  | _, _ => .error .reject

/-- first alternative that succeeds (serde untagged); `unsupported`/`fuel` abort the search -/
def firstOk {α : Type} (f : α → Nat → Except E Val) : List α → Nat → Except E Val
  | [], _ => .error .reject
  | a :: r, i =>
    match f a i with
    | .ok v => .ok v
    | .error .reject => firstOk f r (i + 1)
    | .error e => .error e

def hasFlatten (ps : List Field) : Bool := ps.any (fun p => p.rename == .flatten)

theorem hasFlatten_cons {p : Field} {r : List Field} (h : hasFlatten (p :: r) = false) :
    (p.rename == Rename.flatten) = false ∧ hasFlatten r = false := by
  simp only [hasFlatten, List.any_cons, Bool.or_eq_false_iff] at h
  exact h

def hasDefaultAttr (p : Field) : Bool :=
  match p.state with
  | .required => false
  | _ => true

/-! ### Default::default() of a type and the value of a property's default -/

/-- does a missing member deserialize (serde's `missing_field` → `deserialize_option`)? -/
def optionLike (σ : Space) : Nat → Id → Bool
  | 0, _ => false
  | f + 1, t =>
    match σ.get t with
    | some ⟨.option _, _, _⟩ => true
    | some ⟨.box t', _, _⟩ => optionLike σ f t'
    | some ⟨.newtype _ t' .none _, _, _⟩ => optionLike σ f t'
    | _ => false

/-- fuel-independent form: a chain of transparent wrappers longer than the space is a loop -/
def optionLikeT (σ : Space) (t : Id) : Bool := optionLike σ (σ.entries.length + 1) t

/-! ### `#[serde(flatten)]`

serde_derive gives a struct with a flattened member only `visit_map`: the members it names are read from the object, every other
entry is buffered; each flattened member, in declaration order, is then read from the buffer through `FlatMapDeserializer`:
* a struct without flattened members of its own (`deserialize_struct`) TAKES the buffered entries whose key it declares —
  whether or not it then succeeds — and sees only those;
* a map, a struct that itself flattens, an untagged or internally tagged enum (`deserialize_map` / `deserialize_any`) reads
  every entry still in the buffer and takes none;
* `Option<T>` reads `T` and becomes `None` when that fails (the entries `T` took stay taken);
* with `deny_unknown_fields` an entry left in the buffer at the end is an error. -/

/-- members in declaration order: a named member is looked up in the object (`named`), a flattened member reads from — and may
    take from — the buffer (`flat`); the buffer is threaded through -/
def foldFields (named : Field → Except E (String × Val))
    (flat : Field → List (String × Json) → Except E Val × List (String × Json)) :
    List Field → List (String × Json) → Except E (List (String × Val)) × List (String × Json)
  | [], c => (.ok [], c)
  | p :: ps, c =>
    if p.rename == .flatten then
      match flat p c with
      | (.error e, c') => (.error e, c')
      | (.ok v, c') =>
        match foldFields named flat ps c' with
        | (.error e, c'') => (.error e, c'')
        | (.ok r, c'') => (.ok ((p.name, v) :: r), c'')
    else
      match named p with
      | .error e => (.error e, c)
      | .ok a =>
        match foldFields named flat ps c with
        | (.error e, c') => (.error e, c')
        | (.ok r, c') => (.ok (a :: r), c')

/-- the entries of the object that no named (non-flattened) member claims -/
def bufferOf (props : List Field) (kvs : List (String × Json)) : List (String × Json) :=
  kvs.filter (fun kv => !(props.any (fun p => p.rename != .flatten && p.wire == kv.1)))

mutual
/-- JSON text → value of type `t` (`serde_json::from_str::<T>`) -/
def de (x : Ext) (σ : Space) : Nat → Id → Json → Except E Val
  | 0, _, _ => .error .fuel
  | f + 1, t, j =>
    match σ.get t with
    | none => .error .unsupported
    | some ent =>
      match ent.details with
      | .unit => (match j with | .null => .ok .unit | _ => .error .reject)
      | .boolean => (match j with | .bool b => .ok (.bool b) | _ => .error .reject)
      | .integer name =>
        (match rtyOfName name with
         | none => .error .unsupported
         | some ty =>
           match j with
           | .int n => if ty.lo ≤ n ∧ n ≤ ty.hi then .ok (.int n) else .error .reject
           | _ => .error .reject)
      | .float _ =>
        (match j with
         | .int n => .ok (.flt n 0)
         | .flt m e => .ok (.flt m e)
         | _ => .error .reject)
      | .string => (match j with | .str s => .ok (.str s) | _ => .error .reject)
      | .jsonValue => .ok (.json j)
      | .native _ _ => .error .unsupported
      | .reference _ => .error .unsupported
      | .option t' =>
        (match j with
         | .null => .ok .none
         | _ =>
           match σ.get t' with
           | some ⟨.option _, _, _⟩ => de x σ f t' j       -- nested Option is flattened when rendered
           | _ => match de x σ f t' j with
             | .ok v => .ok (.some v)
             | .error e => .error e)
      | .box t' => de x σ f t' j
      | .vec t' | .set t' =>
        (match j with
         | .arr xs => (match mapM' (de x σ f t') xs with | .ok vs => .ok (.seq vs) | .error e => .error e)
         | _ => .error .reject)
      | .array t' n =>
        (match j with
         | .arr xs =>
           if xs.length = n then
             (match mapM' (de x σ f t') xs with | .ok vs => .ok (.seq vs) | .error e => .error e)
           else .error .reject
         | _ => .error .reject)
      | .tuple ts =>
        (match j with
         | .arr xs => (match zipM (de x σ f) ts xs with | .ok vs => .ok (.seq vs) | .error e => .error e)
         | _ => .error .reject)
      | .map k v =>
        (match j with
         | .obj kvs =>
           (match mapM' (fun (kv : String × Json) =>
               match de x σ f k (.str kv.1), de x σ f v kv.2 with
               | .ok (.str _), .ok b => .ok (kv.1, b)
               | .ok (.variant _ _), .ok b => .ok (kv.1, b)
               | .ok _, .ok _ => .error .unsupported
               | .error e, _ => .error e
               | _, .error e => .error e) kvs with
            | .ok es => .ok (.map (es.foldl (fun acc e => insertKv e.1 e.2 acc) []))
            | .error e => .error e)
         | _ => .error .reject)
      | .newtype _ inner c _ =>
        (match de x σ f inner j with
         | .error e => .error e
         | .ok v =>
           match c with
           | .none => .ok v
           | .string mx mn pat =>
             (match v with
              | .str s => if checkString x mx mn pat s then .ok v else .error .reject
              | _ => .error .reject)
           | .enumValues vs =>
             (match mapM' (de x σ f inner) vs with
              | .error .reject => .error .unsupported
              | .error e => .error e
              | .ok cs => if cs.any (· == v) then .ok v else .error .reject)
           | .denyValues vs =>
             -- values that do not convert are dropped from the emitted list? no: `output_value` must
             -- succeed for each (else typify panics); model: they all convert
             (match mapM' (de x σ f inner) vs with
              | .error .reject => .error .unsupported
              | .error e => .error e
              | .ok cs => if cs.any (· == v) then .error .reject else .ok v))
      | .struct _ props deny _ => deStruct x σ f props deny j
      | .enum _ tag variants deny _ _ =>
        match tag with
        | .external =>
          (match j with
           | .str s =>
             (match variants.findIdx? (fun v => v.wire == s) with
              | none => .error .reject
              | some i =>
                match variants[i]? with
                | some ⟨_, _, .simple⟩ => .ok (.variant i .unit)
                | _ => .error .reject)
           | .obj ((k, body) :: rest) =>
             -- exactly one member; (the driver never delivers duplicate keys, so "every further
             -- member repeats the key" is "no further member")
             if !rest.all (fun kv => kv.1 == k) then .error .reject else
             (match variants.findIdx? (fun v => v.wire == k) with
              | none => .error .reject
              | some i =>
                match variants[i]? with
                | some v => (match deVariantBody x σ f v.details deny true body with
                  | .ok p => .ok (.variant i p) | .error e => .error e)
                | none => .error .reject)
           | _ => .error .reject)
        | .untagged =>
          firstOk (fun (v : Variant) i =>
            match deVariantBody x σ f v.details deny false j with
            | .ok p => .ok (.variant i p)
            | .error e => .error e) variants 0
        | .internal tagName =>
          (match j with
           | .obj kvs =>
             (match Json.lookup kvs tagName with
              | some (.str s) =>
                (match variants.findIdx? (fun v => v.wire == s) with
                 | none => .error .reject
                 | some i =>
                   match variants[i]? with
                   | some ⟨_, _, .simple⟩ => .ok (.variant i .unit)
                   | some ⟨_, _, .struct ps⟩ =>
                     (match deStruct x σ f ps deny (.obj (Json.erase kvs tagName)) with
                      | .ok p => .ok (.variant i p) | .error e => .error e)
                   | some ⟨_, _, .item t'⟩ =>
                     (match de x σ f t' (.obj (Json.erase kvs tagName)) with
                      | .ok p => .ok (.variant i p) | .error e => .error e)
                   | _ => .error .unsupported)
              | _ => .error .reject)
           | .arr _ => .error .unsupported      -- serde also accepts [tag, fields…]; not modelled
           | _ => .error .reject)
        | .adjacent tagName contentName =>
          (match j with
           | .obj kvs =>
             if deny && kvs.any (fun kv => kv.1 ≠ tagName && kv.1 ≠ contentName) then .error .reject else
             (match Json.lookup kvs tagName with
              | some (.str s) =>
                (match variants.findIdx? (fun v => v.wire == s) with
                 | none => .error .reject
                 | some i =>
                   match variants[i]?, Json.lookup kvs contentName with
                   | some ⟨_, _, .simple⟩, none => .ok (.variant i .unit)
                   | some ⟨_, _, .simple⟩, some .null => .ok (.variant i .unit)
                   | some ⟨_, _, .simple⟩, some _ => .error .reject
                   | some v, some body =>
                     -- adjacently tagged content is read by the untagged variant code: no sequence form
                     (match deVariantBody x σ f v.details deny false body with
                      | .ok p => .ok (.variant i p) | .error e => .error e)
                   | some ⟨_, _, .item t'⟩, none =>
                     if optionLikeT σ t' then .ok (.variant i .none) else .error .reject
                   | _, _ => .error .reject)
              | _ => .error .reject)
           | .arr _ => .error .unsupported      -- [tag, content] form; not modelled
           | _ => .error .reject)

/-- payload of a variant from the JSON that stands for it (untagged / external / adjacent content) -/
def deVariantBody (x : Ext) (σ : Space) : Nat → VDetails → Bool → Bool → Json → Except E Val
  | 0, _, _, _, _ => .error .fuel
  | f + 1, d, deny, seqOk, j =>
    match d with
    | .simple => (match j with | .null => .ok .unit | _ => .error .reject)
    | .item t => de x σ f t j
    | .tuple ts =>
      (match j with
       | .arr xs => (match zipM (de x σ f) ts xs with | .ok vs => .ok (.seq vs) | .error e => .error e)
       | _ => .error .reject)
    | .struct ps =>
      -- serde_derive gives the inline struct variant of an *untagged* enum no `visit_seq`
      (match seqOk, j with
       | false, .arr _ => .error .reject
       | _, _ => deStruct x σ f ps deny j)

/-- a struct (or struct variant) from a JSON object, or from an array in field order -/
def deStruct (x : Ext) (σ : Space) : Nat → List Field → Bool → Json → Except E Val
  | 0, _, _, _ => .error .fuel
  | f + 1, props, deny, j =>
    if hasFlatten props then
      (match j with
       | .obj kvs =>
         (match foldFields (fun (p : Field) =>
             match Json.lookup kvs p.wire with
             | some v => (match de x σ f p.ty v with | .ok a => .ok (p.name, a) | .error e => .error e)
             | none =>
               match p.state with
               | .required => if optionLikeT σ p.ty then .ok (p.name, Val.none) else .error .reject
               | .optional => (match dflt x σ f p.ty with | .ok a => .ok (p.name, a) | .error e => .error e)
               | .dflt d => (match de x σ f p.ty d with
                   | .ok a => .ok (p.name, a)
                   | .error .reject => .error .unsupported
                   | .error e => .error e))
             (fun (p : Field) c => deFlat x σ f p.ty c) props (bufferOf props kvs) with
          | (.error e, _) => .error e
          | (.ok fs, rest) => if deny && !rest.isEmpty then .error .reject else .ok (.struct fs))
       | _ => .error .reject)        -- no `visit_seq` is derived for a struct with a flattened member
    else
    match j with
    | .obj kvs =>
      if deny && kvs.any (fun kv => !(props.any (fun p => p.wire == kv.1))) then .error .reject else
      (match mapM' (fun (p : Field) =>
          match Json.lookup kvs p.wire with
          | some v => (match de x σ f p.ty v with | .ok a => .ok (p.name, a) | .error e => .error e)
          | none =>
            match p.state with
            | .required => if optionLikeT σ p.ty then .ok (p.name, Val.none) else .error .reject
            | .optional => (match dflt x σ f p.ty with | .ok a => .ok (p.name, a) | .error e => .error e)
            | .dflt d => (match de x σ f p.ty d with
                | .ok a => .ok (p.name, a)
                | .error .reject => .error .unsupported   -- typify rejects such schemas at add time (C06)
                | .error e => .error e)) props with
       | .ok fs => .ok (.struct fs)
       | .error e => .error e)
    | .arr xs =>
      if props.length < xs.length then .error .reject else
      (match mapM' (fun (pi : Field × Nat) =>
          match xs[pi.2]? with
          | some v => (match de x σ f pi.1.ty v with | .ok a => .ok (pi.1.name, a) | .error e => .error e)
          | none =>
            match pi.1.state with
            | .required => .error .reject
            | .optional => (match dflt x σ f pi.1.ty with | .ok a => .ok (pi.1.name, a) | .error e => .error e)
            | .dflt d => (match de x σ f pi.1.ty d with
                | .ok a => .ok (pi.1.name, a)
                | .error .reject => .error .unsupported
                | .error e => .error e)) (props.zip (List.range props.length)) with
       | .ok fs => .ok (.struct fs)
       | .error e => .error e)
    | _ => .error .reject

/-- a flattened member of type `t` read from the buffered entries: the value (or failure) and the entries left in the buffer -/
def deFlat (x : Ext) (σ : Space) : Nat → Id → List (String × Json) → Except E Val × List (String × Json)
  | 0, _, c => (.error .fuel, c)
  | f + 1, t, c =>
    match σ.get t with
    | none => (.error .unsupported, c)
    | some ent =>
      match ent.details with
      | .struct _ props deny _ =>
        if hasFlatten props then (deStruct x σ f props deny (.obj c), c)
        else (deStruct x σ f props false (.obj (c.filter (fun kv => props.any (fun p => p.wire == kv.1)))),
              c.filter (fun kv => !(props.any (fun p => p.wire == kv.1))))
      | .map k v =>
        -- the `.map` arm of `de`, at this fuel (so that `deFlat (f+1) t c = (de (f+1) t (.obj c), c)`: `deFlat_map_eq`)
        ((match mapM' (fun (kv : String × Json) =>
              match de x σ f k (.str kv.1), de x σ f v kv.2 with
              | .ok (.str _), .ok b => .ok (kv.1, b)
              | .ok (.variant _ _), .ok b => .ok (kv.1, b)
              | .ok _, .ok _ => .error .unsupported
              | .error e, _ => .error e
              | _, .error e => .error e) c with
          | .ok es => .ok (.map (es.foldl (fun acc e => insertKv e.1 e.2 acc) []))
          | .error e => .error e), c)
      | .option t' =>
        (match σ.get t' with
         | some ⟨.option _, _, _⟩ => (.error .unsupported, c)
         | _ =>
           match deFlat x σ f t' c with
           | (.ok v, c') => (.ok (.some v), c')
           | (.error .reject, c') => (.ok .none, c')
           | (.error e, c') => (.error e, c'))
      | .box t' => deFlat x σ f t' c
      | .newtype _ inner .none _ => deFlat x σ f inner c
      | .enum _ .untagged _ _ _ _ => (de x σ f t (.obj c), c)
      | .enum _ (.internal _) _ _ _ _ => (de x σ f t (.obj c), c)
      | .enum _ _ _ _ _ _ => (.error .unsupported, c)
      | .jsonValue | .native _ _ | .reference _ | .unit => (.error .unsupported, c)
      | _ => (.error .reject, c)          -- "can only flatten structs and maps"

/-- `Default::default()` for the type (what `#[serde(default)]` produces for a missing member) -/
def dflt (x : Ext) (σ : Space) : Nat → Id → Except E Val
  | 0, _ => .error .fuel
  | f + 1, t =>
    match σ.get t with
    | none => .error .unsupported
    | some ent =>
      match ent.details with
      | .option _ => .ok .none
      | .vec _ | .set _ => .ok (.seq [])
      | .map _ _ => .ok (.map [])
      | .unit => .ok .unit
      | .boolean => .ok (.bool false)
      | .integer name =>
        (match rtyOfName name with
         | some ty => if ty.isNonZero then .error .unsupported else .ok (.int 0)
         | none => .error .unsupported)
      | .float _ => .ok (.flt 0 0)
      | .string => .ok (.str "")
      | .jsonValue => .ok (.json .null)
      | .box t' => dflt x σ f t'
      | .tuple ts => (match mapM' (dflt x σ f) ts with | .ok vs => .ok (.seq vs) | .error e => .error e)
      | .array t' n =>
        (match dflt x σ f t' with | .ok v => .ok (.seq (List.replicate n v)) | .error e => .error e)
      | .struct _ _ _ (some d) => (match de x σ f t d with | .error .reject => .error .unsupported | r => r)
      | .struct _ props _ none =>
        (match mapM' (fun (p : Field) =>
            match p.state with
            | .required => .error .unsupported      -- no `Default` impl is emitted
            | .optional => (match dflt x σ f p.ty with | .ok a => .ok (p.name, a) | .error e => .error e)
            | .dflt d => (match de x σ f p.ty d with
                | .ok a => .ok (p.name, a)
                | .error .reject => .error .unsupported
                | .error e => .error e)) props with
         | .ok fs => .ok (.struct fs)
         | .error e => .error e)
      | .enum _ _ _ _ (some d) _ => (match de x σ f t d with | .error .reject => .error .unsupported | r => r)
      | .newtype _ _ _ (some d) => (match de x σ f t d with | .error .reject => .error .unsupported | r => r)
      | _ => .error .unsupported
end

/-- a flattened map reads the buffered entries exactly as the map type reads the object made of them -/
theorem deFlat_map_eq (x : Ext) (σ : Space) {t k v : Id} {ed : List String} {im : List Impl}
    (hget : σ.get t = some ⟨.map k v, ed, im⟩) (f : Nat) (c : List (String × Json)) :
    deFlat x σ (f + 1) t c = (de x σ (f + 1) t (.obj c), c) := by
  simp only [deFlat, de, hget]

end TypifyModel.Serde

/-! The vocabulary of translator table T11 (`Generated/DispatchArms.lean`): how an arm of `match schema { .. }` in
    `convert_schema_object` matches each field of `SchemaObject`. -/
namespace TypifyModel.Dispatch

/-- a field pattern: `None`; `Some(..)`; anything (`_`, a bare binding, a field left to `..`); for `instance_type` also
    `Some(SingleOrVec::Single(..))` and `Some(SingleOrVec::Vec(..))`; `other`: a pattern the translator does not classify -/
inductive FP where
  | isNone | isSome | any | single | vec | other
deriving DecidableEq, Repr

/-- one arm: the patterns of instance_type, format, enum_values, const_value, subschemas, number, string, array, object,
    reference; the guard as written; the `self.` methods (and `todo!` ..) its body mentions, in order -/
structure SrcArm where
  it : FP
  fmt : FP
  en : FP
  cn : FP
  sub : FP
  num : FP
  str : FP
  arr : FP
  obj : FP
  rf : FP
  guard : String
  calls : List String
deriving DecidableEq, Repr

/-- one arm of the nested `match subschemas.as_ref()`: all_of, any_of, one_of, not, if_schema, then_schema, else_schema -/
structure SubArm where
  pats : List FP
  calls : List String
deriving DecidableEq, Repr

end TypifyModel.Dispatch

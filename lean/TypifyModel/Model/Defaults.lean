import TypifyModel.Model.SerdeSer
/-! `validate_value` (typify-impl/src/defaults.rs), `has_default` (structs.rs) and `check_defaults`
    over the IR, as the code stands after the C06 `fix:` commits (KNOWN_FINDINGS.json, "fixed").
    Results: `ok kind` | `invalid` (= `Err(Error::InvalidValue)`) | `panic` (`unwrap()` on a missing
    id, `unreachable!()`) | `fuel`.

    Tie to the code: M0 correspondence `tvh_c06` (hook `TypeSpace::verif_validate_value`) vs `drv_c06`. -/
namespace TypifyModel.Defaults
open TypifyModel TypifyModel.Serde

/-- `DefaultImpl` (lib.rs): the shared generic default functions -/
inductive DImpl where
  | boolean | i64 | u64 | nzu64
deriving DecidableEq, Repr, Inhabited

/-- `DefaultKind` (type_entry.rs) -/
inductive DKind where
  | intrinsic
  | specific
  | generic (i : DImpl)
deriving DecidableEq, Repr, Inhabited

inductive VErr where
  | invalid | panic | fuel
deriving DecidableEq, Repr, Inhabited

abbrev VRes := Except VErr DKind

def u64Max : Int := 18446744073709551615
def i64Min : Int := -9223372036854775808
def i64Max : Int := 9223372036854775807

/-- `Value::as_u64` (serde_json keeps an integer literal in 0..=u64::MAX as `PosInt`) -/
def asU64 : Json → Option Int
  | .int n => if 0 ≤ n ∧ n ≤ u64Max then some n else none
  | _ => none

/-- `Value::as_i64` -/
def asI64 : Json → Option Int
  | .int n => if i64Min ≤ n ∧ n ≤ i64Max then some n else none
  | _ => none

def isNumber : Json → Bool
  | .int _ => true
  | .flt _ _ => true
  | _ => false

/-- `value.as_f64() == Some(0.0)` -/
def isZeroNumber : Json → Bool
  | .int n => n == 0
  | .flt m _ => m == 0
  | _ => false

def nonZeroPrefix : String := "::std::num::NonZero"

/-- `integer_fits` (defaults.rs): the value, if an integer, is one the named Rust type can hold.
    The code strips the NonZero prefix, lower-cases and matches eight names; the model looks the
    name up in the twelve names typify produces (`Serde.rtyOfName`); other names are unchecked in both. -/
def integerFits (itype : String) (d : Json) : Bool :=
  match rtyOfName itype with
  | none => true
  | some ty =>
    match asU64 d, asI64 d with
    | some v, _ => decide (ty.lo ≤ v ∧ v ≤ ty.hi)
    | none, some v => decide (ty.lo ≤ v ∧ v ≤ ty.hi)
    | none, none => true

def validateInteger (itype : String) (d : Json) : VRes :=
  if !integerFits itype d then .error .invalid else
  match asU64 d, asI64 d with
  | none, none => .error .invalid
  | some 0, _ => .ok .intrinsic
  | _, some 0 => .error .panic           -- `unreachable!()`
  | some _, _ => if itype.startsWith nonZeroPrefix then .ok (.generic .nzu64) else .ok (.generic .u64)
  | _, some _ => .ok (.generic .i64)

/-! ### list helpers (the recursive call is an argument) -/

/-- `for value in v { validate(value)?; }` -/
def validateAll (V : Json → VRes) : List Json → Except VErr Unit
  | [] => .ok ()
  | j :: r =>
    match V j with
    | .error e => .error e
    | .ok _ => validateAll V r

/-- the Set arm: an element equal to a later one is an error, checked before the element itself -/
def validateSet (V : Json → VRes) : List Json → Except VErr Unit
  | [] => .ok ()
  | j :: r =>
    if r.any (· == j) then .error .invalid else
    match V j with
    | .error e => .error e
    | .ok _ => validateSet V r

def validateZip (V : Id → Json → VRes) : List Id → List Json → Except VErr Unit
  | [], [] => .ok ()
  | t :: ts, j :: js =>
    match V t j with
    | .error e => .error e
    | .ok _ => validateZip V ts js
  | _, _ => .error .invalid

/-- `validate_default_tuple` -/
def validateTuple (V : Id → Json → VRes) (ts : List Id) (d : Json) : VRes :=
  match d with
  | .arr xs =>
    if xs.length ≠ ts.length then .error .invalid else
    match validateZip V ts xs with
    | .ok _ => .ok .specific
    | .error e => .error e
  | _ => .error .invalid

def validateMapEntries (V : Id → Json → VRes) (k v : Id) : List (String × Json) → Except VErr Unit
  | [] => .ok ()
  | (key, val) :: r =>
    match V k (.str key) with
    | .error e => .error e
    | .ok _ =>
      match V v val with
      | .error e => .error e
      | .ok _ => validateMapEntries V k v r

def isRequired (p : Field) : Bool :=
  match p.state with
  | .required => true
  | _ => false

def isOptionalState (p : Field) : Bool :=
  match p.state with
  | .optional => true
  | _ => false

/-- one entry of `all_props`: name (none for a flattened map's value type), type, required -/
abbrev PropInfo := Option String × Id × Bool

def flatMapE {α β : Type} (f : α → Except VErr (List β)) : List α → Except VErr (List β)
  | [] => .ok []
  | a :: r =>
    match f a with
    | .error e => .error e
    | .ok bs =>
      match flatMapE f r with
      | .error e => .error e
      | .ok cs => .ok (bs ++ cs)

/-- `all_props` (defaults.rs): a property, or the properties of a flattened struct / option of a
    struct, or the value type of a flattened map -/
def allProps (σ : Space) : Nat → Field → Except VErr (List PropInfo)
  | 0, _ => .error .fuel
  | f + 1, p =>
    match p.rename with
    | .none => .ok [(some p.name, p.ty, isRequired p)]
    | .rename s => .ok [(some s, p.ty, isRequired p)]
    | .flatten =>
      match σ.get p.ty with
      | none => .error .panic
      | some ent =>
        match ent.details with
        | .struct _ props _ _ =>
          let allReq := !isOptionalState p
          (match flatMapE (allProps σ f) props with
           | .error e => .error e
           | .ok l => .ok (l.map fun (n, t, r) => (n, t, r && allReq)))
        | .option t' =>
          (match σ.get t' with
           | some ⟨.struct _ props _ _, _, _⟩ =>
             (match flatMapE (allProps σ f) props with
              | .error e => .error e
              | .ok l => .ok (l.map fun (n, t, _) => (n, t, false)))
           | _ => .error .panic)
        | .map _ v => .ok [(none, v, false)]
        | _ => .error .panic

/-- `BTreeMap::get` after `collect`: the last entry with that name wins -/
def lookupNamed : List PropInfo → String → Option (Id × Bool)
  | [], _ => none
  | i :: r, name =>
    match lookupNamed r name with
    | some x => some x
    | none => if i.1 == some name then some i.2 else none

/-- `unnamed.iter().any(|t| validate(t, v).is_ok())` (a panic inside propagates) -/
def anyValid (V : Id → Json → VRes) (v : Json) : List Id → Except VErr Bool
  | [] => .ok false
  | t :: r =>
    match V t v with
    | .ok _ => .ok true
    | .error .invalid => anyValid V v r
    | .error e => .error e

def validateMembers (V : Id → Json → VRes) (infos : List PropInfo) : List (String × Json) → Except VErr Unit
  | [] => .ok ()
  | (name, v) :: r =>
    match lookupNamed infos name with
    | some (t, _) =>
      (match V t v with
       | .error e => .error e
       | .ok _ => validateMembers V infos r)
    | none =>
      match anyValid V v (infos.filterMap fun i => if i.1.isNone then some i.2.1 else none) with
      | .error e => .error e
      | .ok false => .error .invalid
      | .ok true => validateMembers V infos r

/-- `validate_default_struct_props` -/
def validateStruct (σ : Space) (f : Nat) (V : Id → Json → VRes) (props : List Field) (d : Json) : VRes :=
  match d with
  | .obj kvs =>
    (match flatMapE (allProps σ f) props with
     | .error e => .error e
     | .ok infos =>
       match validateMembers V infos kvs with
       | .error e => .error e
       | .ok _ =>
         if infos.all (fun i => match i with
             | (some n, _, true) => (Json.lookup kvs n).isSome
             | _ => true)
         then .ok .specific else .error .invalid)
  | _ => .error .invalid

def isSimple : VDetails → Bool
  | .simple => true
  | _ => false

def findVariant (vs : List Variant) (raw : String) : Option Variant :=
  vs.find? (fun v => v.rawName == raw)

/-- the payload of a variant against the JSON standing for it (external / adjacent content / untagged) -/
def validateBody (σ : Space) (f : Nat) (V : Id → Json → VRes) (d : VDetails) (j : Json) : VRes :=
  match d with
  | .simple => .error .invalid
  | .item t => V t j
  | .tuple ts => validateTuple V ts j
  | .struct ps => validateStruct σ f V ps j

/-- `validate_default_for_external_enum` -/
def validateExternal (σ : Space) (f : Nat) (V : Id → Json → VRes) (vs : List Variant) (d : Json) : VRes :=
  match d with
  | .str s =>
    (match findVariant vs s with
     | none => .error .invalid
     | some v => if isSimple v.details then .ok .specific else .error .invalid)
  | .obj [(name, value)] =>
    (match findVariant vs name with
     | none => .error .invalid
     | some v => validateBody σ f V v.details value)
  | _ => .error .invalid

def asStr : Json → Option String
  | .str s => some s
  | _ => none

/-- `validate_default_for_internal_enum` -/
def validateInternal (σ : Space) (f : Nat) (V : Id → Json → VRes) (vs : List Variant) (tag : String) (d : Json) : VRes :=
  match d with
  | .obj kvs =>
    (match (Json.lookup kvs tag).bind asStr with
     | none => .error .invalid
     | some name =>
       match findVariant vs name with
       | none => .error .invalid
       | some v =>
         match v.details with
         | .simple => .ok .specific
         | .struct ps => validateStruct σ f V ps (.obj (Json.erase kvs tag))
         | _ => .error .panic)            -- `unreachable!()`
  | _ => .error .invalid

/-- the `(map.len(), tag, content)` match shared by validate / value for adjacently tagged enums -/
def adjacentParts (kvs : List (String × Json)) (tag content : String) : Option (String × Option Json) :=
  match kvs.length, (Json.lookup kvs tag).bind asStr, Json.lookup kvs content with
  | 1, some t, none => some (t, none)
  | 2, some t, some c => some (t, some c)
  | _, _, _ => none

/-- `validate_default_for_adjacent_enum` (with the `Item` arm) -/
def validateAdjacent (σ : Space) (f : Nat) (V : Id → Json → VRes) (vs : List Variant) (tag content : String) (d : Json) : VRes :=
  match d with
  | .obj kvs =>
    (match adjacentParts kvs tag content with
     | none => .error .invalid
     | some (t, c) =>
       match findVariant vs t with
       | none => .error .invalid
       | some v =>
         match v.details, c with
         | .simple, none => .ok .specific
         | .simple, some _ => .error .invalid
         | _, none => .error .invalid
         | d', some cv => validateBody σ f V d' cv)
  | _ => .error .invalid

/-- one variant of an untagged enum against the value -/
def validateUntaggedVariant (σ : Space) (f : Nat) (V : Id → Json → VRes) (d : VDetails) (j : Json) : VRes :=
  match d with
  | .simple => (match j with | .null => .ok .specific | _ => .error .invalid)
  | d' => validateBody σ f V d' j

/-- `validate_default_for_untagged_enum`: the first variant the value is valid for -/
def validateUntagged (σ : Space) (f : Nat) (V : Id → Json → VRes) : List Variant → Json → VRes
  | [], _ => .error .invalid
  | v :: r, j =>
    match validateUntaggedVariant σ f V v.details j with
    | .ok k => .ok k
    | .error .invalid => validateUntagged σ f V r j
    | .error e => .error e

/-- the constraint check of the Newtype arm -/
def constraintOk (x : Ext) (c : Constraints) (d : Json) : Bool :=
  match c with
  | .none => true
  | .enumValues vs => vs.any (· == d)
  | .denyValues vs => !vs.any (· == d)
  | .string mx mn pat =>
    match d with
    | .str s => checkString x mx mn pat s
    | _ => false

/-- `TypeEntry::validate_value` of the entry with id `t`. (The code looks the element type of a
    Vec / Set / Map / Array up once before the loop; the model lets the first element's validation
    find the dangling id. Dumps never contain dangling ids.) -/
def validateValue (x : Ext) (σ : Space) : Nat → Id → Json → VRes
  | 0, _, _ => .error .fuel
  | f + 1, t, d =>
    match σ.get t with
    | none => .error .panic
    | some ent =>
      let V := validateValue x σ f
      match ent.details with
      | .enum _ tag vs _ _ _ =>
        (match tag with
         | .external => validateExternal σ f V vs d
         | .internal tg => validateInternal σ f V vs tg d
         | .adjacent tg ct => validateAdjacent σ f V vs tg ct d
         | .untagged => validateUntagged σ f V vs d)
      | .struct _ props _ _ => validateStruct σ f V props d
      | .newtype _ inner c _ =>
        (match V inner d with
         | .error e => .error e
         | .ok k => if constraintOk x c d then .ok k else .error .invalid)
      | .option t' =>
        (match d with
         | .null => .ok .intrinsic
         | _ => match V t' d with
           | .error e => .error e
           | .ok _ => .ok .specific)
      | .box t' => V t' d
      | .vec t' =>
        (match d with
         | .arr [] => .ok .intrinsic
         | .arr xs =>
           (match validateAll (V t') xs with
            | .ok _ => .ok .specific
            | .error e => .error e)
         | _ => .error .invalid)
      | .map k v =>
        (match d with
         | .obj [] => .ok .intrinsic
         | .obj kvs =>
           (match validateMapEntries V k v kvs with
            | .ok _ => .ok .specific
            | .error e => .error e)
         | _ => .error .invalid)
      | .set t' =>
        (match d with
         | .arr [] => .ok .intrinsic
         | .arr xs =>
           (match validateSet (V t') xs with
            | .ok _ => .ok .specific
            | .error e => .error e)
         | _ => .error .invalid)
      | .tuple ts => validateTuple V ts d
      | .array t' n =>
        (match d with
         | .arr xs =>
           if xs.length ≠ n then .error .invalid else
           (match validateAll (V t') xs with
            | .ok _ => .ok .specific
            | .error e => .error e)
         | _ => .error .invalid)
      | .unit => (match d with | .null => .ok .intrinsic | _ => .error .invalid)
      | .native _ _ => .ok .specific
      | .jsonValue => .ok .specific
      | .boolean =>
        (match d with
         | .bool false => .ok .intrinsic
         | .bool true => .ok (.generic .boolean)
         | _ => .error .invalid)
      | .integer itype => validateInteger itype d
      | .float _ =>
        if isNumber d then (if isZeroNumber d then .ok .intrinsic else .ok (.generic .i64))
        else .error .invalid
      | .string =>
        (match d with
         | .str s => if s = "" then .ok .intrinsic else .ok .specific
         | _ => .error .invalid)
      | .reference _ => .error .panic

/-! ### `has_default` / `struct_property` (structs.rs) -/

/-- `has_default`: the state of a non-required property of type `t` (`none` = id not yet resolved)
    whose schema carries the default `d` -/
def hasDefault (σ : Space) (t : Id) (d : Option Json) : PropState :=
  let det : Option Details := (σ.get t).map (fun e => e.details)
  match det, d with
  | some (Details.option _), none => .optional
  | some (Details.vec _), none => .optional
  | some (Details.map _ _), none => .optional
  | some Details.unit, none => .optional
  | _, none => .required
  | some (Details.option _), some Json.null => .optional
  | some Details.unit, some Json.null => .optional
  | some (Details.vec _), some (Json.arr []) => .optional
  | some (Details.map _ _), some (Json.obj []) => .optional
  | some Details.boolean, some (Json.bool false) => .optional
  | some (Details.integer _), some (Json.int 0) => .optional
  | some (Details.integer _), some (Json.flt 0 _) => .optional
  | some Details.string, some (Json.str "") => .optional
  | _, some dv => .dflt dv

/-- `struct_property` for a non-required member: (state, wrapped in `Option`?) -/
def propState (σ : Space) (t : Id) (d : Option Json) : PropState × Bool :=
  match hasDefault σ t d with
  | .required => (.optional, true)
  | s => (s, false)

/-! ### `check_defaults` -/

def genericOf : DKind → List DImpl
  | .generic i => [i]
  | _ => []

def checkProps (x : Ext) (σ : Space) (f : Nat) : List Field → Except VErr (List DImpl)
  | [] => .ok []
  | p :: r =>
    match p.state with
    | .dflt d =>
      (match validateValue x σ f p.ty d with
       | .error e => .error e
       | .ok k => match checkProps x σ f r with
         | .error e => .error e
         | .ok l => .ok (genericOf k ++ l))
    | _ => checkProps x σ f r

def checkVariants (x : Ext) (σ : Space) (f : Nat) : List Variant → Except VErr (List DImpl)
  | [] => .ok []
  | v :: r =>
    match (match v.details with | .struct ps => checkProps x σ f ps | _ => .ok []) with
    | .error e => .error e
    | .ok l => match checkVariants x σ f r with
      | .error e => .error e
      | .ok l' => .ok (l ++ l')

/-- `TypeEntry::check_defaults` of entry `t`: the generic default functions it adds to
    `TypeSpace.defaults`, or the error `finalize` (hence the `add_*` call) returns -/
def checkDefaults (x : Ext) (σ : Space) (f : Nat) (t : Id) : Except VErr (List DImpl) :=
  match σ.get t with
  | none => .error .panic
  | some ent =>
    let whole : Except VErr (List DImpl) :=
      match ent.details with
      | .enum _ _ _ _ (some d) _ | .struct _ _ _ (some d) | .newtype _ _ _ (some d) =>
        (match validateValue x σ f t d with
         | .error e => .error e
         | .ok k => .ok (genericOf k))
      | _ => .ok []
    match whole with
    | .error e => .error e
    | .ok l =>
      match (match ent.details with
             | .struct _ props _ _ => checkProps x σ f props
             | .enum _ _ vs _ _ _ => checkVariants x σ f vs
             | _ => .ok []) with
      | .error e => .error e
      | .ok l' => .ok (l ++ l')

end TypifyModel.Defaults

import TypifyModel.Model.RoundTrip
/-! The structural comparison of C03: `prune` (drop object members whose value is null / [] / {}, bottom-up)
    and `contained` (objects by member, arrays element-wise, numbers numerically), over `Json`; and
    `declared`: the document is a wire-shaped document for the type that contains only declared members
    (objects for structs, only the struct's wire names as keys, no repeated key). -/
namespace TypifyModel.Contain
open TypifyModel TypifyModel.Serde

def emptyJ : Json → Bool
  | .null => true
  | .arr [] => true
  | .obj [] => true
  | _ => false

mutual
def prune : Json → Json
  | .arr xs => .arr (pruneList xs)
  | .obj kvs => .obj (pruneObj kvs)
  | j => j
def pruneList : List Json → List Json
  | [] => []
  | x :: r => prune x :: pruneList r
def pruneObj : List (String × Json) → List (String × Json)
  | [] => []
  | (k, v) :: r => if emptyJ (prune v) then pruneObj r else (k, prune v) :: pruneObj r
end

/-- numbers numerically: `int n` = `flt m e` iff n·10^e = m (`flt m e` is m × 10^(-e)) -/
def scalarEq : Json → Json → Bool
  | .null, .null => true
  | .bool a, .bool b => a == b
  | .str a, .str b => a == b
  | .int a, .int b => a == b
  | .int a, .flt m e => a * (10 : Int) ^ e == m
  | .flt m e, .int a => a * (10 : Int) ^ e == m
  | .flt m e, .flt m' e' => m * (10 : Int) ^ e' == m' * (10 : Int) ^ e
  | _, _ => false

mutual
def contained : Json → Json → Bool
  | .obj a, .obj b => containedObj a b
  | .arr a, .arr b => containedList a b
  | .obj _, _ => false
  | .arr _, _ => false
  | a, b => scalarEq a b
def containedList : List Json → List Json → Bool
  | [], [] => true
  | x :: xs, y :: ys => contained x y && containedList xs ys
  | _, _ => false
def containedObj : List (String × Json) → List (String × Json) → Bool
  | [], _ => true
  | (k, v) :: r, b =>
    (match Json.lookup b k with
     | some y => contained v y
     | none => false) && containedObj r b
end

def nodupKeys (kvs : List (String × Json)) : Bool := RoundTrip.nodupB (kvs.map (·.1))

-- every object inside the document has pairwise distinct keys (what a JSON parser into a map delivers)
mutual
def wfJ : Json → Bool
  | .arr xs => wfList xs
  | .obj kvs => nodupKeys kvs && wfObj kvs
  | _ => true
def wfList : List Json → Bool
  | [] => true
  | x :: r => wfJ x && wfList r
def wfObj : List (String × Json) → Bool
  | [] => true
  | (_, v) :: r => wfJ v && wfObj r
end

def zipAll (D : Id → Json → Bool) : List Id → List Json → Bool
  | t :: ts, j :: js => D t j && zipAll D ts js
  | _, _ => true

def variantAt (vs : List Variant) (s : String) : Option Variant :=
  match vs.findIdx? (fun v => v.wire == s) with
  | none => none
  | some i => vs[i]?

-- `declared σ f t j`: j is wire-shaped for type t and contains only declared members. Where `de`
-- rejects the document anyway the answer is irrelevant (`true`). Untagged enums are outside.
-- Conjuncts (each is used by `C03.rt_contains`, Proofs/C03Contain.lean):
-- * `serde_json::Value`: every object inside the document has pairwise distinct keys (`wfJ`) — the
--   document is handed back as is, and `contained` looks members up by key.
-- * Option / Box / newtype: transparent (null is fine at an Option).
-- * Vec / set / array / tuple: every element is declared at its element type.
-- * map: no repeated key (a repeated key is overwritten in the map), every value declared.
-- * struct (`declaredStruct`): an object (not the positional array form serde also reads), no repeated
--   key, every key is the wire name of a property and its value is declared at the property's type.
--   An undeclared member is read and dropped when `deny_unknown_fields` is absent.
-- * externally tagged enum: the string form, or an object with exactly one member `{"V": body}` whose
--   body is declared for the variant — and V is *not* a data-less variant: serde reads `{"V": null}`
--   as the unit variant V but writes `"V"`; `prune {"V": null}` = `{}` is not contained in a string
--   (`{"V": null}` is not schema-valid for the generated type's schema either).
-- * internally tagged enum: no repeated key; the members other than the tag are the declared members
--   of the struct variant (none for a data-less variant).
-- * adjacently tagged enum: no repeated key, no member other than tag and content; the content is
--   declared for the variant.
-- * variant bodies (`declaredBody`): newtype variant → the type; tuple variant → element-wise;
--   struct variant → `declaredStruct`; data-less → nothing to ask.
mutual
def declared (σ : Space) : Nat → Id → Json → Bool
  | 0, _, _ => false
  | f + 1, t, j =>
    match σ.get t with
    | none => false
    | some ent =>
      match ent.details with
      | .jsonValue => wfJ j
      | .option t' => (match j with | .null => true | _ => declared σ f t' j)
      | .box t' => declared σ f t' j
      | .vec t' | .set t' | .array t' _ =>
        (match j with | .arr xs => xs.all (declared σ f t') | _ => true)
      | .tuple ts => (match j with | .arr xs => zipAll (declared σ f) ts xs | _ => true)
      | .map _ vt =>
        (match j with
         | .obj kvs => nodupKeys kvs && kvs.all (fun kv => declared σ f vt kv.2)
         | _ => true)
      | .newtype _ inner _ _ => declared σ f inner j
      | .struct _ props _ _ => declaredStruct σ f props j
      | .enum _ tag variants _ _ _ =>
        (match tag with
         | .external =>
           (match j with
            | .obj [(k, body)] =>
              (match variantAt variants k with
               | some ⟨_, _, .simple⟩ => false
               | some v => declaredBody σ f v.details body
               | none => true)
            | .obj _ => false
            | _ => true)
         | .untagged => false
         | .internal tg =>
           (match j with
            | .obj kvs =>
              nodupKeys kvs &&
              (match Json.lookup kvs tg with
               | some (.str s) =>
                 (match variantAt variants s with
                  | some ⟨_, _, .struct ps⟩ => declaredStruct σ f ps (.obj (Json.erase kvs tg))
                  | some ⟨_, _, .item t'⟩ => declared σ f t' (.obj (Json.erase kvs tg))
                  | some ⟨_, _, .simple⟩ => (Json.erase kvs tg).isEmpty
                  | _ => true)
               | _ => true)
            | _ => true)
         | .adjacent tg ct =>
           (match j with
            | .obj kvs =>
              nodupKeys kvs && kvs.all (fun kv => kv.1 == tg || kv.1 == ct) &&
              (match Json.lookup kvs tg, Json.lookup kvs ct with
               | some (.str s), some body =>
                 (match variantAt variants s with
                  | some v => declaredBody σ f v.details body
                  | none => true)
               | _, _ => true)
            | _ => true))
      | _ => true

def declaredBody (σ : Space) : Nat → VDetails → Json → Bool
  | 0, _, _ => false
  | f + 1, d, j =>
    match d with
    | .simple => true
    | .item t => declared σ f t j
    | .tuple ts => (match j with | .arr xs => zipAll (declared σ f) ts xs | _ => true)
    | .struct ps => declaredStruct σ f ps j

def declaredStruct (σ : Space) : Nat → List Field → Json → Bool
  | 0, _, _ => false
  | f + 1, ps, j =>
    match j with
    | .obj kvs =>
      if hasFlatten ps then
        -- with flattened members: a member read by name is declared by that member's type; the members left over are
        -- declared, as one object, by every flattened member's type (for a flattened map: each by the value type)
        nodupKeys kvs &&
        kvs.all (fun kv => match ps.find? (fun p => p.rename != .flatten && p.wire == kv.1) with
          | some p => declared σ f p.ty kv.2
          | none => true) &&
        ps.all (fun p => p.rename != .flatten || declared σ f p.ty (.obj (bufferOf ps kvs)))
      else
      nodupKeys kvs &&
      kvs.all (fun kv => match ps.find? (fun p => p.wire == kv.1) with
        | some p => declared σ f p.ty kv.2
        | none => false)
    | _ => false
end

end TypifyModel.Contain

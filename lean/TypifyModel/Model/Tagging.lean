import TypifyModel.Model.Exclusive
/-! `convert.rs` `convert_one_of` / `convert_any_of` and `enums.rs` `maybe_option`, `maybe_externally_tagged_enum`,
    `maybe_adjacently_tagged_enum`, `maybe_internally_tagged_enum`, `maybe_singleton_subschema`, `untagged_enum`: which Rust
    shape a union of subschemas gets — `Option<T>`, an enum under one of serde's four tagging modes (with which tag, which
    content member, which variant names, which payloads, `deny_unknown_fields` or not) — as a function of the raw JSON of the
    branch list. `util.rs` `get_object`, `singleton_subschema` and `constant_string_value` (the latter is `Excl.constStr`) are
    modelled with schemars' grouping of keywords as in `Model/Exclusive.lean`.

    What is NOT in this model: the conversion of the payload schemas (`external_variant` → `convert_schema`,
    `internal_variant` → `struct_members`). Where the source abandons a tagging mode because a payload fails to convert
    (`.ok()?`), the model has no answer; the correspondence only uses payloads that convert. Answers: `Shape.panic` exactly
    where the source reaches `unreachable!()`, `todo!()` or a failing `assert!`. -/
namespace TypifyModel.Tagging
open TypifyModel TypifyModel.Excl

/-- the source's three outcomes of a detection step: a panic, `None` (try the next mode), `Some(..)` -/
inductive R (α : Type) where
  | panic | no | yes (a : α)
deriving Repr

/-- `required` as schemars reads it: a `BTreeSet<String>` (duplicates collapse) -/
def reqOf (kvs : Kvs) : Option (List String) := (strList (Json.lookup kvs "required")).map List.eraseDups

def addlNoneOrFalse (kvs : Kvs) : Bool :=
  match Json.lookup kvs "additionalProperties" with
  | none => true
  | some (.bool false) => true
  | _ => false

def subKeys : List String := ["allOf", "anyOf", "oneOf", "not", "if", "then", "else"]

/-- `singleton_subschema`: exactly one of `allOf` / `anyOf` / `oneOf`, nothing else of the group, with exactly one element -/
def singletonSub (kvs : Kvs) : Option Json :=
  let only := fun (k : String) => has kvs k && subKeys.all (fun k' => k' == k || !has kvs k')
  let one := fun (k : String) => match Json.lookup kvs k with | some (.arr [s]) => some s | _ => none
  if only "allOf" then one "allOf"
  else if only "anyOf" then one "anyOf"
  else if only "oneOf" then one "oneOf"
  else none

/-- the guards `get_object` puts on the `ObjectValidation` it returns -/
def objShape (kvs : Kvs) : Bool :=
  objP kvs && addlNoneOrFalse kvs && !has kvs "maxProperties" && !has kvs "minProperties" &&
  !nonEmptyObj kvs "patternProperties" && !has kvs "propertyNames"

/-- `get_object`: the key/values that hold the `ObjectValidation` of a plain object schema, looking through annotation-only
    one-element `allOf` / `anyOf` / `oneOf` wrappers -/
def getObject : Nat → Json → Option Kvs
  | 0, _ => none
  | f + 1, .obj kvs =>
    if has kvs "format" || has kvs "enum" || has kvs "const" || has kvs "$ref" then none else
    if !subP kvs then
      match tyOf kvs with
      | .single .object => if objShape kvs then some kvs else none
      | .none => if !numP kvs && !strP kvs && !arrP kvs && objShape kvs then some kvs else none
      | _ => none
    else if !numP kvs && !strP kvs && !arrP kvs && !objP kvs then
      (singletonSub kvs).bind (getObject f)
    else none
  | _ + 1, _ => none

/-- what a variant carries: nothing, the value of a schema, or the members of an object schema (internally tagged) -/
inductive Payload where
  | unit
  | schema (s : Json)
  | fields (props : Kvs) (req : List String)
deriving Repr

structure Var where
  name : String
  payload : Payload
deriving Repr

/-- sequencing of per-branch results the way `.map(..).collect::<Option<Vec<_>>>()` runs: in order, the first `None` ends
    the iteration (a panic behind it is not reached) -/
def seqR {α β : Type} (g : α → R (List β)) : List α → R (List β)
  | [] => .yes []
  | a :: r =>
    match g a with
    | .panic => .panic
    | .no => .no
    | .yes xs =>
      match seqR g r with
      | .panic => .panic
      | .no => .no
      | .yes ys => .yes (xs ++ ys)

def strTyOrNone (kvs : Kvs) : Bool :=
  match tyOf kvs with
  | .single .string => true
  | .none => true
  | _ => false

/-- one subschema of `maybe_externally_tagged_enum`: its proto-variants -/
def extBranch (f : Nat) (j : Json) : R (List Var) :=
  match j with
  | .bool _ => .panic                 -- `unreachable!()` / `todo!()`
  | .obj kvs =>
    let base := !has kvs "format" && !subP kvs && !has kvs "$ref"
    match base, Json.lookup kvs "enum", Json.lookup kvs "const" with
    | true, some (.arr vs), none =>
      if !strTyOrNone kvs then .no else
      (match vs.mapM (fun v => match v with | .str s => some s | _ => none) with
       | some names => .yes (names.map (fun n => ⟨n, .unit⟩))
       | none => .no)
    | true, none, some c =>
      if !strTyOrNone kvs then .no else
      (match c with
       | .str s => .yes [⟨s, .unit⟩]
       | _ => .no)
    | _, _, _ =>
      match getObject f j with
      | some o =>
        (match reqOf o, propsOf o with
         | some [r], some [(p, s)] => if r == p then .yes [⟨p, .schema s⟩] else .panic   -- `assert!(required.contains(prop_name))`
         | _, _ => .no)
      | none => .no
  | _ => .no

def names (vs : List Var) : List String := vs.map (·.name)

/-- `maybe_externally_tagged_enum` (payload conversion assumed to succeed) -/
def external (f : Nat) (ss : List Json) : R (List Var) :=
  match seqR (extBranch f) ss with
  | .yes vs => if (names vs).eraseDups.length == vs.length then .yes vs else .no
  | r => r

def isNullTy (j : Json) : Bool :=
  match j with
  | .obj kvs => (match tyOf kvs with | .single .null => true | _ => false)
  | _ => false

/-- `maybe_option`: two or more subschemas exactly one of which is not `{type: null, ..}` -/
def maybeOption (ss : List Json) : Option Json :=
  if ss.length == 1 then none else
  match ss.filter (fun s => !isNullTy s) with
  | [x] => some x
  | _ => none

/-! ### adjacently tagged -/

/-- per subschema: (names of the members pinned to one string, names of all members); `None` unless a plain object that requires
    exactly the members it declares (same number, every required name declared) -/
def adjBranch (f : Nat) (j : Json) : Option (List String × List String) :=
  match getObject f j with
  | some o =>
    (match reqOf o, propsOf o with
     | some rq, some ps =>
       if ps.length == rq.length && rq.all (fun r => has ps r) then
         some (ps.filterMap (fun (kv : String × Json) => (constStr kv.2).map (fun _ => kv.1)), ps.map (·.1))
       else none
     | _, _ => none)
  | none => none

def inter (a b : List String) : List String := a.filter (fun x => b.contains x)
def union (a b : List String) : List String := a ++ b.filter (fun x => !a.contains x)

/-- least element under the order of `BTreeSet<String>` -/
def least : List String → Option String
  | [] => none
  | a :: r => match least r with
    | none => some a
    | some b => if b < a then some b else some a

/-- the fold of `maybe_adjacently_tagged_enum`: intersection of the pinned members, union of all members -/
def adjReduce : List (List String × List String) → Option (List String × List String)
  | [] => none
  | p :: r => some (r.foldl (fun acc q => (inter acc.1 q.1, union acc.2 q.2)) p)

/-- tag and content member of `maybe_adjacently_tagged_enum` -/
def adjTagContent (f : Nat) (ss : List Json) : Option (String × String) :=
  match ss.mapM (adjBranch f) with
  | none => none
  | some sets =>
    match adjReduce sets with
    | none => none
    | some (tags, props) =>
      if tags.eraseDups.length != 1 || props.eraseDups.length != 2 then none else
      match least tags, least (props.filter (fun p => !tags.contains p)) with
      | some t, some c => some (t, c)
      | _, _ => none

/-- `adjacent_variant` -/
def adjVariant (f : Nat) (tag content : String) (j : Json) : R (List Var) :=
  match getObject f j with
  | none => .panic
  | some o =>
    match propsOf o with
    | none => .panic
    | some ps =>
      match (Json.lookup ps tag).bind constStr with
      | none => .panic
      | some vname =>
        if ps.length == 1 then .yes [⟨vname, .unit⟩]
        else match Json.lookup ps content with
          | some cs => .yes [⟨vname, .schema cs⟩]
          | none => .panic

def adjacent (f : Nat) (ss : List Json) : R (String × String × List Var) :=
  match adjTagContent f ss with
  | none => .no
  | some (t, c) =>
    match seqR (adjVariant f t c) ss with
    | .yes vs =>
      -- two subschemas with the same tag value: nothing checks for it, `TypeEntryEnum::from_metadata` panics on the duplicate
      if (names vs).eraseDups.length == vs.length then .yes (t, c, vs) else .panic
    | .no => .no
    | .panic => .panic

/-! ### internally tagged -/

/-- per subschema: the required members pinned to one string, with the value; empty for what is not a plain object -/
def intBranch (f : Nat) (j : Json) : List (String × String) :=
  match getObject f j with
  | some o =>
    (match reqOf o, propsOf o with
     | some rq, some ps =>
       ps.filterMap (fun (kv : String × Json) => if rq.contains kv.1 then (constStr kv.2).map (fun v => (kv.1, v)) else none)
     | _, _ => [])
  | none => []

def lookupS (kvs : List (String × String)) (k : String) : Option String :=
  match kvs with
  | [] => none
  | (k', v) :: r => if k' == k then some v else lookupS r k

/-- one step of the `reduce`: keep the members the next subschema pins too, to a value not seen so far -/
def intStep (acc : List (String × List String)) (b : List (String × String)) : List (String × List String) :=
  acc.filterMap (fun (kv : String × List String) =>
    match lookupS b kv.1 with
    | some v => if kv.2.contains v then none else some (kv.1, kv.2 ++ [v])
    | none => none)

def intReduce : List (List (String × String)) → Option (List (String × List String))
  | [] => none
  | b :: r => some (r.foldl intStep (b.map (fun kv => (kv.1, [kv.2]))))

/-- the tag `maybe_internally_tagged_enum` chooses: the least common pinned required member whose values are pairwise distinct -/
def intTag (f : Nat) (ss : List Json) : Option String :=
  match intReduce (ss.map (intBranch f)) with
  | none => none
  | some acc => least (acc.map (·.1))

/-- `internal_variant`, and the `deny_unknown_fields` contribution of the subschema -/
def intVariant (f : Nat) (tag : String) (j : Json) : R (List (Var × Bool)) :=
  match getObject f j with
  | none => .panic                       -- `unreachable!()`
  | some o =>
    match reqOf o, propsOf o with
    | some rq, some ps =>
      let deny := match Json.lookup o "additionalProperties" with | some (.bool false) => true | _ => false
      (match (Json.lookup ps tag).bind constStr with
       | none => .panic
       | some vname =>
         if ps.length == 1 then
           (if rq.length == 1 then .yes [(⟨vname, .unit⟩, deny)] else .panic)      -- `assert_eq!(validation.required.len(), 1)`
         else .yes [(⟨vname, .fields (ps.filter (fun kv => kv.1 != tag)) (rq.filter (fun r => r != tag))⟩, deny)])
    | _, _ => .panic

def internal (f : Nat) (ss : List Json) : R (String × Bool × List Var) :=
  match intTag f ss with
  | none => .no
  | some t =>
    match seqR (intVariant f t) ss with
    | .yes vs => .yes (t, vs.any (·.2), vs.map (·.1))
    | .no => .no
    | .panic => .panic

/-! ### `convert_one_of` / `convert_any_of` -/

inductive Shape where
  | option (inner : Json)
  | external (vs : List Var)
  | adjacent (tag content : String) (vs : List Var)
  | internal (tag : String) (deny : Bool) (vs : List Var)
  | singleton (s : Json)
  | untagged (n : Nat)
  | flattened (n : Nat)
  | panic
  | unknown          -- outside the model (`all_mutually_exclusive` has no answer)
deriving Repr

/-- `convert_one_of`: the order is option, external, adjacent, internal, singleton, untagged -/
def oneOf (f : Nat) (ss : List Json) : Shape :=
  match maybeOption ss with
  | some x => .option x
  | none =>
    match external f ss with
    | .panic => .panic
    | .yes vs => .external vs
    | .no =>
      match adjacent f ss with
      | .panic => .panic
      | .yes (t, c, vs) => .adjacent t c vs
      | .no =>
        match internal f ss with
        | .panic => .panic
        | .yes (t, d, vs) => .internal t d vs
        | .no =>
          match ss with
          | [s] => .singleton s
          | _ => .untagged ss.length

/-- `convert_any_of`: an option, else like a `oneOf` when `all_mutually_exclusive`, else the struct of flattened optional subtypes -/
def anyOf (f : Nat) (defs : Kvs) (ss : List Json) : Shape :=
  match maybeOption ss with
  | some x => .option x
  | none =>
    match ss with
    | [] => .panic                          -- `(0..len - 1)` underflows
    | _ =>
      match exclAll f defs ss with
      | some true => oneOf f ss
      | some false => .flattened ss.length
      | none => .unknown

end TypifyModel.Tagging

import TypifyModel.Model.SerdeSer
/-! The hand-written string-conversion impls typify emits (type_entry.rs:801-945, 1353-1603):
    `FromStr`, `TryFrom<&str | &String | String>`, `Display`. Separate definitions from `de`/`se`
    so that their agreement (property C11) is a theorem, not a definition. -/
namespace TypifyModel.Serde
open TypifyModel

/-- `write!(f, lit)` with no arguments: the text printed, or `none` when the literal is not a valid
    format string without arguments (it then fails to compile). `{{` prints `{`, `}}` prints `}`. -/
def fmtLiteral : List Char → Option (List Char)
  | [] => some []
  | c :: t =>
    if c = '{' ∨ c = '}' then
      match t with
      | d :: r => if d = c then (fmtLiteral r).map (c :: ·) else none
      | [] => none
    else (fmtLiteral t).map (c :: ·)

/-- the literal typify puts into `write!` for a variant's raw name (braces doubled) -/
def escapeBraces : List Char → List Char
  | [] => []
  | c :: r => if c = '{' ∨ c = '}' then c :: c :: escapeBraces r else c :: escapeBraces r

def isAllSimple (vs : List Variant) : Bool :=
  vs.all (fun v => match v.details with | .simple => true | _ => false)

/-- `str::parse::<T>()` / `FromStr::from_str` for types that have the impl -/
def fromStr (x : Ext) (σ : Space) : Nat → Id → String → Except E Val
  | 0, _, _ => .error .fuel
  | f + 1, t, s =>
    match σ.get t with
    | none => .error .unsupported
    | some ent =>
      match ent.details with
      | .string => .ok (.str s)
      | .newtype _ inner .none _ =>
        (match σ.get inner with
         | some ⟨.string, _, _⟩ => .ok (.str s)
         | _ => fromStr x σ f inner s)
      | .newtype _ _ (.string mx mn pat) _ =>
        if checkString x mx mn pat s then .ok (.str s) else .error .reject
      | .enum _ tag variants _ _ bespoke =>
        if bespoke.contains .allSimpleVariants then
          (match variants.findIdx? (fun v => v.rawName == s) with
           | some i => .ok (.variant i .unit)
           | none => .error .reject)
        else if bespoke.contains .untaggedFromStr then
          firstOk (fun (v : Variant) i =>
            match v.details with
            | .item t' => (match fromStr x σ f t' s with | .ok p => .ok (.variant i p) | .error e => .error e)
            | _ => .error .unsupported) variants 0
        else .error .unsupported
      | _ => .error .unsupported

/-- `TryFrom<&str>`, `TryFrom<&String>`, `TryFrom<String>`: each template body is `value.parse()` -/
def tryFromStr (x : Ext) (σ : Space) (fuel : Nat) (t : Id) (s : String) : Except E Val :=
  fromStr x σ fuel t s

/-- `Display::fmt` (to_string) for types that have the impl -/
def display (σ : Space) : Nat → Id → Val → Except E String
  | 0, _, _ => .error .fuel
  | f + 1, t, v =>
    match σ.get t with
    | none => .error .unsupported
    | some ent =>
      match ent.details with
      | .string => (match v with | .str s => .ok s | _ => .error .reject)
      | .newtype _ inner .none _ => display σ f inner v
      | .enum _ _ variants _ _ bespoke =>
        (match v with
         | .variant i p =>
           (match variants[i]? with
            | none => .error .reject
            | some vr =>
              if bespoke.contains .allSimpleVariants then
                (match fmtLiteral (escapeBraces vr.rawName.toList) with
                 | some cs => .ok (String.ofList cs)
                 | none => .error .unsupported)
              else if bespoke.contains .untaggedDisplay then
                (match vr.details with
                 | .item t' => display σ f t' p
                 | _ => .error .unsupported)
              else .error .unsupported)
         | _ => .error .reject)
      | _ => .error .unsupported

end TypifyModel.Serde

import TypifyModel.Model.Wf
/-! Panic sites on the `to_stream()` path (translator table T9, `Generated.panicSites`) and why each
    cannot fire on a well-formed IR. A site that is not listed here fails `C01.panic_sites_covered`. -/
namespace TypifyModel.Wf

/-- fingerprint ↦ the reason it cannot fire when `WF` holds -/
def panicTable : List (String × Excl) := [
  ("all_props|type_space . id_to_entry . get (& property . type_id) . unwrap()", .idsResolve),   -- the id is an entry of the space
  ("all_props|type_space . id_to_entry . get (type_id) . unwrap()", .idsResolve),   -- the id is an entry of the space
  ("all_props|unreachable!()", .idsResolve),   -- member / variant shapes that conversion never produces (`Reference`, non-struct flatten targets)
  ("default_fn|format_ident!(\"{}\" , fn_name)", .identsOk),   -- `format_ident!` panics on a string that is not an identifier
  ("default_fn|panic!(\"{}\\nvalue: {}\\ntype: {:#?}\" , \"The default value could not )", .defaultsTyped),   -- a member default that `validate_value` accepted renders
  ("default_fn|panic!()", .defaultsTyped),   -- an integer default is a u64 or an i64 (checked when the schema is added)
  ("default_fn|unreachable!()", .unitHasIntrinsic),   -- a unit-typed member only has the intrinsic default (`has_default`)
  ("validate_default_for_internal_enum|unreachable!()", .idsResolve),   -- member / variant shapes that conversion never produces (`Reference`, non-struct flatten targets)
  ("validate_default_struct_props|name . unwrap()", .defaultsTyped),   -- a non-flattened member has a name
  ("validate_type_id|type_space . id_to_entry . get (type_id) . unwrap()", .idsResolve),   -- the id is an entry of the space
  ("validate_value|type_space . id_to_entry . get (key_id) . unwrap()", .idsResolve),   -- the id is an entry of the space
  ("validate_value|type_space . id_to_entry . get (type_id) . unwrap()", .idsResolve),   -- the id is an entry of the space
  ("validate_value|type_space . id_to_entry . get (value_id) . unwrap()", .idsResolve),   -- the id is an entry of the space
  ("validate_value|unreachable!()", .idsResolve),   -- the `Reference` arm (and, in validate_value / output_value, an arithmetically impossible arm)
  ("output_variant|format_ident!(\"{}\" , ident_name)", .identsOk),   -- `format_ident!` panics on a string that is not an identifier
  ("output_variant|format_ident!(\"{}\" , prop . name)", .identsOk),   -- `format_ident!` panics on a string that is not an identifier
  ("output_variant|type_space . id_to_entry . get (& prop . type_id) . unwrap()", .idsResolve),   -- the id is an entry of the space
  ("output_variant|type_space . id_to_entry . get (type_id) . unwrap()", .idsResolve),   -- the id is an entry of the space
  ("output_variant|variant . ident_name . as_ref () . unwrap()", .identsOk),   -- `ident_name` is assigned to every variant when the enum is built (from_metadata / finalize)
  ("new|syn :: parse_str :: < syn :: Type > (s) . expect(\"valid ident\")", .ingestOnly),   -- `MapType::new`: settings construction, not rendering (reached by name only)
  ("generate_serde_attr|type_space . id_to_entry . get (key_id) . expect(\"unresolved key type id for map\")", .idsResolve),   -- the id is an entry of the space
  ("generate_serde_attr|type_space . id_to_entry . get (value_id) . expect(\"unresolved value type id for map\")", .idsResolve),   -- the id is an entry of the space
  ("has_impl|type_space . id_to_entry . get (& details . type_id) . unwrap()", .idsResolve),   -- the id is an entry of the space
  ("has_impl|type_space . id_to_entry . get (item_id) . unwrap()", .idsResolve),   -- the id is an entry of the space
  ("has_impl|type_space . id_to_entry . get (type_id) . unwrap()", .idsResolve),   -- the id is an entry of the space
  ("has_impl|unreachable!()", .idsResolve),   -- the `Reference` arm (and, in validate_value / output_value, an arithmetically impossible arm)
  ("make_doc|serde_json :: to_string_pretty (schema) . unwrap()", .infallible),   -- a `Schema` always serialises
  ("output|unreachable!()", .idsResolve),   -- the `Reference` arm (and, in validate_value / output_value, an arithmetically impossible arm)
  ("output_enum|assert!(variants . iter () . filter (| variant | matches ! (variant )", .serdeLegal),   -- typify's own structural assertion
  ("output_enum|format_ident!(\"{}\" , ident_name)", .identsOk),   -- `format_ident!` panics on a string that is not an identifier
  ("output_enum|format_ident!(\"{}\" , name)", .identsOk),   -- `format_ident!` panics on a string that is not an identifier
  ("output_enum|format_ident!(\"{}\" , variant . ident_name . as_ref () . unwrap ())", .identsOk),   -- `format_ident!` panics on a string that is not an identifier
  ("output_enum|self . output_value (type_space , & value . 0 , & quote ! { }) . unwrap()", .defaultsTyped),   -- the item's own default renders (`validate_value` accepted it)
  ("output_enum|type_space . id_to_entry . get (type_id) . unwrap()", .idsResolve),   -- the id is an entry of the space
  ("output_enum|variant . ident_name . as_ref () . unwrap()", .identsOk),   -- `ident_name` is assigned to every variant when the enum is built (from_metadata / finalize)
  ("output_newtype|assert!(matches ! (constraints , TypeEntryNewtypeConstraints :: Deny)", .serdeLegal),   -- typify's own structural assertion
  ("output_newtype|format_ident!(\"{}\" , name)", .identsOk),   -- `format_ident!` panics on a string that is not an identifier
  ("output_newtype|self . output_value (type_space , & value . 0 , & quote ! { }) . unwrap()", .defaultsTyped),   -- the item's own default renders (`validate_value` accepted it)
  ("output_newtype|type_space . id_to_entry . get (type_id) . unwrap()", .idsResolve),   -- the id is an entry of the space
  ("output_struct|format_ident!(\"{}\" , name)", .identsOk),   -- `format_ident!` panics on a string that is not an identifier
  ("output_struct|format_ident!(\"{}\" , prop . name)", .identsOk),   -- `format_ident!` panics on a string that is not an identifier
  ("output_struct|self . output_value (type_space , & value . 0 , & quote ! { }) . unwrap()", .defaultsTyped),   -- the item's own default renders (`validate_value` accepted it)
  ("output_struct|syn :: parse_str :: < Path > (& fn_name) . unwrap()", .idsResolve),   -- `defaults::<fn>` built from a sanitized name or a number type path
  ("output_struct|type_space . id_to_entry . get (& prop . type_id) . unwrap()", .idsResolve),   -- the id is an entry of the space
  ("strings_to_derives|syn :: parse_str :: < syn :: Path > (derive) . unwrap()", .derivesArePaths),   -- derive names are paths
  ("type_ident|format_ident!(\"{}\" , name)", .identsOk),   -- `format_ident!` panics on a string that is not an identifier
  ("type_ident|format_ident!(\"{}\" , type_mod)", .identsOk),   -- `format_ident!` panics on a string that is not an identifier
  ("type_ident|panic!(\"references should be resolved by now\")", .idsResolve),   -- no `Reference` entry is left
  ("type_ident|syn :: parse_str :: < syn :: TypePath > (name) . unwrap()", .idsResolve),   -- number / native type names are type paths
  ("type_ident|syn :: parse_str :: < syn :: TypePath > (type_name) . expect(\"type path wasn't valid\")", .idsResolve),   -- number / native type names are type paths
  ("type_ident|type_space . id_to_entry . get (id) . expect(\"unresolved type id for array\")", .idsResolve),   -- the id is an entry of the space
  ("type_ident|type_space . id_to_entry . get (id) . expect(\"unresolved type id for box\")", .idsResolve),   -- the id is an entry of the space
  ("type_ident|type_space . id_to_entry . get (id) . expect(\"unresolved type id for option\")", .idsResolve),   -- the id is an entry of the space
  ("type_ident|type_space . id_to_entry . get (id) . expect(\"unresolved type id for set\")", .idsResolve),   -- the id is an entry of the space
  ("type_ident|type_space . id_to_entry . get (item) . expect(\"unresolved type id for tuple\")", .idsResolve),   -- the id is an entry of the space
  ("type_ident|type_space . id_to_entry . get (item_id) . expect(\"unresolved type id for array\")", .idsResolve),   -- the id is an entry of the space
  ("type_ident|type_space . id_to_entry . get (key_id) . expect(\"unresolved type id for map key\")", .idsResolve),   -- the id is an entry of the space
  ("type_ident|type_space . id_to_entry . get (type_id) . expect(\"unresolved type id for tuple\")", .idsResolve),   -- the id is an entry of the space
  ("type_ident|type_space . id_to_entry . get (value_id) . expect(\"unresolved type id for map value\")", .idsResolve),   -- the id is an entry of the space
  ("output_value|format_ident!(\"{}\" , name)", .identsOk),   -- `format_ident!` panics on a string that is not an identifier
  ("output_value|proc_macro2 :: Literal :: from_str (value . to_string () . as_str ()) . unwrap()", .infallible),   -- the text of a JSON number is a Rust literal
  ("output_value|syn :: parse_str :: < syn :: TypePath > (type_name) . unwrap()", .idsResolve),   -- number / native type names are type paths
  ("output_value|type_space . id_to_entry . get (key_id) . unwrap()", .idsResolve),   -- the id is an entry of the space
  ("output_value|type_space . id_to_entry . get (type_id) . unwrap()", .idsResolve),   -- the id is an entry of the space
  ("output_value|type_space . id_to_entry . get (value_id) . unwrap()", .idsResolve),   -- the id is an entry of the space
  ("output_value|unreachable!()", .idsResolve),   -- the `Reference` arm (and, in validate_value / output_value, an arithmetically impossible arm)
  ("value_for_adjacent_enum|format_ident!(\"{}\" , & variant . ident_name . as_ref () . unwrap ())", .identsOk),   -- `format_ident!` panics on a string that is not an identifier
  ("value_for_adjacent_enum|format_ident!(\"{}\" , type_name)", .identsOk),   -- `format_ident!` panics on a string that is not an identifier
  ("value_for_external_enum|format_ident!(\"{}\" , & variant . ident_name . as_ref () . unwrap ())", .identsOk),   -- `format_ident!` panics on a string that is not an identifier
  ("value_for_external_enum|format_ident!(\"{}\" , type_name)", .identsOk),   -- `format_ident!` panics on a string that is not an identifier
  ("value_for_internal_enum|format_ident!(\"{}\" , & variant . ident_name . as_ref () . unwrap ())", .identsOk),   -- `format_ident!` panics on a string that is not an identifier
  ("value_for_internal_enum|format_ident!(\"{}\" , type_name)", .identsOk),   -- `format_ident!` panics on a string that is not an identifier
  ("value_for_internal_enum|unreachable!()", .defaultsTyped),   -- shape already established by `validate_value`
  ("value_for_item|type_space . id_to_entry . get (type_id) . unwrap()", .idsResolve),   -- the id is an entry of the space
  ("value_for_struct_props|format_ident!(\"{}\" , & prop . name)", .identsOk),   -- `format_ident!` panics on a string that is not an identifier
  ("value_for_struct_props|type_space . id_to_entry . get (& prop . type_id) . unwrap()", .idsResolve),   -- the id is an entry of the space
  ("value_for_struct_props|unreachable!()", .defaultsTyped),   -- shape already established by `validate_value`
  ("value_for_tuple|type_space . id_to_entry . get (type_id) . unwrap()", .idsResolve),   -- the id is an entry of the space
  ("value_for_untagged_enum|format_ident!(\"{}\" , & variant . ident_name . as_ref () . unwrap ())", .identsOk),   -- `format_ident!` panics on a string that is not an identifier
  ("value_for_untagged_enum|format_ident!(\"{}\" , type_name)", .identsOk)    -- `format_ident!` panics on a string that is not an identifier
]

def coveredSites : List String := panicTable.map (·.1)

end TypifyModel.Wf

import TypifyModel.Model.SerdeSer
/-! The builder interface typify emits with `struct_builder` (type_entry.rs:1236-1327) as a state
    machine: `builder::T` holds one `Result<PropType, String>` per property. -/
namespace TypifyModel.Builder
open TypifyModel TypifyModel.Serde

/-- one builder slot -/
abbrev Slot := Except String Val

/-- `impl Default for builder::T`: `Err("no value supplied for p")` for a property without default,
    `Ok(Default::default())` / `Ok(super::defaults::f())` otherwise -/
def initSlot (x : Ext) (σ : Space) (fuel : Nat) (p : Field) : Except E Slot :=
  match p.state with
  | .required => .ok (.error ("no value supplied for " ++ p.name))
  | .optional => (match dflt x σ fuel p.ty with | .ok v => .ok (.ok v) | .error e => .error e)
  | .dflt d =>
    (match de x σ fuel p.ty d with
     | .ok v => .ok (.ok v)
     | .error .reject => .error .unsupported
     | .error e => .error e)

/-- what a setter is handed: the outcome of `value.try_into()` into the property type -/
inductive Arg where
  | value (v : Val)
  | convFail (msg : String)
deriving Repr

/-- `pub fn p<T: TryInto<PropType>>(mut self, value: T) -> Self` -/
def setSlot (name : String) (a : Arg) : Slot :=
  match a with
  | .value v => .ok v
  | .convFail msg => .error ("error converting supplied value for " ++ name ++ ": " ++ msg)

/-- one slot after `T::builder()` (= `Default::default()`) and the setters the caller chose:
    `choice p = none` means the setter of `p` was not called (last call wins otherwise).
    `Default::default()` evaluates the default expression of EVERY property before any setter runs:
    a default function that fails (`from_str(..).unwrap()` on a default the property type does not
    deserialize) fails the whole builder even when the caller then sets that property. -/
def slotOf (x : Ext) (σ : Space) (fuel : Nat) (choice : Field → Option Arg) (p : Field) : Except E Slot :=
  match initSlot x σ fuel p with
  | .error e => .error e
  | .ok s =>
    match choice p with
    | some a => .ok (setSlot p.name a)
    | none => .ok s

/-- builder state after starting from `Default` and applying the setters the caller chose -/
def slots (x : Ext) (σ : Space) (fuel : Nat) (choice : Field → Option Arg) :
    List Field → Except E (List (String × Slot))
  | [] => .ok []
  | p :: ps =>
    match slotOf x σ fuel choice p, slots x σ fuel choice ps with
    | .ok s, .ok r => .ok ((p.name, s) :: r)
    | .error e, _ => .error e
    | _, .error e => .error e

/-- `impl TryFrom<builder::T> for T`: `Ok(Self { p: value.p?, … })` — the first failing slot in
    declaration order is the error -/
def build : List (String × Slot) → Except String (List (String × Val))
  | [] => .ok []
  | (n, s) :: r =>
    match s with
    | .error msg => .error msg
    | .ok v => match build r with
      | .ok fs => .ok ((n, v) :: fs)
      | .error m => .error m

/-- `impl From<T> for builder::T` -/
def unbuild (fs : List (String × Val)) : List (String × Slot) := fs.map (fun (n, v) => (n, .ok v))

end TypifyModel.Builder

import TypifyModel.Model.Defaults
/-! `output_value` (typify-impl/src/value.rs): the Rust EXPRESSION typify writes for a JSON default
    at a type, as an AST (`RExpr`); `default_fn` (defaults.rs); a typing judgement for such
    expressions against the rendered types (`hasType`); and what they evaluate to in the `Serde.Val`
    domain (`eval`). Models the code after the C06 `fix:` commits.

    `eval` burns fuel exactly as `Serde.de` does (one unit per type-id dereference, one more for a
    variant body and for a struct body), so that `eval … m e τ = de … m τ d` can be stated for every `m`.

    Tie to the code: `outputValue`/`defaultFn` by M0 (`tvh_c06` hooks vs `drv_c06`); `hasType` by rustc
    and `eval` by the compiled default functions (M3, ops `de` / `build` / `default`). -/
namespace TypifyModel.Defaults
open TypifyModel TypifyModel.Serde

/-- a JSON number as written into a literal -/
inductive Num where
  | int (n : Int)
  | flt (m : Int) (e : Nat)
deriving Repr, Inhabited, DecidableEq

/-- the expressions `output_value` emits -/
inductive RExpr where
  | structLit (name : String) (fields : List (String × Option RExpr)) -- `Name { a: e, b: Default::default(), .. }`
  | variantUnit (ty var : String)                                   -- `T::V`
  | variantTuple (ty var : String) (args : List RExpr)              -- `T::V(a, ..)` (`T::V()` for no args)
  | variantStruct (ty var : String) (fields : List (String × Option RExpr))  -- (`none` = `Default::default()`)
  | newtype (name : String) (inner : Option RExpr)                  -- `Name(e)`; `Name()` when the inner value failed
  | some (e : RExpr)
  | none
  | boxNew (e : RExpr)
  | vecMacro (es : List RExpr)                                      -- `vec![..]`
  | array (es : List RExpr)                                         -- `[..]`
  | paren (es : List RExpr) (trailingComma : Bool)                  -- `(a, b)`; `(a,)`; `(a)` is just `a`
  | mapCollect (kvs : List (RExpr × RExpr))                         -- `[(k, v), ..].into_iter().collect()`
  | unit
  | bool (b : Bool)
  | numLit (n : Num) (suffix : String)                              -- `5_u8`, `-1.5_f64`
  | nonZeroNew (ty : String) (n : Num)                              -- `::std::num::NonZeroU8::new(5).unwrap()`
  | str (s : String)                                                -- `"s".to_string()`
  | fromStr (ty : String) (j : Json)                                -- `::serde_json::from_str::<T>("text").unwrap()`
deriving Inhabited

inductive Res (α : Type) where
  | ok (a : α)
  | none                 -- `None`
  | panic
  | fuel
deriving Inhabited

abbrev Out := Res RExpr

def numOf : Json → Option Num
  | .int n => some (.int n)
  | .flt m e => some (.flt m e)
  | _ => Option.none

/-! ### list helpers -/

/-- `.map(f).collect::<Option<Vec<_>>>()` -/
def outList (O : Json → Out) : List Json → Res (List RExpr)
  | [] => .ok []
  | j :: r =>
    match O j with
    | .ok e => (match outList O r with | .ok es => .ok (e :: es) | .none => .none | .panic => .panic | .fuel => .fuel)
    | .none => .none
    | .panic => .panic
    | .fuel => .fuel

def outZip (O : Id → Json → Out) : List Id → List Json → Res (List RExpr)
  | [], [] => .ok []
  | t :: ts, j :: js =>
    (match O t j with
     | .ok e => (match outZip O ts js with | .ok es => .ok (e :: es) | .none => .none | .panic => .panic | .fuel => .fuel)
     | .none => .none
     | .panic => .panic
     | .fuel => .fuel)
  | _, _ => .none

/-- `value_for_tuple` -/
def valueForTuple (O : Id → Json → Out) (ts : List Id) (d : Json) : Res (List RExpr) :=
  match d with
  | .arr xs => if xs.length ≠ ts.length then .none else outZip O ts xs
  | _ => .none

def outMapEntries (O : Id → Json → Out) (k v : Id) : List (String × Json) → Res (List (RExpr × RExpr))
  | [] => .ok []
  | (key, val) :: r =>
    match O k (.str key) with
    | .ok a =>
      (match O v val with
       | .ok b => (match outMapEntries O k v r with | .ok es => .ok ((a, b) :: es) | .none => .none | .panic => .panic | .fuel => .fuel)
       | .none => .none | .panic => .panic | .fuel => .fuel)
    | .none => .none | .panic => .panic | .fuel => .fuel

/-- tuple expression: one element needs the trailing comma -/
def tupleExpr (es : List RExpr) : RExpr := .paren es (es.length == 1)

/-- tuple variant: for one element `output_variant` declares `V((T,))` -/
def variantTupleExpr (ty var : String) (es : List RExpr) : RExpr :=
  if es.length == 1 then .variantTuple ty var [tupleExpr es] else .variantTuple ty var es

/-- the members written for the non-flattened properties (`direct_props`): a member whose value
    cannot be rendered is left out (`filter_map` swallows the `?`); an absent member is written
    `Default::default()` — also when the member has a default of its own (finding C06-nested-default) -/
def outDirect (O : Id → Json → Out) (kvs : List (String × Json)) : List Field → Res (List (String × Option RExpr))
  | [] => .ok []
  | p :: r =>
    if p.rename == .flatten then outDirect O kvs r else
    let this : Res (Option (String × Option RExpr)) :=
      match Json.lookup kvs p.wire with
      | Option.some v =>
        (match O p.ty v with
         | .ok e => .ok (Option.some (p.name, Option.some e)) | .none => .ok Option.none | .panic => .panic | .fuel => .fuel)
      | Option.none => .ok (Option.some (p.name, Option.none))
    match this with
    | .ok m =>
      (match outDirect O kvs r with
       | .ok fs => .ok (match m with | Option.some x => x :: fs | Option.none => fs)
       | .none => .none | .panic => .panic | .fuel => .fuel)
    | .none => .none | .panic => .panic | .fuel => .fuel

/-- `flat_props`: every flattened member gets the object of the keys no direct property claims -/
def outFlat (σ : Space) (O : Id → Json → Out) (extra : Json) : List Field → Res (List (String × Option RExpr))
  | [] => .ok []
  | p :: r =>
    if p.rename != .flatten then outFlat σ O extra r else
    match σ.get p.ty with
    | Option.none => .panic
    | Option.some ent =>
      let shapeOk := match ent.details with
        | .struct .. => true | .option _ => true | .map _ _ => true | _ => false
      if !shapeOk then .panic else
      match O p.ty extra with
      | .panic => .panic
      | .fuel => .fuel
      | r0 =>
        match outFlat σ O extra r with
        | .ok fs => .ok (match r0 with | .ok e => (p.name, Option.some e) :: fs | _ => fs)
        | .none => .none | .panic => .panic | .fuel => .fuel

/-- `value_for_struct_props` -/
def valueForStructProps (σ : Space) (O : Id → Json → Out) (props : List Field) (d : Json) : Res (List (String × Option RExpr)) :=
  match d with
  | .obj kvs =>
    (match outDirect O kvs props with
     | .ok ds =>
       let claimed := (props.filter (fun p => p.rename != .flatten)).map (·.wire)
       let extra := Json.obj (kvs.filter (fun kv => !claimed.contains kv.1))
       (match outFlat σ O extra props with
        | .ok fs => .ok (ds ++ fs)
        | .none => .none | .panic => .panic | .fuel => .fuel)
     | .none => .none | .panic => .panic | .fuel => .fuel)
  | _ => .none

/-- the payload part shared by external / adjacent / untagged variants -/
def valueForBody (σ : Space) (O : Id → Json → Out) (name : String) (v : Variant) (strictItem : Bool) (j : Json) : Out :=
  match v.details with
  | .simple => .none
  | .item t =>
    (match O t j with
     | .ok e => .ok (.variantTuple name v.identName [e])
     | .none => if strictItem then .none else .ok (.variantTuple name v.identName [])   -- `value_for_item` without `?`
     | .panic => .panic | .fuel => .fuel)
  | .tuple ts =>
    (match valueForTuple O ts j with
     | .ok es => .ok (variantTupleExpr name v.identName es)
     | .none => .none | .panic => .panic | .fuel => .fuel)
  | .struct ps =>
    (match valueForStructProps σ O ps j with
     | .ok fs => .ok (.variantStruct name v.identName fs)
     | .none => .none | .panic => .panic | .fuel => .fuel)

/-- `value_for_external_enum` -/
def valueForExternal (σ : Space) (O : Id → Json → Out) (name : String) (vs : List Variant) (d : Json) : Out :=
  match d with
  | .str s =>
    (match findVariant vs s with
     | Option.none => .none
     | Option.some v => if isSimple v.details then .ok (.variantUnit name v.identName) else .none)
  | .obj [(k, body)] =>
    (match findVariant vs k with
     | Option.none => .none
     | Option.some v => valueForBody σ O name v false body)
  | _ => .none

/-- `value_for_internal_enum` -/
def valueForInternal (σ : Space) (O : Id → Json → Out) (name : String) (vs : List Variant) (tag : String) (d : Json) : Out :=
  match d with
  | .obj kvs =>
    (match (Json.lookup kvs tag).bind asStr with
     | Option.none => .none
     | Option.some s =>
       match findVariant vs s with
       | Option.none => .none
       | Option.some v =>
         match v.details with
         | .simple => .ok (.variantUnit name v.identName)
         | .struct ps =>
           (match valueForStructProps σ O ps (.obj (Json.erase kvs tag)) with
            | .ok fs => .ok (.variantStruct name v.identName fs)
            | .none => .none | .panic => .panic | .fuel => .fuel)
         | _ => .panic)
  | _ => .none

/-- `value_for_adjacent_enum` (with the `Item` arm) -/
def valueForAdjacent (σ : Space) (O : Id → Json → Out) (name : String) (vs : List Variant) (tag content : String) (d : Json) : Out :=
  match d with
  | .obj kvs =>
    (match adjacentParts kvs tag content with
     | Option.none => .none
     | Option.some (t, c) =>
       match findVariant vs t with
       | Option.none => .none
       | Option.some v =>
         match v.details, c with
         | .simple, Option.none => .ok (.variantUnit name v.identName)
         | .simple, Option.some _ => .none
         | _, Option.none => .none
         | _, Option.some cv => valueForBody σ O name v true cv)
  | _ => .none

/-- `value_for_untagged_enum`: the first variant the value validates for (and renders for) -/
def valueForUntagged (σ : Space) (f : Nat) (V : Id → Json → VRes) (O : Id → Json → Out) (name : String) :
    List Variant → Json → Out
  | [], _ => .none
  | v :: r, j =>
    match validateUntaggedVariant σ f V v.details j with
    | .error .invalid => valueForUntagged σ f V O name r j
    | .error .panic => .panic
    | .error .fuel => .fuel
    | .ok _ =>
      let here : Out := match v.details with
        | .simple => (match j with | .null => .ok (.variantUnit name v.identName) | _ => .none)
        | _ => valueForBody σ O name v true j
      match here with
      | .none => valueForUntagged σ f V O name r j
      | o => o

/-- `TypeEntry::output_value` of entry `t` -/
def outputValue (x : Ext) (σ : Space) : Nat → Id → Json → Out
  | 0, _, _ => .fuel
  | f + 1, t, d =>
    match σ.get t with
    | Option.none => .panic
    | Option.some ent =>
      let O := outputValue x σ f
      match ent.details with
      | .enum name tag vs _ _ _ =>
        (match tag with
         | .external => valueForExternal σ O name vs d
         | .internal tg => valueForInternal σ O name vs tg d
         | .adjacent tg ct => valueForAdjacent σ O name vs tg ct d
         | .untagged => valueForUntagged σ f (validateValue x σ f) O name vs d)
      | .struct name props _ _ =>
        (match valueForStructProps σ O props d with
         | .ok fs => .ok (.structLit name fs)
         | .none => .none | .panic => .panic | .fuel => .fuel)
      | .newtype name inner _ _ =>
        (match O inner d with
         | .ok e => .ok (.newtype name (Option.some e))
         | .none => .ok (.newtype name Option.none)        -- `#inner` interpolates an `Option`
         | .panic => .panic | .fuel => .fuel)
      | .option t' =>
        (match d with
         | .null => .ok .none
         | _ => match O t' d with
           | .ok e => .ok (.some e)
           | .none => .none | .panic => .panic | .fuel => .fuel)
      | .box t' =>
        (match O t' d with
         | .ok e => .ok (.boxNew e)
         | .none => .none | .panic => .panic | .fuel => .fuel)
      | .set t' | .vec t' =>
        (match d with
         | .arr xs =>
           (match outList (O t') xs with
            | .ok es => .ok (.vecMacro es)
            | .none => .none | .panic => .panic | .fuel => .fuel)
         | _ => .none)
      | .map k v =>
        (match d with
         | .obj kvs =>
           (match outMapEntries O k v kvs with
            | .ok es => .ok (.mapCollect es)
            | .none => .none | .panic => .panic | .fuel => .fuel)
         | _ => .none)
      | .tuple ts =>
        (match valueForTuple O ts d with
         | .ok es => .ok (tupleExpr es)
         | .none => .none | .panic => .panic | .fuel => .fuel)
      | .array t' _ =>
        (match d with
         | .arr xs =>
           (match outList (O t') xs with
            | .ok es => .ok (.array es)
            | .none => .none | .panic => .panic | .fuel => .fuel)
         | _ => .none)
      | .unit => (match d with | .null => .ok .unit | _ => .none)
      | .native tyName _ => .ok (.fromStr tyName d)
      | .jsonValue => .ok (.fromStr "::serde_json::Value" d)
      | .boolean => (match d with | .bool b => .ok (.bool b) | _ => .none)
      | .integer tyName | .float tyName =>
        (match numOf d with
         | Option.none => .none
         | Option.some n =>
           if tyName.startsWith nonZeroPrefix then .ok (.nonZeroNew tyName n) else .ok (.numLit n tyName))
      | .string => (match d with | .str s => .ok (.str s) | _ => .none)
      | .reference _ => .panic

/-! ### `default_fn` (defaults.rs): which function `#[serde(default = "…")]` names -/

inductive FnOut where
  | boolTrue                                   -- `defaults::default_bool::<true>`
  | u64 (ty : String) (n : Int)                -- `defaults::default_u64::<T, N>`
  | nzu64 (ty : String) (n : Int)              -- `defaults::default_nzu64::<T, N>`
  | i64 (ty : String) (n : Int)                -- `defaults::default_i64::<T, N>`
  | custom (body : RExpr)                      -- `defaults::<type>_<prop>` with this body
  | panic
  | fuel
deriving Inhabited

def defaultFn (x : Ext) (σ : Space) (f : Nat) (t : Id) (d : Json) : FnOut :=
  match σ.get t with
  | Option.none => .panic
  | Option.some ent =>
    match ent.details with
    | .unit => .panic                            -- `unreachable!()` defaults.rs:336
    | .boolean => .boolTrue
    | .integer name =>
      (match asU64 d with
       | Option.some v => if name.startsWith nonZeroPrefix then .nzu64 name v else .u64 name v
       | Option.none =>
         match asI64 d with
         | Option.some v => .i64 name v
         | Option.none => .panic)                -- `panic!()` defaults.rs:348
    | _ =>
      match outputValue x σ f t d with
      | .ok e => .custom e
      | .none => .panic                          -- "The default value could not be rendered for this type"
      | .panic => .panic
      | .fuel => .fuel

/-- what the generic functions compute: `T::try_from(V).unwrap()` -/
inductive RunOut where
  | value (v : Val)
  | panic
  | unsupported
deriving Inhabited

def genericRun (ty : String) (n : Int) (nz : Bool) : RunOut :=
  match rtyOfName ty with
  | Option.none => .unsupported
  | Option.some r =>
    if nz && n == 0 then .panic                      -- `NonZeroU64::try_from(0).unwrap()`
    else if r.lo ≤ n ∧ n ≤ r.hi then .value (.int n) else .panic

/-! ### typing of the emitted expressions against the rendered types -/

def isOptionTy (σ : Space) (t : Id) : Bool :=
  match σ.get t with
  | Option.some ⟨.option _, _, _⟩ => true
  | _ => false

/-- does the rendered type implement `Default` (what `Default::default()` needs)? -/
def implsDefault (σ : Space) : Nat → Id → Bool
  | 0, _ => false
  | f + 1, t =>
    match σ.get t with
    | Option.none => false
    | Option.some ent =>
      match ent.details with
      | .option _ | .vec _ | .set _ | .map _ _ | .unit | .boolean | .float _ | .string | .jsonValue => true
      | .integer name => !name.startsWith nonZeroPrefix
      | .box t' => implsDefault σ f t'
      | .tuple ts => ts.all (implsDefault σ f)
      | .array t' _ => implsDefault σ f t'
      | .struct _ props _ dflt => dflt.isSome || props.all hasDefaultAttr
      | .enum _ _ _ _ dflt _ => dflt.isSome
      | .newtype _ _ _ dflt => dflt.isSome
      | _ => false

def zipAllB (H : RExpr → Id → Bool) : List RExpr → List Id → Bool
  | [], [] => true
  | e :: es, t :: ts => H e t && zipAllB H es ts
  | _, _ => false

/-- struct-literal members against the declared fields, in declaration order: same names, every
    member typed at its field's type (`Default::default()` needs `Default` for that type) -/
def fieldsOk (D : Id → Bool) (H : RExpr → Id → Bool) : List Field → List (String × Option RExpr) → Bool
  | [], [] => true
  | p :: ps, (n, e) :: fs =>
    n == p.name && (match e with | Option.none => D p.ty | Option.some a => H a p.ty) && fieldsOk D H ps fs
  | _, _ => false

/-- order in which `value_for_struct_props` writes members: direct ones, then flattened ones -/
def writtenOrder (props : List Field) : List Field :=
  props.filter (fun p => p.rename != .flatten) ++ props.filter (fun p => p.rename == .flatten)

def findByIdent (vs : List Variant) (var : String) : Option Variant :=
  vs.find? (fun v => v.identName == var)

/-- is the expression well typed at the Rust type rendered for `t`? -/
def hasType (σ : Space) : Nat → RExpr → Id → Bool
  | 0, _, _ => false
  | f + 1, e, t =>
    match σ.get t with
    | Option.none => false
    | Option.some ent =>
      let H := fun (a : RExpr) (t' : Id) => hasType σ f a t'
      let D := implsDefault σ f
      match ent.details, e with
      | .unit, .unit => true
      | .boolean, .bool _ => true
      | .integer name, .numLit (.int n) sfx =>
        sfx == name && (match rtyOfName name with
          | Option.some r => !r.isNonZero && decide (r.lo ≤ n ∧ n ≤ r.hi)
          | Option.none => false)
      | .integer name, .nonZeroNew ty (.int n) =>
        ty == name && (match rtyOfName name with
          | Option.some r => r.isNonZero && decide (0 ≤ n ∧ n ≤ r.hi)
          | Option.none => false)
      | .float name, .numLit _ sfx => sfx == name && (name == "f64" || name == "f32")
      | .string, .str _ => true
      | .jsonValue, .fromStr ty _ => ty == "::serde_json::Value"
      | .native name _, .fromStr ty _ => ty == name
      | .option _, .none => true
      | .option t', .some a => !isOptionTy σ t' && H a t'
      | .box t', .boxNew a => H a t'
      | .vec t', .vecMacro es => es.all (fun a => H a t')
      | .set t', .vecMacro es => es.all (fun a => H a t')
      | .array t' n, .array es => es.length == n && es.all (fun a => H a t')
      | .tuple ts, .paren es tc => (es.length != 1 || tc) && zipAllB H es ts
      | .map k v, .mapCollect kvs => kvs.all (fun ab => H ab.1 k && H ab.2 v)
      | .newtype name inner _ _, .newtype nm (Option.some a) => nm == name && H a inner
      | .struct name props _ _, .structLit nm fields => nm == name && fieldsOk D H (writtenOrder props) fields
      | .enum name _ vs _ _ _, .variantUnit ty var =>
        ty == name && (match findByIdent vs var with
          | Option.some v => isSimple v.details
          | Option.none => false)
      | .enum name _ vs _ _ _, .variantTuple ty var args =>
        ty == name && (match findByIdent vs var with
          | Option.some v =>
            (match v.details with
             | .item t' => (match args with | [a] => H a t' | _ => false)
             | .tuple ts =>
               if ts.length == 1 then (match args with | [.paren es true] => zipAllB H es ts | _ => false)
               else zipAllB H args ts
             | _ => false)
          | Option.none => false)
      | .enum name _ vs _ _ _, .variantStruct ty var fields =>
        ty == name && (match findByIdent vs var with
          | Option.some v =>
            (match v.details with
             | .struct ps => fieldsOk D H (writtenOrder ps) fields
             | _ => false)
          | Option.none => false)
      | _, _ => false

/-! ### evaluation -/

def zipE (G : Id → RExpr → Except E Val) : List Id → List RExpr → Except E (List Val)
  | [], [] => .ok []
  | t :: ts, e :: es =>
    (match G t e with
     | .error er => .error er
     | .ok v => match zipE G ts es with
       | .error er => .error er
       | .ok vs => .ok (v :: vs))
  | _, _ => .error .unsupported

/-- struct-literal members → field values, declaration order (`mapM'` order of `Serde.deStruct`) -/
def fieldVal (D : Id → Except E Val) (G : RExpr → Id → Except E Val) (e : Option RExpr) (t : Id) : Except E Val :=
  match e with
  | Option.none => D t
  | Option.some a => G a t

def evalFields (D : Id → Except E Val) (G : RExpr → Id → Except E Val) :
    List Field → List (String × Option RExpr) → Except E (List (String × Val))
  | [], [] => .ok []
  | p :: ps, (_, e) :: fs =>
    (match fieldVal D G e p.ty with
     | .error er => .error er
     | .ok a => match evalFields D G ps fs with
       | .error er => .error er
       | .ok r => .ok ((p.name, a) :: r))
  | _, _ => .error .unsupported

/-- arguments of a tuple variant as written → the tuple's elements -/
def tupleArgs (n : Nat) (args : List RExpr) : List RExpr :=
  if n == 1 then (match args with | [.paren es _] => es | _ => args) else args

def findIdxByIdent (vs : List Variant) (var : String) : Option Nat :=
  vs.findIdx? (fun v => v.identName == var)

mutual
/-- value of the expression at type `t` (`unsupported`: ill-shaped for the type, does not compile,
    panics when run, or outside the modelled fragment) -/
def eval (x : Ext) (σ : Space) : Nat → RExpr → Id → Except E Val
  | 0, _, _ => .error .fuel
  | f + 1, e, t =>
    match σ.get t with
    | Option.none => .error .unsupported
    | Option.some ent =>
      match ent.details with
      | .unit => (match e with | .unit => .ok .unit | _ => .error .unsupported)
      | .boolean => (match e with | .bool b => .ok (.bool b) | _ => .error .unsupported)
      | .integer name =>
        (match rtyOfName name with
         | Option.none => .error .unsupported
         | Option.some ty =>
           match e with
           | .numLit (.int n) _ => if ty.lo ≤ n ∧ n ≤ ty.hi then .ok (.int n) else .error .unsupported
           | .nonZeroNew _ (.int n) => if ty.lo ≤ n ∧ n ≤ ty.hi then .ok (.int n) else .error .unsupported
           | _ => .error .unsupported)
      | .float _ =>
        (match e with
         | .numLit (.int n) _ => .ok (.flt n 0)
         | .numLit (.flt m k) _ => .ok (.flt m k)
         | _ => .error .unsupported)
      | .string => (match e with | .str s => .ok (.str s) | _ => .error .unsupported)
      | .jsonValue => (match e with | .fromStr _ j => .ok (.json j) | _ => .error .unsupported)
      | .native _ _ => .error .unsupported
      | .reference _ => .error .unsupported
      | .option t' =>
        (match e with
         | .none => .ok .none
         | .some a =>
           (match σ.get t' with
            | Option.some ⟨.option _, _, _⟩ => .error .unsupported
            | _ => match eval x σ f a t' with
              | .ok v => .ok (.some v)
              | .error er => .error er)
         | _ => .error .unsupported)
      | .box t' => (match e with | .boxNew a => eval x σ f a t' | _ => .error .unsupported)
      | .vec t' | .set t' =>
        (match e with
         | .vecMacro es =>
           (match mapM' (fun a => eval x σ f a t') es with | .ok vs => .ok (.seq vs) | .error er => .error er)
         | _ => .error .unsupported)
      | .array t' n =>
        (match e with
         | .array es =>
           if es.length = n then
             (match mapM' (fun a => eval x σ f a t') es with | .ok vs => .ok (.seq vs) | .error er => .error er)
           else .error .unsupported
         | _ => .error .unsupported)
      | .tuple ts =>
        (match e with
         | .paren es _ =>
           (match zipE (fun t' a => eval x σ f a t') ts es with | .ok vs => .ok (.seq vs) | .error er => .error er)
         | _ => .error .unsupported)
      | .map k v =>
        (match e with
         | .mapCollect kvs =>
           (match mapM' (fun (ab : RExpr × RExpr) =>
               match eval x σ f ab.1 k, eval x σ f ab.2 v with
               | .ok (.str s), .ok b => .ok (s, b)
               | .ok _, .ok _ => .error .unsupported
               | .error er, _ => .error er
               | _, .error er => .error er) kvs with
            | .ok es => .ok (.map (es.foldl (fun acc p => insertKv p.1 p.2 acc) []))
            | .error er => .error er)
         | _ => .error .unsupported)
      | .newtype _ inner _ _ =>
        (match e with
         | .newtype _ (Option.some a) => eval x σ f a inner
         | _ => .error .unsupported)
      | .struct _ props _ _ =>
        (match e with
         | .structLit _ fields => evalStruct x σ f props fields
         | _ => .error .unsupported)
      | .enum _ tag variants _ _ _ =>
        match tag with
        | .internal _ =>
          (match e with
           | .variantUnit _ var =>
             (match findIdxByIdent variants var with
              | Option.none => .error .unsupported
              | Option.some i =>
                match variants[i]? with
                | Option.some ⟨_, _, .simple⟩ => .ok (.variant i .unit)
                | _ => .error .unsupported)
           | .variantStruct _ var fields =>
             (match findIdxByIdent variants var with
              | Option.none => .error .unsupported
              | Option.some i =>
                match variants[i]? with
                | Option.some ⟨_, _, .struct ps⟩ =>
                  (match evalStruct x σ f ps fields with
                   | .ok p => .ok (.variant i p) | .error er => .error er)
                | _ => .error .unsupported)
           | _ => .error .unsupported)
        | .untagged =>
          (match e with
           | .variantUnit _ var | .variantTuple _ var _ | .variantStruct _ var _ =>
             (match findIdxByIdent variants var with
              | Option.none => .error .unsupported
              | Option.some i =>
                match variants[i]? with
                | Option.some v =>
                  (match evalBody x σ f v.details e with
                   | .ok p => .ok (.variant i p) | .error er => .error er)
                | Option.none => .error .unsupported)
           | _ => .error .unsupported)
        | _ =>      -- external, adjacent
          (match e with
           | .variantUnit _ var =>
             (match findIdxByIdent variants var with
              | Option.none => .error .unsupported
              | Option.some i =>
                match variants[i]? with
                | Option.some ⟨_, _, .simple⟩ => .ok (.variant i .unit)
                | _ => .error .unsupported)
           | .variantTuple _ var _ | .variantStruct _ var _ =>
             (match findIdxByIdent variants var with
              | Option.none => .error .unsupported
              | Option.some i =>
                match variants[i]? with
                | Option.some v =>
                  (match evalBody x σ f v.details e with
                   | .ok p => .ok (.variant i p) | .error er => .error er)
                | Option.none => .error .unsupported)
           | _ => .error .unsupported)

/-- payload of a variant constructor (fuel as `Serde.deVariantBody`) -/
def evalBody (x : Ext) (σ : Space) : Nat → VDetails → RExpr → Except E Val
  | 0, _, _ => .error .fuel
  | f + 1, d, e =>
    match d with
    | .simple => (match e with | .variantUnit _ _ => .ok .unit | _ => .error .unsupported)
    | .item t => (match e with | .variantTuple _ _ [a] => eval x σ f a t | _ => .error .unsupported)
    | .tuple ts =>
      (match e with
       | .variantTuple _ _ args =>
         (match zipE (fun t' a => eval x σ f a t') ts (tupleArgs ts.length args) with
          | .ok vs => .ok (.seq vs) | .error er => .error er)
       | _ => .error .unsupported)
    | .struct ps =>
      (match e with
       | .variantStruct _ _ fields => evalStruct x σ f ps fields
       | _ => .error .unsupported)

/-- a struct literal (fuel as `Serde.deStruct`) -/
def evalStruct (x : Ext) (σ : Space) : Nat → List Field → List (String × Option RExpr) → Except E Val
  | 0, _, _ => .error .fuel
  | f + 1, props, fields =>
    if hasFlatten props then .error .unsupported else
    match evalFields (dflt x σ f) (fun a t' => eval x σ f a t') props fields with
    | .ok fs => .ok (.struct fs)
    | .error er => .error er
end

end TypifyModel.Defaults

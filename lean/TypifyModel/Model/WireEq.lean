import TypifyModel.Model.SerdeSer
/-! # Wire compatibility of two IRs (C04)

The original Rust types (serde + schemars derives) are described by the same IR as typify's output and given
meaning by the same `Serde` model. This file defines, between an *origin* space `σa` and a *generated* space `σb`:

* `tyB σ f t x` — `x` is a well-formed value of type `t` (what `de` / `Default::default()` produce);
* `accB σa σb ρ f A B` — *"`B` reads everything `A` writes"*: a decidable, one-directional structural relation
  (same wire names in the same roles; absent members tolerated; same tagging; containers componentwise; a set is a
  sequence; `Box` and unconstrained newtypes transparent; integer range of `A` within that of `B`; string-keyed maps);
* `simB` — the extra conditions under which the round trip also gives back the *same value*;
* `wireB` — `accB` in both directions (+ `simB`), the translation-validation checker the driver runs on the real
  (origin IR, generated dump) pairs.

Named types (structs, enums) are not unfolded by `accB`: recursive definitions have no finite unfolding. A candidate
correspondence `ρ` of named types is required to be consistent at once (`allAccB`), as `AllConv` does for `$ref`s. -/
namespace TypifyModel.WireEq
open TypifyModel TypifyModel.Serde

def nodupB : List String → Bool
  | [] => true
  | a :: r => !r.contains a && nodupB r

def zipB (f : Id → Id → Bool) : List Id → List Id → Bool
  | [], [] => true
  | a :: as, b :: bs => f a b && zipB f as bs
  | _, _ => false

def zipTy (f : Id → Val → Bool) : List Id → List Val → Bool
  | [], [] => true
  | t :: ts, v :: vs => f t v && zipTy f ts vs
  | _, _ => false

def isOption (σ : Space) (t : Id) : Bool :=
  match σ.get t with
  | some ⟨.option _, _, _⟩ => true
  | _ => false

def isString (σ : Space) (t : Id) : Bool :=
  match σ.get t with
  | some ⟨.string, _, _⟩ => true
  | _ => false

def isNoneV : Val → Bool
  | .none => true
  | _ => false

/-- `none` at an option-like type is what `de` produces for an absent member (serde's `missing_field`), whatever
    the fuel -/
def tyOrNone (σ : Space) (f : Id → Val → Bool) (t : Id) (v : Val) : Bool :=
  f t v || (isNoneV v && optionLikeT σ t)

def fieldsTy (σ : Space) (f : Id → Val → Bool) : List Field → List (String × Val) → Bool
  | [], [] => true
  | p :: ps, (_, v) :: fs => tyOrNone σ f p.ty v && fieldsTy σ f ps fs
  | _, _ => false

/-- payload of a variant. `none` for an `item` whose type is option-like is what `de` produces for an adjacently
    tagged variant whose content member is absent -/
def variantTy (σ : Space) (f : Id → Val → Bool) (d : VDetails) (p : Val) : Bool :=
  match d with
  | .simple => (match p with | .unit => true | _ => false)
  | .item t => tyOrNone σ f t p
  | .tuple ts => (match p with | .seq vs => zipTy f ts vs | _ => false)
  | .struct ps => (match p with | .struct fs => fieldsTy σ f ps fs | _ => false)

/-- `x` is a well-formed value of type `t` -/
def tyB (σ : Space) : Nat → Id → Val → Bool
  | 0, _, _ => false
  | f + 1, t, x =>
    match σ.get t with
    | none => false
    | some ent =>
      match ent.details with
      | .unit => (match x with | .unit => true | _ => false)
      | .boolean => (match x with | .bool _ => true | _ => false)
      | .integer name =>
        (match rtyOfName name, x with
         | some ty, .int n => decide (ty.lo ≤ n ∧ n ≤ ty.hi)
         | _, _ => false)
      | .float _ => (match x with | .flt _ _ => true | _ => false)
      | .string => (match x with | .str _ => true | _ => false)
      | .jsonValue => (match x with | .json _ => true | _ => false)
      | .native _ _ => false
      | .reference _ => false
      | .option t' =>
        isNoneV x ||
        (if isOption σ t' then tyB σ f t' x        -- a nested Option is flattened when rendered
         else match x with
           | .some v => tyB σ f t' v
           | _ => false)
      | .box t' => tyB σ f t' x
      | .newtype _ inner _ _ => tyB σ f inner x
      | .vec t' | .set t' => (match x with | .seq vs => vs.all (tyB σ f t') | _ => false)
      | .array t' n => (match x with | .seq vs => decide (vs.length = n) && vs.all (tyB σ f t') | _ => false)
      | .tuple ts => (match x with | .seq vs => zipTy (tyB σ f) ts vs | _ => false)
      | .map _ vt => (match x with | .map kvs => kvs.all (fun kv => tyB σ f vt kv.2) | _ => false)
      | .struct _ props _ _ => (match x with | .struct fs => fieldsTy σ (tyB σ f) props fs | _ => false)
      | .enum _ _ variants _ _ _ =>
        (match x with
         | .variant i p =>
           (match variants[i]? with
            | some vr => variantTy σ (tyB σ f) vr.details p
            | none => false)
         | _ => false)

/-! ### `accB`: B reads what A writes -/

/-- may this member be left out when the struct is written? (`SerdeSer.skipped`) -/
def maySkip (σ : Space) (p : Field) : Bool :=
  match p.state with
  | .optional =>
    (match σ.get p.ty with
     | some ⟨.option _, _, _⟩ => true
     | some ⟨.vec _, _, _⟩ => true
     | some ⟨.map _ _, _, _⟩ => true
     | _ => false)
  | _ => false

/-- is a missing member read without error? -/
def toleratesMissing (σ : Space) (q : Field) : Bool :=
  match q.state with
  | .required => optionLikeT σ q.ty
  | _ => true

/-- struct members: every member A may write is known to B under the same wire name with a type that reads it,
    and every member B insists on is always written by A -/
def fieldsAcc (rec : Id → Id → Bool) (σa σb : Space) (pa pb : List Field) : Bool :=
  !hasFlatten pa && !hasFlatten pb &&
  nodupB (pa.map (·.wire)) && nodupB (pb.map (·.wire)) &&
  pa.all (fun p =>
    match pb.find? (fun q => q.wire == p.wire) with
    | some q => rec p.ty q.ty
    | none => false) &&
  pb.all (fun q =>
    toleratesMissing σb q ||
    (match pa.find? (fun p => p.wire == q.wire) with
     | some p => !maySkip σa p
     | none => false))

def vdAcc (rec : Id → Id → Bool) (σa σb : Space) (da db : VDetails) : Bool :=
  match da, db with
  | .simple, .simple => true
  | .item a, .item b => rec a b
  | .tuple as, .tuple bs => zipB rec as bs
  | .struct pa, .struct pb => fieldsAcc rec σa σb pa pb
  | .item a, .tuple bs =>        -- `V((A, B))` and `V(A, B)` have the same wire form
    (match σa.get a with
     | some ⟨.tuple as, _, _⟩ => zipB rec as bs
     | _ => false)
  | .tuple as, .item b =>
    (match σb.get b with
     | some ⟨.tuple bs, _, _⟩ => zipB rec as bs
     | _ => false)
  | _, _ => false

/-- the variant of B that carries the same wire name reads the payload of the variant of A -/
def variantAcc (rec : Id → Id → Bool) (σa σb : Space) (vb : List Variant) (v : Variant) : Bool :=
  match vb.find? (fun w => w.wire == v.wire) with
  | some w => vdAcc rec σa σb v.details w.details
  | none => false

def internalOk (tg : String) (v : Variant) : Bool :=
  match v.details with
  | .simple => true
  | .struct ps => !ps.any (fun p => p.wire == tg)
  | _ => false            -- tuple variants do not exist; newtype variants: the inner object could carry the tag name

def enumAcc (rec : Id → Id → Bool) (σa σb : Space) (ta tb : Tag) (va vb : List Variant) : Bool :=
  ta == tb &&
  (match ta with
   | .external => va.all (variantAcc rec σa σb vb)
   | .internal tg => va.all (fun v => internalOk tg v && variantAcc rec σa σb vb v)
   | .adjacent tg ct => tg != ct && va.all (variantAcc rec σa σb vb)
   | .untagged =>
     decide (va.length = vb.length) && (va.zip vb).all (fun p => vdAcc rec σa σb p.1.details p.2.details))

def inRho (ρ : List (Id × Id)) (A B : Id) : Bool := ρ.any (fun pr => pr.1 == A && pr.2 == B)

/-- one construct against one construct (transparent wrappers already removed on both sides) -/
def accD (rec : Id → Id → Bool) (σa σb : Space) (ρ : List (Id × Id)) (A B : Id) (da db : Details) : Bool :=
  match da, db with
  | .unit, .unit => true
  | .boolean, .boolean => true
  | .integer na, .integer nb =>
    (match rtyOfName na, rtyOfName nb with
     | some ta, some tb => decide (tb.lo ≤ ta.lo) && decide (ta.hi ≤ tb.hi)
     | _, _ => false)
  | .float _, .float _ => true
  | .string, .string => true
  | .jsonValue, .jsonValue => true
  | .option a', .option b' => !isOption σa a' && !isOption σb b' && rec a' b'
  | .vec a', .vec b' => rec a' b'
  | .vec a', .set b' => rec a' b'
  | .set a', .vec b' => rec a' b'
  | .set a', .set b' => rec a' b'
  | .array a' n, .array b' m => decide (n = m) && rec a' b'
  | .tuple as, .tuple bs => zipB rec as bs
  | .map ka va, .map kb vb => isString σa ka && isString σb kb && rec va vb
  | .struct .., .struct .. => inRho ρ A B
  | .enum .., .enum .. => inRho ρ A B
  | _, _ => false

/-- `Box` and unconstrained newtypes do not show on the wire -/
def transparent : Details → Option Id
  | .box t => some t
  | .newtype _ t .none _ => some t
  | _ => none

def accB (σa σb : Space) (ρ : List (Id × Id)) : Nat → Id → Id → Bool
  | 0, _, _ => false
  | f + 1, A, B =>
    match σa.get A, σb.get B with
    | some ea, some eb =>
      (match transparent ea.details with
       | some A' => accB σa σb ρ f A' B
       | none =>
         match transparent eb.details with
         | some B' => accB σa σb ρ f A B'
         | none => accD (accB σa σb ρ f) σa σb ρ A B ea.details eb.details)
    | _, _ => false

/-- the pair of named types, unfolded one level -/
def namedAcc (σa σb : Space) (ρ : List (Id × Id)) (f : Nat) (A B : Id) : Bool :=
  match σa.get A, σb.get B with
  | some ⟨.struct _ pa _ _, _, _⟩, some ⟨.struct _ pb _ _, _, _⟩ => fieldsAcc (accB σa σb ρ f) σa σb pa pb
  | some ⟨.enum _ ta va _ _ _, _, _⟩, some ⟨.enum _ tb vb _ _ _, _, _⟩ => enumAcc (accB σa σb ρ f) σa σb ta tb va vb
  | _, _ => false

def allAccB (σa σb : Space) (ρ : List (Id × Id)) (f : Nat) : Bool :=
  ρ.all (fun pr => namedAcc σa σb ρ f pr.1 pr.2)

def swapρ (ρ : List (Id × Id)) : List (Id × Id) := ρ.map (fun pr => (pr.2, pr.1))

/-- wire compatibility for a given correspondence of named types -/
def wireRB (σ σ' : Space) (ρ : List (Id × Id)) (f : Nat) (T T' : Id) : Bool :=
  allAccB σ σ' ρ f && allAccB σ' σ (swapρ ρ) f && accB σ σ' ρ f T T' && accB σ' σ (swapρ ρ) f T' T

/-! ### the correspondence of named types, computed: every struct/struct and enum/enum pair, refined to the
    greatest consistent set (typify re-cases type names, so names are not compared) -/

def namedIds (σ : Space) : List (Id × Bool) :=
  σ.entries.filterMap (fun e =>
    match e.2.details with
    | .struct .. => some (e.1, true)
    | .enum .. => some (e.1, false)
    | _ => none)

def candidates (σ σ' : Space) : List (Id × Id) :=
  (namedIds σ).flatMap (fun a => (namedIds σ').filterMap (fun b => if a.2 == b.2 then some (a.1, b.1) else none))

def refineStep (σ σ' : Space) (f : Nat) (ρ : List (Id × Id)) : List (Id × Id) :=
  ρ.filter (fun pr => namedAcc σ σ' ρ f pr.1 pr.2 && namedAcc σ' σ (swapρ ρ) f pr.2 pr.1)

def refine (σ σ' : Space) (f : Nat) : Nat → List (Id × Id) → List (Id × Id)
  | 0, ρ => ρ
  | n + 1, ρ =>
    let ρ' := refineStep σ σ' f ρ
    if ρ'.length == ρ.length then ρ else refine σ σ' f n ρ'

def rhoOf (σ σ' : Space) (f : Nat) : List (Id × Id) :=
  let c := candidates σ σ'
  refine σ σ' f (c.length + 1) c

def wireB (σ σ' : Space) (f : Nat) (T T' : Id) : Bool :=
  wireRB σ σ' (rhoOf σ σ' f) f T T'

end TypifyModel.WireEq

/-! # Names — model of typify's identifier construction (ASCII domain)

Models, over `List Char`:
* heck 0.5.0 `transform` (`src/lib.rs`) with the `snake` (`lowercase`, boundary `_`) and
  `upper_camel` (`capitalize`, no boundary) instantiations;
* `unicode_ident::is_xid_start / is_xid_continue` restricted to ASCII;
* `syn::parse_str::<syn::Ident>` restricted to ASCII (`isRustIdent`; keyword list of
  syn-2.0.100 `ident.rs::accept_as_ident`);
* typify-impl `util.rs`: `sanitize`, `recase`, `unique`;
* `type_entry.rs` `TypeEntryEnum::from_metadata` (two naming passes, then `panic!`);
* `structs.rs` `struct_property` / `struct_members` (recase Snake per property, stable sort by
  identifier, **no** collision check) and `generate_serde_attr` / `output_variant` (when a
  `#[serde(rename = …)]` is emitted);
* `lib.rs` `add_ref_types_impl` / `convert_ref_type` (definition key → `sanitize(key, Pascal)`,
  **no** collision check).

The character predicates below are the ASCII ones; a string with a non-ASCII character is outside
the model's domain (`Ascii s` is false; the driver answers `unsupported`).  Bugs are modelled as
they are. Imports nothing outside core. -/
namespace TypifyModel.Names

abbrev Str := List Char

/-- domain of the model -/
def Ascii (s : Str) : Prop := ∀ c ∈ s, c.toNat < 128
instance (s : Str) : Decidable (Ascii s) := by unfold Ascii; infer_instance

def AllAscii (ss : List Str) : Prop := ∀ s ∈ ss, Ascii s
instance (ss : List Str) : Decidable (AllAscii ss) := by unfold AllAscii; infer_instance

/-! ## character classes (Rust `char::is_*`, `unicode_ident::*` on ASCII) -/
def isLower (c : Char) : Bool := c.isLower
def isUpper (c : Char) : Bool := c.isUpper
def isAlnum (c : Char) : Bool := c.isAlphanum
/-- `unicode_ident::is_xid_start` on ASCII: letters -/
def isXidStart (c : Char) : Bool := c.isAlpha
/-- `unicode_ident::is_xid_continue` on ASCII: letters, digits, `_` -/
def isXidContinue (c : Char) : Bool := c.isAlphanum || c == '_'
def toLower (c : Char) : Char := c.toLower
def toUpper (c : Char) : Char := c.toUpper

/-! ## heck 0.5.0 `transform` -/

/-- `WordMode` of heck's `transform` -/
inductive Mode | boundary | lower | upper
deriving DecidableEq, Repr

/-- `s.split(|c| !c.is_alphanumeric())`: all pieces, empty ones included.
    `cur` = characters of the current piece, reversed. -/
def splitAux : Str → Str → List Str
  | cur, [] => [cur.reverse]
  | cur, c :: rest =>
    if isAlnum c then splitAux (c :: cur) rest else cur.reverse :: splitAux [] rest

def splitWords (s : Str) : List Str := splitAux [] s

/-- `next_mode`: "the mode including the current character" -/
def nextMode (mode : Mode) (c : Char) : Mode :=
  if isLower c then .lower else if isUpper c then .upper else mode

/-- The `while let Some((i, c)) = char_indices.next()` loop over one piece: the sub-words it hands
    to `with_word`, in order. `cur` = `word[init..i]` reversed, first list element = `c`,
    second = the peeked `next`. -/
def segs : Mode → Str → Str → List Str
  | _, _, [] => []                                    -- empty piece: loop body never runs
  | _, cur, [c] => [(c :: cur).reverse]               -- "Collect trailing characters as a word"
  | mode, cur, c :: n :: rest =>
    if nextMode mode c = .lower ∧ isUpper n then
      -- word boundary after `c`
      (c :: cur).reverse :: segs .boundary [] (n :: rest)
    else if mode = .upper ∧ isUpper c ∧ isLower n then
      -- word boundary before `c`
      cur.reverse :: segs .boundary [c] (n :: rest)
    else
      segs (nextMode mode c) (c :: cur) (n :: rest)

/-- all sub-words of the input, in the order `with_word` is called -/
def heckWords (s : Str) : List Str := (splitWords s).flatMap (segs .boundary [])

/-- heck `lowercase` (ASCII: no final-sigma case) -/
def lowerWord (w : Str) : Str := w.map toLower

/-- heck `capitalize` -/
def capitalize : Str → Str
  | [] => []
  | c :: r => toUpper c :: r.map toLower

/-- words separated by the boundary `_` (`boundary` is called before every word but the first) -/
def joinSnake : List Str → Str
  | [] => []
  | [w] => w
  | w :: ws => w ++ '_' :: joinSnake ws

/-- `heck::ToSnakeCase::to_snake_case` -/
def toSnake (s : Str) : Str := joinSnake ((heckWords s).map lowerWord)

/-- `heck::ToPascalCase::to_pascal_case` (= upper camel) -/
def toPascal (s : Str) : Str := ((heckWords s).map capitalize).flatten

/-! ## `syn::parse_str::<syn::Ident>` on ASCII -/

/-- syn-2.0.100 `ident.rs::accept_as_ident` rejects exactly these (plus `_`, handled apart) -/
def keywords : List Str := [
  "abstract", "as", "async", "await", "become", "box", "break",
  "const", "continue", "crate", "do", "dyn", "else", "enum",
  "extern", "false", "final", "fn", "for", "if", "impl", "in",
  "let", "loop", "macro", "match", "mod", "move", "mut",
  "override", "priv", "pub", "ref", "return", "Self", "self",
  "static", "struct", "super", "trait", "true", "try", "type",
  "typeof", "unsafe", "unsized", "use", "virtual", "where",
  "while", "yield"].map String.toList

def isKeyword (s : Str) : Bool := keywords.contains s

/-- the lexical shape of a (non-raw) identifier: XID_Start or `_`, then XID_Continue -/
def identShape : Str → Bool
  | [] => false
  | c :: r => (isXidStart c || c == '_') && r.all isXidContinue

/-- what `syn::parse_str::<syn::Ident>` accepts (text is exactly one non-raw identifier token that
    is neither a keyword nor `_`) -/
def isRustIdent (s : Str) : Bool := identShape s && !isKeyword s && s != ['_']

/-! ## util.rs -/

inductive Case | pascal | snake
deriving DecidableEq, Repr

def toCase : Case → Str → Str
  | .pascal => toPascal
  | .snake => toSnake

/-- `input.replace("'", "").replace(|c| !is_xid_continue(c), "-")` -/
def replChars (s : Str) : Str :=
  (s.filter (· != '\'')).map (fun c => if isXidContinue c then c else '-')

/-- the `match input { "async" => …, "+1" => …, "-1" => …, _ => to_case(…) }` -/
def sanitizeCore (s : Str) (c : Case) : Str :=
  if s = "async".toList then "async_".toList
  else if s = "+1".toList then "plus1".toList
  else if s = "-1".toList then "minus1".toList
  else toCase c (replChars s)

/-- `let prefix = to_case("x"); match out.chars().next() { None => prefix, Some(c) if
    is_xid_start(c) => out, Some(_) => prefix + out }` -/
def addPrefix (c : Case) (out : Str) : Str :=
  match out with
  | [] => toCase c ['x']
  | ch :: _ => if isXidStart ch then out else toCase c ['x'] ++ out

/-- `if syn::parse_str::<syn::Ident>(&out).is_ok() { out } else { format!("{}_", out) }` -/
def fixKeyword (out : Str) : Str := if isRustIdent out then out else out ++ ['_']

/-- util.rs `sanitize` -/
def sanitize (s : Str) (c : Case) : Str := fixKeyword (addPrefix c (sanitizeCore s c))

/-- util.rs `recase`: the identifier and the serde rename, present iff the identifier differs -/
def recase (s : Str) (c : Case) : Str × Option Str :=
  let new := sanitize s c
  (new, if new = s then none else some s)

/-- util.rs `unique`: `all(|item| set.insert(item))` -/
def uniqueAux : List Str → List Str → Bool
  | _, [] => true
  | seen, x :: xs => if seen.contains x then false else uniqueAux (x :: seen) xs

def unique (l : List Str) : Bool := uniqueAux [] l

/-! ## enum variants: `TypeEntryEnum::from_metadata` and `output_variant` -/

/-- `raw_name.replace(|c| c == '_' || !is_xid_continue(c), "X")` -/
def replX (s : Str) : Str := s.map (fun c => if c == '_' || !isXidContinue c then 'X' else c)

def variantPass1 (raws : List Str) : List Str := raws.map (sanitize · .pascal)
def variantPass2 (raws : List Str) : List Str := raws.map (fun r => sanitize (replX r) .pascal)

inductive NamesResult
  | ok (names : List Str)
  | panic
deriving DecidableEq, Repr

/-- the identifiers given to the variants with the given raw names, or the `panic!("Failed to
    make unique variant names …")` -/
def variantNames (raws : List Str) : NamesResult :=
  if unique (variantPass1 raws) then .ok (variantPass1 raws)
  else if unique (variantPass2 raws) then .ok (variantPass2 raws)
  else .panic

/-- a rendered field or variant: identifier and the `#[serde(rename = "…")]` string, if emitted -/
abbrev Rendered := Str × Option Str

/-- the name serde uses on the wire for a rendered field/variant (no `rename_all` is ever emitted) -/
def wireName (r : Rendered) : Str := r.2.getD r.1

/-- enums.rs `output_variant`: `(&variant.raw_name != ident_name).then(|| #[serde(rename = raw)])` -/
def renderVariant (raw ident : Str) : Rendered := (ident, if raw ≠ ident then some raw else none)

def renderVariants (raws idents : List Str) : List Rendered :=
  List.zipWith renderVariant raws idents

/-! ## struct fields: `struct_property`, `struct_members`, `generate_serde_attr` -/

/-- byte-wise `str::cmp` (ASCII: code point order), as `≤` -/
def strLe : Str → Str → Bool
  | [], _ => true
  | _ :: _, [] => false
  | a :: as, b :: bs => a.toNat < b.toNat || (a == b && strLe as bs)

/-- `struct_property` per property (in the order of the `properties` map, i.e. sorted by JSON
    name), then `properties.sort_by(|a, b| a.name.cmp(&b.name))` (stable). No collision check:
    two properties with one identifier give two fields of that name. -/
def structFields (props : List Str) : List Rendered :=
  (props.map (recase · .snake)).mergeSort (fun a b => strLe a.1 b.1)

def fieldIdents (props : List Str) : List Str := (structFields props).map (·.1)

/-- `struct_members` with `additionalProperties: <schema>`: after the sort a field named `extra`
    carrying `#[serde(flatten)]` is pushed (StructPropertyRename::Flatten). No check against the
    property-derived identifiers. -/
def extraIdent : Str := "extra".toList

def fieldIdentsExtra (props : List Str) : List Str := fieldIdents props ++ [extraIdent]

/-! ## definitions: `add_ref_types_impl` → `convert_ref_type` → `get_type_name` -/

/-- the item name of every definition, in input order; no collision check -/
def defNames (keys : List Str) : List Str := keys.map (sanitize · .pascal)

end TypifyModel.Names

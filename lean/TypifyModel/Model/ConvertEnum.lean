import TypifyModel.Model.Exclusive
/-! `convert.rs` `convert_enum_string`, `convert_typed_enum`, `convert_unknown_enum` and `util.rs` `StringValidator`: what the
    `enum` keyword becomes — a Rust enum of unit variants (one per enumerated string that meets the string constraints), an
    `Option` of it when `null` is among the values, `()` when `null` is all there is, a newtype over the typed conversion that
    admits exactly the listed values, plain `bool` (enumerated Booleans are ignored), an error, or a panic.

    The regular-expression engine is a parameter (`pat`); lengths are counted in Unicode scalar values (`String.length`), as
    `StringValidator::is_valid` does (`chars().count()`). Whether a value conforms to the typed conversion
    (`TypeEntry::validate_value`) is a parameter of `typedEnum` as well. -/
namespace TypifyModel.ConvertEnum
open TypifyModel TypifyModel.Excl

structure StrV where
  minLen : Option Nat := none
  maxLen : Option Nat := none
  /-- `none`: no pattern; `some m`: the matcher of the (valid) pattern -/
  pat : Option (String → Bool) := none

/-- `StringValidator::is_valid` -/
def StrV.valid (v : StrV) (s : String) : Bool :=
  (match v.maxLen with | some mx => decide (s.length ≤ mx) | none => true) &&
  (match v.minLen with | some mn => decide (mn ≤ s.length) | none => true) &&
  (match v.pat with | some m => m s | none => true)

inductive Out where
  | unit
  | strEnum (variants : List String)
  | option (inner : Out)
  | allow (ty : JT) (values : List Json)     -- a newtype whose `Deserialize` / `TryFrom` admit exactly these values
  | boolean
  | errBadValue | errEmpty | errInvalidValue
  | panic
deriving Inhabited

def isNull : Json → Bool
  | .null => true
  | _ => false

/-- the strings of the list that meet the constraints, in order; `none` when a value is neither a string nor `null` -/
def keptStrings (v : StrV) : List Json → Option (List String)
  | [] => some []
  | .null :: r => keptStrings v r
  | .str s :: r => (keptStrings v r).map (fun l => if v.valid s then s :: l else l)
  | _ :: _ => none

/-- `convert_enum_string` -/
def enumString (v : StrV) (values : List Json) : Out :=
  match keptStrings v values with
  | none => .errBadValue
  | some [] => if values.any isNull then .unit else .errEmpty
  | some vs =>
    -- the same string twice: two variants of one name, `TypeEntryEnum::from_metadata` panics
    if vs.eraseDups.length != vs.length then .panic else
    if values.any isNull then .option (.strEnum vs) else .strEnum vs

/-- `convert_typed_enum`: the conversion of the rest of the schema is `ty`; every enumerated value has to be a value of it -/
def typedEnum (ty : JT) (conforms : Json → Bool) (values : List Json) : Out :=
  if values.all conforms then .allow ty values else .errInvalidValue

/-- the instance types of the values, `null` apart, without repetition (`Number` for every number) -/
def valueTypes (values : List Json) : List JT :=
  ((values.filter (fun v => !isNull v)).map JT.ofValue).eraseDups

/-- `convert_unknown_enum` -/
def unknownEnum (conforms : JT → Json → Bool) (values : List Json) : Out :=
  if values.isEmpty then .panic else               -- `assert!(!enum_values.is_empty())`
  let nonNull := values.filter (fun v => !isNull v)
  let core : Out :=
    if nonNull.isEmpty then .panic else             -- the recursion on the values without `null` meets the same assertion
    match valueTypes values with
    | [.string] => enumString {} nonNull
    | [.boolean] => .boolean
    | [t] => typedEnum t (conforms t) nonNull
    | _ => .panic                                   -- "multiple implied types for an un-typed enum"
  if values.any isNull then (match core with | .panic => .panic | .errBadValue => .errBadValue | .errEmpty => .errEmpty
                                               | .errInvalidValue => .errInvalidValue | o => .option o)
  else core

end TypifyModel.ConvertEnum

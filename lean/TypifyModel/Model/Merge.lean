import TypifyModel.Model.Schema
/-! Model of typify-impl/src/merge.rs (`merge_all`, `try_merge_schema`, `merge_schema_object`, …) over the
    `Schema` AST of Model/Schema.lean.

    The real code works on schemars' `SchemaObject` (a product of keyword groups); the AST is a sum of
    shapes. A shape is either a *body* (`any` = `{}`, the typed shapes, `enumVals`) or *subschema-only*
    (`oneOf`/`anyOf`/`allOf`/`not`); `merge_schema_object` = merge the bodies, then
    `try_merge_with_subschemas` with the left and then the right subschemas.

    Results: `ok m gaps` | `never gaps` (merge.rs' `Err(())`) | `unsup` (merge.rs panics there —
    `unimplemented!`, `todo!`, unresolved reference — or the case is outside the modelled fragment, or
    fuel ran out). `gaps` lists the defective arms of merge.rs that the run went through (bugs are
    modelled, not repaired): the theorems of Proofs/C09.lean hold for runs with `gaps = []`, and
    Proofs/C09Findings.lean refutes the statements without that hypothesis. -/
namespace TypifyModel.Merge
open TypifyModel TypifyModel.Validate

/-- the arms of merge.rs whose result is not the intersection -/
inductive Gap where
  | intNumber      -- merge_so_instance_type: `integer` vs `number` compared for equality → unsatisfiable
  | arrayItems     -- merge_so_array: conflicting `items` make the whole array unsatisfiable (`[]` fits both)
  | notDropped     -- try_merge_schema_not ignores everything but `object.required` and subschemas
  | notRequired    -- try_merge_schema_not: `required` with ≠ 1 names ("completely wrong"), or with properties
  | overlap        -- try_merge_with_each_subschema subtracts the other branches (exact only for disjoint branches)
  | roughlyArray   -- `roughly` ignores minItems/maxItems/uniqueItems, the merged constraints are then dropped
  | enumEmptied    -- NOT a defect: the AST does not record whether an `enum` carried `type`; when the other
                   -- side's type leaves no value, merge.rs answers `Err` (typed) or `{type, enum: []}` (untyped).
                   -- The driver answers `unsupported` for such runs.
deriving Repr, DecidableEq, Inhabited

inductive MR where
  | ok (s : Schema) (g : List Gap)
  | never (g : List Gap)
  | unsup
deriving Repr, Inhabited

/-- prepend the gaps of earlier steps -/
def MR.addGaps : MR → List Gap → MR
  | .ok s g, g0 => .ok s (g0 ++ g)
  | .never g, g0 => .never (g0 ++ g)
  | .unsup, _ => .unsup

inductive Ty where
  | null | boolean | integer | number | string | array | object
deriving DecidableEq, Repr

def tyOf : Schema → Option Ty
  | .null => some .null
  | .boolean => some .boolean
  | .integer _ _ => some .integer
  | .number => some .number
  | .string _ _ _ => some .string
  | .array _ _ _ _ => some .array
  | .tuple _ => some .array
  | .object _ _ _ => some .object
  | _ => none

/-- validate.rs `check_instance` -/
def jsonTy : Ty → Json → Bool
  | .null, .null => true
  | .boolean, .bool _ => true
  | .integer, .int _ => true
  | .number, .int _ => true
  | .number, .flt _ _ => true
  | .string, .str _ => true
  | .array, .arr _ => true
  | .object, .obj _ => true
  | _, _ => false

/-- no JSON value has both instance types -/
def disjointTy (a b : Ty) : Bool :=
  a != b && !((a == .integer && b == .number) || (a == .number && b == .integer))

def isSub : Schema → Bool
  | .oneOf _ => true
  | .anyOf _ => true
  | .allOf _ => true
  | .not _ => true
  | _ => false

def isNever : Schema → Bool
  | .never => true
  | _ => false

def isAny : Schema → Bool
  | .any => true
  | _ => false

def isRef : Schema → Bool
  | .ref _ => true
  | _ => false

def enumOf : Schema → Option (List Json)
  | .enumVals vs => some vs
  | _ => none

def omaxI : Option Int → Option Int → Option Int
  | none, x => x
  | x, none => x
  | some a, some b => some (max a b)

def ominI : Option Int → Option Int → Option Int
  | none, x => x
  | x, none => x
  | some a, some b => some (min a b)

/-- merge.rs `choose_value(.., Ord::max)` -/
def omaxN : Option Nat → Option Nat → Option Nat
  | none, x => x
  | x, none => x
  | some a, some b => some (max a b)

def ominN : Option Nat → Option Nat → Option Nat
  | none, x => x
  | x, none => x
  | some a, some b => some (min a b)

def minGtMax : Option Nat → Option Nat → Bool
  | some mn, some mx => decide (mx < mn)
  | _, _ => false

/-- the range a plain `{"type":"integer"}` gets from Driver.SchemaJson (no NumberValidation, no format) -/
def isDefaultInt (lo hi : Option Int) : Bool :=
  lo == some (-9223372036854775808) && hi == some 9223372036854775807

def inInt (lo hi : Option Int) : Json → Bool
  | .int n => (match lo with | some l => decide (l ≤ n) | none => true) &&
              (match hi with | some h => decide (n ≤ h) | none => true)
  | _ => false

/-- enum values of one side against a typed other side: `merge_so_enum_values` + the final filter by
    `schema_value_validate` (instance type only); constraints that stay in the merged schema are
    applied here, so the answer is `enumVals` again. `none`: not representable. -/
def enumWith (te : Bool) (vs : List Json) (t : Schema) : MR :=
  -- `te`: every enumeration of the request carries `type` (then an emptied enumeration is a type conflict: `Err`)
  let emptied : MR := if te then .never [] else .ok (.enumVals []) [.enumEmptied]
  let out (r : List Json) : MR := if r.isEmpty then emptied else .ok (.enumVals r) []
  match t with
  | .null => out (vs.filter (jsonTy .null))
  | .boolean => out (vs.filter (jsonTy .boolean))
  | .integer lo hi => out (vs.filter (inInt lo hi))
  | .number => out (vs.filter (jsonTy .number))
  | .string none none none => out (vs.filter (jsonTy .string))
  | .string _ _ _ => if (vs.filter (jsonTy .string)).isEmpty then emptied else .unsup
  | .array _ _ _ _ => if (vs.filter (jsonTy .array)).isEmpty then emptied else .unsup
  | .tuple _ => if (vs.filter (jsonTy .array)).isEmpty then emptied else .unsup
  | .object _ _ _ => if (vs.filter (jsonTy .object)).isEmpty then emptied else .unsup
  | _ => .unsup

/-- merge.rs `merge_items_array` for a fixed-length tuple (min = max = length): stops at the first
    failing position -/
def mergeItems (rec : Schema → Schema → MR) : List (Schema × Schema) → Option (List Schema) × List Gap × Bool
  | [] => (some [], [], false)
  | (s, t) :: r =>
    match rec s t with
    | .unsup => (none, [], true)
    | .never g => (none, g, false)
    | .ok m g =>
      match mergeItems rec r with
      | (some ms, g', _) => (some (m :: ms), g ++ g', false)
      | (none, g', u) => (none, g ++ g', u)

def itemsResult : Option (List Schema) × List Gap × Bool → MR
  | (some ms, g, _) => .ok (.tuple ms) g
  | (none, _, true) => .unsup
  | (none, g, false) => .never g

def nodupKeys : List (String × Schema) → Bool
  | [] => true
  | p :: r => !(r.any (fun q => q.1 == p.1)) && nodupKeys r

/-- merge.rs `merge_additional_properties` (absent ≡ `true` ≡ `open_`) -/
def addlMerge (rec : Schema → Schema → MR) (a b : Additional Schema) : Option (Additional Schema × List Gap) :=
  match a with
  | .open_ => some (b, [])
  | .closed => some (.closed, [])
  | .schema s =>
    match b with
    | .open_ => some (.schema s, [])
    | .closed => some (.closed, [])
    | .schema t =>
      match rec s t with
      | .ok m g => some (.schema m, g)
      | .never g => some (.closed, g)
      | .unsup => none

/-- merge.rs `filter_prop` / `merge_additional`: a property declared on one side only, against the
    other side's `additionalProperties` -/
def filterProp (other : Additional Schema) (s : Schema) : Schema :=
  match other with
  | .open_ => s
  | .closed => .never
  | .schema t => .allOf [t, s]

def liftS (s : Schema) : MR :=
  if isNever s then .never [] else .ok s []

inductive PR where
  | ok (ps : List (String × Schema)) (g : List Gap)
  | never (g : List Gap)
  | unsup

/-- merge.rs:992-1030: a never-valued required property makes the object unsatisfiable; a never-valued
    optional one stays as `false` (or is omitted when the merged object is closed) -/
def collect (req : List String) (closedM : Bool) : List (String × MR) → PR
  | [] => .ok [] []
  | (k, r) :: rest =>
    match r with
    | .unsup => .unsup
    | .never g =>
      if req.contains k then .never g else
      match collect req closedM rest with
      | .ok ps g' => .ok (if closedM then ps else (k, .never) :: ps) (g ++ g')
      | .never g' => .never (g ++ g')
      | .unsup => .unsup
    | .ok m g =>
      match collect req closedM rest with
      | .ok ps g' => .ok ((k, m) :: ps) (g ++ g')
      | .never g' => .never (g ++ g')
      | .unsup => .unsup

def isClosed : Additional Schema → Bool
  | .closed => true
  | _ => false

def unionReq (ra rb : List String) : List String := ra ++ rb.filter (fun r => !ra.contains r)

/-- merge.rs `merge_so_object` -/
def mergeObject (rec : Schema → Schema → MR) (pa : List (String × Schema)) (ra : List String) (da : Additional Schema)
    (pb : List (String × Schema)) (rb : List String) (db : Additional Schema) : MR :=
  if !(nodupKeys pa && nodupKeys pb) then .unsup else
  let req := unionReq ra rb
  match addlMerge rec da db with
  | none => .unsup
  | some (dm, g0) =>
    let itemsA := pa.map (fun p => (p.1, match pb.find? (fun q => q.1 == p.1) with
                                         | some q => rec p.2 q.2
                                         | none => liftS (filterProp db p.2)))
    let itemsB := (pb.filter (fun q => !(pa.any (fun p => p.1 == q.1)))).map
                    (fun q => (q.1, liftS (filterProp da q.2)))
    match collect req (isClosed dm) (itemsA ++ itemsB) with
    | .ok pm g => .ok (.object pm req dm) (g0 ++ g)
    | .never g => .never (g0 ++ g)
    | .unsup => .unsup

def strAbsent (mn mx : Option Nat) (p : Option String) : Bool := mn.isNone && mx.isNone && p.isNone

/-- bodies of equal instance type (merge_so_number / _string / _array / _object), or incompatible ones -/
def mergeTyped (rec : Schema → Schema → MR) (a b : Schema) : MR :=
  match a, b with
  | .null, .null => .ok .null []
  | .boolean, .boolean => .ok .boolean []
  | .number, .number => .ok .number []
  | .integer lo hi, .integer lo' hi' =>
    -- equal-or-absent NumberValidation; differing validations are `unimplemented!` in merge.rs
    if (lo == lo' && hi == hi') || isDefaultInt lo hi || isDefaultInt lo' hi' then
      .ok (.integer (omaxI lo lo') (ominI hi hi')) []
    else .unsup
  | .integer _ _, .number => .never [.intNumber]
  | .number, .integer _ _ => .never [.intNumber]
  | .string mn mx p, .string mn' mx' p' =>
    if mn == mn' && mx == mx' && p == p' then .ok a []
    else if strAbsent mn mx p then .ok b []
    else if strAbsent mn' mx' p' then .ok a []
    else .unsup
  | .array ia mna mxa ua, .array ib mnb mxb ub =>
    let mn := omaxN mna mnb
    let mx := ominN mxa mxb
    if minGtMax mn mx then .never [] else
    match rec ia ib with
    | .ok m g => .ok (.array m mn mx (ua || ub)) g
    | .never g => .never (g ++ (if decide (1 ≤ mn.getD 0) then [] else [.arrayItems]))
    | .unsup => .unsup
  | .array ia mna mxa ua, .tuple ts =>
    if ts.isEmpty || ua then .unsup else
    if minGtMax (omaxN mna (some ts.length)) (ominN mxa (some ts.length)) then .never [] else
    itemsResult (mergeItems rec (ts.map (fun t => (t, ia))))
  | .tuple ts, .array ib mnb mxb ub =>
    if ts.isEmpty || ub then .unsup else
    if minGtMax (omaxN (some ts.length) mnb) (ominN (some ts.length) mxb) then .never [] else
    itemsResult (mergeItems rec (ts.map (fun t => (t, ib))))
  | .tuple ts, .tuple ts' =>
    if ts.isEmpty || ts'.isEmpty then .unsup else
    if ts.length != ts'.length then .never [] else
    itemsResult (mergeItems rec (ts.zip ts'))
  | .object pa ra da, .object pb rb db => mergeObject rec pa ra da pb rb db
  | _, _ =>
    match tyOf a, tyOf b with
    | some ta, some tb => if disjointTy ta tb then .never [] else .unsup
    | _, _ => .unsup

/-- the non-subschema part of `merge_schema_object` -/
def mergeBody (te : Bool) (rec : Schema → Schema → MR) (a b : Schema) : MR :=
  if isAny a then .ok b [] else
  if isAny b then .ok a [] else
  match enumOf a, enumOf b with
  | some va, some vb =>
    let r := va.filter (fun x => vb.any (· == x))
    if r.isEmpty then .never [] else .ok (.enumVals r) []
  | some va, none => enumWith te va b
  | none, some vb => enumWith te vb a
  | none, none => mergeTyped rec a b

/-- `try_merge_with_subschemas`, `all_of` arm: fold -/
def foldMerge (rec : Schema → Schema → MR) : Schema → List Schema → MR
  | so, [] => .ok so []
  | so, x :: r =>
    match rec so x with
    | .ok m g => (foldMerge rec m r).addGaps g
    | .never g => .never g
    | .unsup => .unsup

def setNever (ps : List (String × Schema)) (r : String) : List (String × Schema) :=
  if ps.any (fun p => p.1 == r) then ps.map (fun p => if p.1 == r then (p.1, Schema.never) else p)
  else ps ++ [(r, Schema.never)]

def isOpen : Additional Schema → Bool
  | .open_ => true
  | _ => false

/-- `try_merge_schema_not` (+ `try_merge_with_subschemas_not`) -/
def mergeNot (rec : Schema → Schema → MR) (so n : Schema) : MR :=
  match n with
  | .never => .ok so []
  | .not y => rec so y
  | .anyOf ys => if isRef so then .unsup else rec so (.allOf (ys.map Schema.not))
  | .allOf _ => .unsup
  | .object nps nreq nad =>
    match so with
    | .object ps req ad =>
      -- `{"type":"object"}` alone carries no ObjectValidation: the `not` is ignored (merge.rs:466)
      if ps.isEmpty && req.isEmpty && isOpen ad then .ok so [.notDropped] else
      let g := if nps.isEmpty && isOpen nad && nreq.length == 1 then [] else [Gap.notRequired]
      if nreq.any (fun r => req.contains r) then .never g
      else .ok (.object (nreq.foldl setNever ps) req ad) g
    | _ => .ok so [.notDropped]
  | _ => .ok so [.notDropped]

/-- merge.rs `roughly_schema_array`: same length, pairwise -/
def listRough (r : Schema → Schema → Bool) : List Schema → List Schema → Bool
  | [], [] => true
  | x :: xs, y :: ys => r x y && listRough r xs ys
  | _, _ => false

/-- merge.rs `roughly_properties` (schemars' maps are BTreeMaps: same keys, values pairwise) -/
def propsRough (r : Schema → Schema → Bool) (pa pb : List (String × Schema)) : Bool :=
  pa.all (fun p => match pb.find? (fun q => q.1 == p.1) with
                   | some q => r p.2 q.2
                   | none => false) &&
  pb.all (fun q => (pa.find? (fun p => p.1 == q.1)).isSome)

/-- merge.rs `Roughly`; `strict = true` also compares what the real one ignores (array bounds) -/
def roughlyX (strict : Bool) : Nat → Schema → Schema → Bool
  | 0, _, _ => false
  | f + 1, a, b =>
    match a, b with
    | .any, .any => true
    | .never, .never => true
    | .null, .null => true
    | .boolean, .boolean => true
    | .number, .number => true
    | .integer lo hi, .integer lo' hi' => lo == lo' && hi == hi'
    | .string mn mx p, .string mn' mx' p' => mn == mn' && mx == mx' && p == p'
    | .enumVals va, .enumVals vb => Json.beqList va vb
    | .ref k, .ref k' => k == k'
    | .array ia mna mxa ua, .array ib mnb mxb ub =>
      roughlyX strict f ia ib && (!strict || (mna == mnb && mxa == mxb && ua == ub))
    | .tuple ts, .tuple ts' => listRough (roughlyX strict f) ts ts'
    | .object pa ra da, .object pb rb db =>
      propsRough (roughlyX strict f) pa pb && ra.all (rb.contains ·) && rb.all (ra.contains ·) &&
      (match da, db with
       | .open_, .open_ => true
       | .closed, .closed => true
       | .schema s, .schema t => roughlyX strict f s t
       | _, _ => false)
    | .oneOf xs, .oneOf ys => listRough (roughlyX strict f) xs ys
    | .anyOf xs, .anyOf ys => listRough (roughlyX strict f) xs ys
    | .allOf xs, .allOf ys => listRough (roughlyX strict f) xs ys
    | .not x, .not y => roughlyX strict f x y
    | _, _ => false

def roughGap (fr : Nat) (m s : Schema) : List Gap :=
  if roughlyX true fr m s then [] else [.roughlyArray]

def deref1 (d : Doc) : Schema → Schema
  | .ref k => (d.get k).getD (.ref k)
  | s => s

def enumsDisjoint (va vb : List Json) : Bool := va.all (fun x => !(vb.any (· == x)))

/-- a required member on which both sides declare enumerations without a common value -/
def tagApart (px : List (String × Schema)) (rx : List String) (py : List (String × Schema)) (ry : List String) : Bool :=
  rx.any (fun r => ry.contains r &&
    (match px.find? (fun p => p.1 == r), py.find? (fun p => p.1 == r) with
     | some (_, .enumVals va), some (_, .enumVals vb) => enumsDisjoint va vb
     | _, _ => false))

/-- a member required on one side that the other, closed, side does not declare -/
def closedApart (rx : List String) (py : List (String × Schema)) (dy : Additional Schema) : Bool :=
  isClosed dy && rx.any (fun r => !(py.any (fun p => p.1 == r)))

/-- syntactic sufficient condition for "no instance is valid for both" -/
def apart0 (x y : Schema) : Bool :=
  match x, y with
  | .enumVals va, .enumVals vb => enumsDisjoint va vb
  | .object px rx dx, .object py ry dy => tagApart px rx py ry || closedApart rx py dy || closedApart ry px dx
  | _, _ =>
    match tyOf x, tyOf y with
    | some tx, some ty => disjointTy tx ty
    | _, _ => false

def apart (d : Doc) (x y : Schema) : Bool := apart0 (deref1 d x) (deref1 d y)

def pairwiseApart (d : Doc) : List Schema → Bool
  | [] => true
  | x :: r => r.all (apart d x) && pairwiseApart d r

/-- `try_merge_with_each_subschema`: merge `so` into each branch, drop unsatisfiable ones, keep
    `so` / the branch itself when the merge is roughly that, else `allOf [so, branch, not others..]` -/
def distGo (rec : Schema → Schema → MR) (fr : Nat) (so : Schema) (all : List Schema) :
    Nat → List Schema → Option (List Schema × List Gap)
  | _, [] => some ([], [])
  | i, x :: rest =>
    match rec so x with
    | .unsup => none
    | .never g =>
      match distGo rec fr so all (i + 1) rest with
      | some (bs, g') => some (bs, g ++ g')
      | none => none
    | .ok m g =>
      let br : Schema × List Gap :=
        if roughlyX false fr m so then (so, roughGap fr m so)
        else if roughlyX false fr m x then (x, roughGap fr m x)
        else (.allOf (so :: x :: (all.eraseIdx i).map Schema.not), [])
      match distGo rec fr so all (i + 1) rest with
      | some (bs, g') => some (br.1 :: bs, g ++ br.2 ++ g')
      | none => none

def dist (rec : Schema → Schema → MR) (d : Doc) (fr : Nat) (so : Schema) (xs : List Schema) (one : Bool) : MR :=
  match distGo rec fr so xs 0 xs with
  | none => .unsup
  | some (bs, g) =>
    let g' := g ++ (if decide (xs.length ≤ 1) || pairwiseApart d xs then [] else [Gap.overlap])
    match bs with
    | [] => .never g'
    | [b] => .ok b g'
    | _ => .ok (if one then .oneOf bs else .anyOf bs) g'

/-- `try_merge_with_subschemas` for a subschema-only right-hand side -/
def withSub (rec : Schema → Schema → MR) (d : Doc) (fr : Nat) (so sub : Schema) : MR :=
  match sub with
  | .allOf xs => foldMerge rec so xs
  | .not n => mergeNot rec so n
  | .anyOf xs => dist rec d fr so xs false
  | .oneOf xs => dist rec d fr so xs true
  | _ => .ok so []

def bodyOf (a : Schema) : Schema := if isSub a then .any else a

/-- `merge_schema_object` -/
def mergeObj (te : Bool) (rec : Schema → Schema → MR) (d : Doc) (fr : Nat) (a b : Schema) : MR :=
  match mergeBody te rec (bodyOf a) (bodyOf b) with
  | .unsup => .unsup
  | .never g => .never g
  | .ok m0 g0 =>
    match (if isSub a then withSub rec d fr m0 a else .ok m0 []) with
    | .unsup => .unsup
    | .never g => .never (g0 ++ g)
    | .ok m1 g1 =>
      ((if isSub b then withSub rec d fr m1 b else .ok m1 []) : MR).addGaps (g0 ++ g1)

/-- the `$ref` arm of `try_merge_schema` (merge.rs:110-139) -/
def refArm (rec : Schema → Schema → MR) (d : Doc) (fr : Nat) (k : String) (other : Schema) : MR :=
  match d.get k with
  | none => .unsup
  | some r =>
    match rec r other with
    | .ok m g => if roughlyX false fr m r then .ok (.ref k) (g ++ roughGap fr m r) else .ok m g
    | .never g => .never g
    | .unsup => .unsup

/-- merge.rs `try_merge_schema`; fuel bounds `$ref` resolution and the recursion through merged parts -/
def tryMerge (te : Bool) (d : Doc) : Nat → Schema → Schema → MR
  | 0, _, _ => .unsup
  | f + 1, a, b =>
    if isNever a || isNever b then .never [] else
    match a with
    | .ref ka =>
      (match b with
       | .ref kb => if ka == kb then .ok (.ref ka) [] else refArm (tryMerge te d f) d f ka b
       | _ => refArm (tryMerge te d f) d f ka b)
    | _ =>
      match b with
      | .ref kb => refArm (tryMerge te d f) d f kb a
      | _ => mergeObj te (tryMerge te d f) d f a b

/-- merge.rs `try_merge_all` (an empty list panics) -/
def mergeAllFrom (te : Bool) (d : Doc) (f : Nat) : Schema → List Schema → MR
  | acc, [] => .ok acc []
  | acc, x :: r =>
    match tryMerge te d f acc x with
    | .ok m g => (mergeAllFrom te d f m r).addGaps g
    | .never g => .never g
    | .unsup => .unsup

def mergeAll (te : Bool) (d : Doc) (f : Nat) : List Schema → MR
  | [] => .unsup
  | x :: r => mergeAllFrom te d f x r

def MR.gaps : MR → List Gap
  | .ok _ g => g
  | .never g => g
  | .unsup => []

def MR.isUnsup : MR → Bool
  | .unsup => true
  | _ => false

/-- the fragment: the model has an answer (merge.rs neither panics nor leaves the modelled shapes) -/
def InMerge (te : Bool) (d : Doc) (f : Nat) (a b : Schema) : Bool := !(tryMerge te d f a b).isUnsup

/-- the named hypothesis of the `_partial` theorems: the run went through none of the defective arms -/
def GapFree (te : Bool) (d : Doc) (f : Nat) (a b : Schema) : Bool := (tryMerge te d f a b).gaps.isEmpty

def InMergeAll (te : Bool) (d : Doc) (f : Nat) (xs : List Schema) : Bool := !(mergeAll te d f xs).isUnsup
def GapFreeAll (te : Bool) (d : Doc) (f : Nat) (xs : List Schema) : Bool := (mergeAll te d f xs).gaps.isEmpty

end TypifyModel.Merge

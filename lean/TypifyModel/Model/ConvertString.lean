import TypifyModel.Model.Natives
/-! `convert_string` (convert.rs): which entry a string schema gets. The format table is the regenerated T2
    (`Generated/StringFormats.lean`); the shape of the function — validation keywords are looked at ONLY when no
    `format` is present, a pattern is compiled with `regress` first, the `uses_` flags — is modelled here by hand and tied
    to the code by the M0 correspondence of `./check C10` over the whole keyword lattice. -/
namespace TypifyModel.ConvertString
open TypifyModel

structure StrSchema where
  fmt : Option String := none
  minLen : Option Nat := none
  maxLen : Option Nat := none
  pattern : Option String := none
deriving Repr, DecidableEq, Inhabited

inductive Out where
  | plain                                                        -- `String`
  | constrained (max min : Option Nat) (pat : Option String)     -- newtype over `String` with checks (IR order: max, min)
  | native (path : String) (impls : List String)
  | invalidPattern                                               -- `Error::InvalidSchema` (the pattern does not compile)
deriving Repr, DecidableEq, Inhabited

structure Res where
  out : Out
  uses : List String
deriving Repr, DecidableEq, Inhabited

/-- `patOk p` = `regress::Regex::new(p).is_ok()` (third party: a parameter) -/
def convertString (tbl : List StrFormatRow) (fallback : StrFormatRow) (patOk : String → Bool) (s : StrSchema) : Res :=
  match s.fmt with
  | none =>
    if s.minLen.isNone && s.maxLen.isNone && s.pattern.isNone then ⟨.plain, []⟩
    else
      (match s.pattern with
       | some p => if patOk p then ⟨.constrained s.maxLen s.minLen (some p), ["regress"]⟩ else ⟨.invalidPattern, []⟩
       | none => ⟨.constrained s.maxLen s.minLen none, []⟩)
  | some f =>
    let r := selectStringFormat tbl fallback f
    if r.path == "String" then ⟨.plain, r.uses⟩ else ⟨.native r.path r.impls, r.uses⟩

end TypifyModel.ConvertString

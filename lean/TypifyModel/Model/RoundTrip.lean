import TypifyModel.Model.SerdeSer
/-! Decidable well-formedness of an IR for the round-trip theorems (C03): the side conditions under
    which `de (se x) = x` holds in the Serde model. Each conjunct names a real phenomenon of serde
    (e.g. `Some(())` serialises to `null` and reads back as `None`). Evaluated by the driver on
    every real IR dump. -/
namespace TypifyModel.RoundTrip
open TypifyModel TypifyModel.Serde

/-- no value of the type serialises to `null` -/
def nonNullB (σ : Space) : Nat → Id → Bool
  | 0, _ => false
  | f + 1, t =>
    match σ.get t with
    | some ent =>
      (match ent.details with
       | .boolean | .integer _ | .float _ | .string => true
       | .vec _ | .set _ | .array _ _ | .tuple _ | .map _ _ | .struct .. => true
       | .box t' => nonNullB σ f t'
       | .newtype _ t' _ _ => nonNullB σ f t'
       | .enum _ tag _ _ _ _ => (match tag with | .untagged => false | _ => true)
       | _ => false)
    | none => false

def nodupB : List String → Bool
  | [] => true
  | a :: r => !r.contains a && nodupB r

/-- a missing member whose state is `optional` takes `Default::default()`; the types for which that
    value provably reads back (skipped containers, and scalars) -/
def optionalOkB (σ : Space) (t : Id) : Bool :=
  match σ.get t with
  | some ent =>
    (match ent.details with
     | .option _ | .vec _ | .map _ _ => true
     | .boolean | .float _ | .string | .unit => true
     | .integer name => (match rtyOfName name with | some ty => !ty.isNonZero | none => false)
     | _ => false)
  | none => false

def fieldsOkB (σ : Space) (ps : List Field) : Bool :=
  !hasFlatten ps && nodupB (ps.map (·.wire)) &&
  ps.all (fun p => match p.state with
    | .required => !optionLikeT σ p.ty
    | .optional => optionalOkB σ p.ty
    | .dflt _ => true)

/-- `additionalProperties: <schema>` as typify renders it: the named members, then ONE flattened member (`extra`, state
    `required`), a map with plain string keys -/
def fieldsOkFlatB (σ : Space) (ps : List Field) : Bool :=
  match ps.getLast? with
  | some e =>
    e.rename == .flatten && (match e.state with | .required => true | _ => false) &&
    (match σ.get e.ty with
     | some ⟨.map k _, _, _⟩ => (match σ.get k with | some ⟨.string, _, _⟩ => true | _ => false)
     | _ => false) &&
    fieldsOkB σ ps.dropLast
  | none => false

def variantOkB (σ : Space) (tag : Tag) (v : Variant) : Bool :=
  match v.details with
  | .simple => true
  | .item t' => (match tag with | .internal _ => false | .adjacent _ _ => !optionLikeT σ t' | _ => true)
  | .tuple _ => (match tag with | .internal _ => false | _ => true)
  | .struct ps =>
    fieldsOkB σ ps &&
    (match tag with
     | .internal tg => ps.all (fun p => p.wire != tg)
     | _ => true)

/-- per-entry condition -/
def entryOkB (σ : Space) (ent : Entry) : Bool :=
  match ent.details with
  | .struct _ ps _ _ => fieldsOkB σ ps || fieldsOkFlatB σ ps
  | .option t' =>
    (match σ.get t' with
     | some ⟨.option _, _, _⟩ => true
     | _ => nonNullB σ (σ.entries.length + 1) t')
  | .enum _ tag vs _ _ _ =>
    nodupB (vs.map (·.wire)) &&
    (match tag with
     | .untagged => false
     | .adjacent tg ct => tg != ct
     | _ => true) &&
    vs.all (variantOkB σ tag)
  | .map k _ => (match σ.get k with | some ⟨.string, _, _⟩ => true | _ => false)
  | .native _ _ | .reference _ => false
  | _ => true

/-- the ids an entry refers to -/
def fieldIds (ps : List Field) : List Id := ps.map (·.ty)

def variantIds (v : Variant) : List Id :=
  match v.details with
  | .simple => []
  | .item t => [t]
  | .tuple ts => ts
  | .struct ps => fieldIds ps

def childrenOf : Details → List Id
  | .enum _ _ vs _ _ _ => (vs.map variantIds).flatten
  | .struct _ ps _ _ => fieldIds ps
  | .newtype _ t _ _ => [t]
  | .native _ ps => ps
  | .option t | .box t | .vec t | .set t | .array t _ | .reference t => [t]
  | .map k v => [k, v]
  | .tuple ts => ts
  | _ => []

/-- `S` is a set of type ids closed under reference, all of whose entries satisfy `entryOkB` -/
def closedOkB (σ : Space) (S : List Id) : Bool :=
  S.all (fun t => match σ.get t with
    | some ent => entryOkB σ ent && (childrenOf ent.details).all (S.contains ·)
    | none => true)

/-- the whole space is round-trip well-formed -/
def rtB (σ : Space) : Bool := σ.entries.all (fun e => entryOkB σ e.2)

end TypifyModel.RoundTrip

import TypifyModel.Model.StrConv
import TypifyModel.Model.Names
/-! What `to_stream()` emits for an IR, as an item-level summary (type_entry.rs:704-1664,
    structs.rs `generate_serde_attr`, enums.rs `output_variant`, output.rs). The summary is the
    projection of the token stream that properties C19/C17/C05/C14/C01 talk about: item names,
    visibility, derives, serde attributes, field/variant names and types, impl headers. It is
    compared item by item with a `syn` parse of the real output (correspondence M2). -/
namespace TypifyModel.Render
open TypifyModel

structure DeriveTables where
  base : List String
  simpleEnum : List String
  strNewtype : List String
deriving Repr

structure Settings where
  extraDerives : List String := []
  structBuilder : Bool := false
  mapType : String := "::std::collections::HashMap"
  sharedDefaults : List String := []     -- `TypeSpace.defaults` (generic default fns in use)
deriving Repr, Inhabited

/-- `#[serde(..)]` arguments typify puts on a struct member -/
inductive SerdeArg where
  | rename (s : String)
  | flatten
  | default                         -- `default`
  | defaultFn (path : String)       -- `default = "defaults::…"`
  | skipIf (path : String)          -- `skip_serializing_if = "…"`
  | panics                          -- typify panics while rendering the default (defaults.rs:348/361)
deriving Repr, DecidableEq, Inhabited

def quoteStr' (s : String) : String := "\"" ++ s ++ "\""

def SerdeArg.render : SerdeArg → String
  | .rename s => "rename=" ++ quoteStr' s
  | .flatten => "flatten"
  | .default => "default"
  | .defaultFn p => "default=" ++ quoteStr' p
  | .skipIf p => "skip_serializing_if=" ++ quoteStr' p
  | .panics => "default=<panic>"

structure FieldS where
  name : String
  isPub : Bool
  ty : String
  serde : List SerdeArg
deriving Repr, Inhabited

structure VariantS where
  name : String
  serde : List String
  kind : String
  tys : List String
  fields : List FieldS
deriving Repr, Inhabited

/-- impl blocks typify emits next to an item -/
inductive ImplK where
  | fromRef                      -- `impl From<&Self> for T`
  | default
  | display
  | fromStr
  | tryFromStr (arg : String)    -- `TryFrom<&str>` etc., argument as spelled in the template
  | deserialize                  -- hand-written `impl<'de> Deserialize<'de>`
  | deref
  | fromInner (ty : String)      -- `impl From<Inner> for T`   (unconstrained newtypes only)
  | tryFromInner (ty : String)   -- `impl TryFrom<Inner> for T` (enum / deny constrained newtypes)
  | intoInner (ty : String)      -- `impl From<T> for Inner`
  | fromVariant (ty : String)    -- `impl From<VariantType> for Enum`
  | builderFn                    -- `impl T { pub fn builder() }`
deriving Repr, DecidableEq, Inhabited

def ImplK.render (name : String) : ImplK → String
  | .fromRef => "From<&Self>"
  | .default => "Default"
  | .display => "Display"
  | .fromStr => "FromStr"
  | .tryFromStr a => "TryFrom<" ++ a ++ ">"
  | .deserialize => "Deserialize<'de>"
  | .deref => "Deref"
  | .fromInner ty => "From<" ++ ty ++ ">"
  | .tryFromInner ty => "TryFrom<" ++ ty ++ ">"
  | .intoInner ty => "for:" ++ ty ++ ":From<" ++ name ++ ">"
  | .fromVariant ty => "From<" ++ ty ++ ">"
  | .builderFn => "inherent:builder"

structure ItemS where
  name : String
  kind : String
  isPub : Bool
  derives : List String
  serde : List String
  fields : List FieldS
  variants : List VariantS
  impls : List ImplK
  displayArms : Option (List (String × String)) := none
  fromstrArms : Option (List (String × String)) := none
deriving Repr, Inhabited

structure Summary where
  items : List ItemS
  builders : List String
  defaultFns : List String
deriving Repr, Inhabited

/-- sorted, duplicate-free insertion (BTreeSet<&str>) -/
def insertSet (s : String) : List String → List String
  | [] => [s]
  | a :: r => if s < a then s :: a :: r else if s = a then a :: r else a :: insertSet s r

def toSet (l : List String) : List String := l.foldl (fun acc s => insertSet s acc) []

def commaSep : List String → String
  | [] => ""
  | [a] => a
  | a :: r => a ++ "," ++ commaSep r

/-- `type_ident` with no module prefix, whitespace-free -/
def typeIdent (st : Settings) (σ : Space) : Nat → Id → String
  | 0, _ => "?"
  | f + 1, t =>
    match σ.get t with
    | none => "?"
    | some ent =>
      match ent.details with
      | .enum n .. | .struct n .. | .newtype n .. => n
      | .option t' =>
        (match σ.get t' with
         | some ⟨.option _, _, _⟩ => typeIdent st σ f t'
         | _ => "::std::option::Option<" ++ typeIdent st σ f t' ++ ">")
      | .box t' => "::std::boxed::Box<" ++ typeIdent st σ f t' ++ ">"
      | .vec t' => "::std::vec::Vec<" ++ typeIdent st σ f t' ++ ">"
      | .set t' => "Vec<" ++ typeIdent st σ f t' ++ ">"
      | .map k v =>
        (match σ.get k, σ.get v with
         | some ⟨.string, _, _⟩, some ⟨.jsonValue, _, _⟩ =>
           "::serde_json::Map<::std::string::String,::serde_json::Value>"
         | _, _ => st.mapType ++ "<" ++ typeIdent st σ f k ++ "," ++ typeIdent st σ f v ++ ">")
      | .tuple ts =>
        (match ts with
         | [a] => "(" ++ typeIdent st σ f a ++ ",)"
         | _ => "(" ++ commaSep (ts.map (typeIdent st σ f)) ++ ")")
      | .array t' n => "[" ++ typeIdent st σ f t' ++ ";" ++ toString n ++ "usize]"
      | .native name ps =>
        if ps.isEmpty then name
        else name ++ "<" ++ commaSep (ps.map (typeIdent st σ f)) ++ ">"   -- (the emitted trailing comma is normalised away)
      | .unit => "()"
      | .string => "::std::string::String"
      | .boolean => "bool"
      | .jsonValue => "::serde_json::Value"
      | .integer n | .float n => n
      | .reference _ => "?"

def quoteStr (s : String) : String := "\"" ++ s ++ "\""

def nonZeroPrefix : String := "::std::num::NonZero"

/-- name of the function `#[serde(default = "…")]` points at, and whether a custom fn item with that
    name is added to `mod defaults` (defaults.rs `default_fn`); `none` = typify panics -/
def defaultFn (σ : Space) (typeName propName : String) (ty : Id) (d : Json) : Option (String × Option String) :=
  match σ.get ty with
  | some ⟨.boolean, _, _⟩ => some ("defaults::default_bool::<true>", none)
  | some ⟨.integer n, _, _⟩ =>
    (match d with
     | .int v =>
       if 0 ≤ v ∧ v ≤ 18446744073709551615 then
         if n.startsWith nonZeroPrefix then some ("defaults::default_nzu64::<" ++ n ++ ", " ++ toString v ++ ">", none)
         else some ("defaults::default_u64::<" ++ n ++ ", " ++ toString v ++ ">", none)
       else if -9223372036854775808 ≤ v then some ("defaults::default_i64::<" ++ n ++ ", " ++ toString v ++ ">", none)
       else none
     | _ => none)
  | some _ =>
    let fn := String.ofList (Names.sanitize (typeName ++ "_" ++ propName).toList .snake)
    some ("defaults::" ++ fn, some fn)
  | none => none

/-- serde arguments of a struct member and the custom default fn it adds (structs.rs:336-418) -/
def fieldSerde (st : Settings) (σ : Space) (typeName : String) (p : Field) : List SerdeArg × Option String :=
  let naming : List SerdeArg := match p.rename with
    | .rename s => [.rename s]
    | .flatten => [.flatten]
    | .none => []
  match p.state with
  | .required => (naming, none)
  | .optional =>
    (match σ.get p.ty with
     | some ⟨.option _, _, _⟩ => (naming ++ [.default, .skipIf "::std::option::Option::is_none"], none)
     | some ⟨.vec _, _, _⟩ => (naming ++ [.default, .skipIf "::std::vec::Vec::is_empty"], none)
     | some ⟨.map k v, _, _⟩ =>
       (match σ.get k, σ.get v with
        | some ⟨.string, _, _⟩, some ⟨.jsonValue, _, _⟩ =>
          (naming ++ [.default, .skipIf "::serde_json::Map::is_empty"], none)
        | _, _ => (naming ++ [.default, .skipIf (st.mapType ++ "::is_empty")], none))
     | _ => (naming ++ [.default], none))
  | .dflt d =>
    match defaultFn σ typeName p.name p.ty d with
    | some (fn, custom) => (naming ++ [.defaultFn fn], custom)
    | none => (naming ++ [.panics], none)

def fuel : Nat := 64

def fieldS (st : Settings) (σ : Space) (typeName : String) (isPub : Bool) (p : Field) : FieldS × Option String :=
  let (sd, c) := fieldSerde st σ typeName p
  (⟨p.name, isPub, typeIdent st σ fuel p.ty, sd⟩, c)

def hasImpl (σ : Space) (t : Id) (i : Impl) : Bool :=
  match σ.get t with
  | some e => e.impls.contains i
  | none => false

def strTryFroms : List ImplK :=
  [.tryFromStr "&str", .tryFromStr "&::std::string::String", .tryFromStr "::std::string::String"]

def allSimple (vs : List Variant) : Bool :=
  vs.all (fun v => match v.details with | .simple => true | _ => false)

/-- the key `convenience_from` groups variants by -/
def variantKey (v : Variant) : Option (List Id) :=
  match v.details with
  | .item t => some [t]
  | .tuple ts => some ts
  | _ => none

def convenienceFrom (st : Settings) (σ : Space) (vs : List Variant) : List ImplK :=
  vs.filterMap fun v =>
    match variantKey v with
    | none => none
    | some k =>
      if (vs.filter (fun w => variantKey w == some k)).length ≠ 1 then none else
      match v.details with
      | .item t =>
        (match σ.get t with
         | some ⟨.string, _, _⟩ => none
         | _ => some (.fromVariant (typeIdent st σ fuel t)))
      | .tuple ts =>
        (match ts with
         | [a] => some (.fromVariant ("(" ++ typeIdent st σ fuel a ++ ",)"))
         | _ => some (.fromVariant ("(" ++ commaSep (ts.map (typeIdent st σ fuel)) ++ ")")))
      | _ => none

def variantS (st : Settings) (σ : Space) (enumName : String) (v : Variant) : VariantS × List String :=
  let sd := if v.rawName ≠ v.identName then ["rename=" ++ quoteStr v.rawName] else []
  match v.details with
  | .simple => (⟨v.identName, sd, "unit", [], []⟩, [])
  | .item t => (⟨v.identName, sd, "tuple", [typeIdent st σ fuel t], []⟩, [])
  | .tuple ts =>
    (match ts with
     | [a] => (⟨v.identName, sd, "tuple", ["(" ++ typeIdent st σ fuel a ++ ",)"], []⟩, [])
     | _ => (⟨v.identName, sd, "tuple", ts.map (typeIdent st σ fuel), []⟩, []))
  | .struct ps =>
    let fs := ps.map (fieldS st σ (enumName ++ v.identName) false)
    (⟨v.identName, sd, "struct", [], fs.map (·.1)⟩, fs.filterMap (·.2))

def isStrInner (σ : Space) (inner : Id) : Bool :=
  match σ.get inner with
  | some ⟨.string, _, _⟩ => true
  | _ => false

def isConstrained : Constraints → Bool
  | .none => false
  | _ => true

/-- derive set of a newtype before user additions (type_entry.rs:1356, 1464, 1548) -/
def newtypeDerives (tb : DeriveTables) (isStr constrained : Bool) : List String :=
  if constrained then (tb.base ++ (if isStr then tb.strNewtype else [])).filter (· ≠ "::serde::Deserialize")
  else tb.base ++ (if isStr then tb.strNewtype else [])

/-- one named entry → its item summary and the custom default fns it adds -/
def itemOf (tb : DeriveTables) (st : Settings) (σ : Space) (ent : Entry) : Option (ItemS × List String) :=
  match ent.details with
  | .struct name props deny dflt =>
    let fs := props.map (fieldS st σ name true)
    let derives := toSet (tb.base ++ st.extraDerives ++ ent.extraDerives)
    let serde := (if deny then ["deny_unknown_fields"] else [])
    let hasDefault := dflt.isSome || props.all hasDefaultAttr'
    let impls := [ImplK.fromRef] ++ (if hasDefault then [.default] else []) ++
      (if st.structBuilder then [.builderFn] else [])
    some (⟨name, "struct", true, derives, serde, fs.map (·.1), [], impls, none, none⟩, fs.filterMap (·.2))
  | .enum name tag variants deny dflt bespoke =>
    let vs := variants.map (variantS st σ name)
    let derives := toSet (tb.base ++ (if allSimple variants then tb.simpleEnum else []) ++
      st.extraDerives ++ ent.extraDerives)
    let serde :=
      (match tag with
       | .external => []
       | .internal t => ["tag=" ++ quoteStr t]
       | .adjacent t c => ["tag=" ++ quoteStr t, "content=" ++ quoteStr c]
       | .untagged => ["untagged"]) ++ (if deny then ["deny_unknown_fields"] else [])
    let simple := bespoke.contains .allSimpleVariants
    let impls := [ImplK.fromRef] ++
      (if simple then [.display, .fromStr] ++ strTryFroms else []) ++
      (if dflt.isSome then [.default] else []) ++
      (if bespoke.contains .untaggedFromStr then [.fromStr] ++ strTryFroms else []) ++
      (if bespoke.contains .untaggedDisplay then [.display] else []) ++
      convenienceFrom st σ variants
    let dArms := if simple then
        some (variants.map fun v => (v.identName, String.ofList (Serde.escapeBraces v.rawName.toList))) else none
    let fArms := if simple then some (variants.map fun v => (v.rawName, v.identName)) else none
    some (⟨name, "enum", true, derives, serde, [], vs.map (·.1), impls, dArms, fArms⟩,
      (vs.map (·.2)).flatten)
  | .newtype name inner c dflt =>
    let isStr := isStrInner σ inner
    let constrained := isConstrained c
    let derives := toSet (newtypeDerives tb isStr constrained ++ st.extraDerives ++ ent.extraDerives)
    let innerTy := typeIdent st σ fuel inner
    let cImpls :=
      match c with
      | .none =>
        [ImplK.fromInner innerTy] ++ (if isStr then [.fromStr] else []) ++
        (if hasImpl σ inner .fromStr && !isStr then
          [.fromStr, .tryFromStr "&str", .tryFromStr "&String", .tryFromStr "String"] else []) ++
        (if hasImpl σ inner .display then [.display] else [])
      | .enumValues _ | .denyValues _ => [.tryFromInner innerTy, .deserialize]
      | .string .. => [ImplK.fromStr] ++ strTryFroms ++ [.deserialize]
    let impls := [ImplK.deref, .intoInner innerTy, .fromRef] ++
      (if dflt.isSome then [.default] else []) ++ cImpls
    some (⟨name, "newtype", true, derives, ["transparent"], [⟨"0", !constrained, innerTy, []⟩], [],
      impls, none, none⟩, [])
  | _ => none
where
  hasDefaultAttr' (p : Field) : Bool := match p.state with | .required => false | _ => true

def sharedFnName (s : String) : String :=
  if s = "Boolean" then "default_bool" else if s = "I64" then "default_i64"
  else if s = "U64" then "default_u64" else if s = "NZU64" then "default_nzu64" else s

/-- `to_stream()`, summarised -/
def render (tb : DeriveTables) (st : Settings) (σ : Space) : Summary :=
  let its := σ.entries.filterMap (fun e => itemOf tb st σ e.2)
  let items := its.map (·.1)
  let builders := if st.structBuilder then
      toSet (items.filterMap fun i => if i.kind = "struct" then some i.name else none) else []
  { items := items
    builders := builders
    defaultFns := toSet ((its.map (·.2)).flatten ++ st.sharedDefaults.map sharedFnName) }

end TypifyModel.Render

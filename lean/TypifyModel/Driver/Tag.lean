import TypifyModel.Model.Tagging
import TypifyModel.Driver.JsonText
/-! Driver glue for slice `tag`: `{"comb": "oneOf" | "anyOf", "defs": {..}, "schemas": [..]}` → `Tagging.oneOf` / `Tagging.anyOf` →
    one JSON document describing the shape (compared, as JSON, with what the real `TypeSpace` built: harness `tvh_tag`). -/
namespace TypifyModel.Driver.Tag
open TypifyModel TypifyModel.Tagging

/-- the wire names of the members `struct_members` makes fields of: declared members whose schema is not `false`, plus required
    names without a declaration -/
def fieldNames (ps : Excl.Kvs) (rq : List String) : List String :=
  let declared := (ps.filter (fun kv => match kv.2 with | .bool false => false | _ => true)).map (·.1)
  let extra := rq.filter (fun r => !(Excl.has ps r))
  declared ++ extra

def insertS (k : String) : List String → List String
  | [] => [k]
  | a :: r => if k < a then k :: a :: r else if k == a then a :: r else a :: insertS k r
def sortS (l : List String) : List String := l.foldl (fun acc k => insertS k acc) []

def payloadJ : Payload → Json
  | .unit => .str "unit"
  | .schema s => if isNullTy s then .str "unit" else .str "value"
  | .fields ps rq => .arr ((sortS (fieldNames ps rq)).map Json.str)

def varsJ (vs : List Var) : Json := .arr (vs.map (fun v => .obj [("name", .str v.name), ("payload", payloadJ v.payload)]))

def shapeJ : Shape → Json
  | .option _ => .obj [("shape", .str "option")]
  | .external vs => .obj [("shape", .str "external"), ("variants", varsJ vs)]
  | .adjacent t c vs => .obj [("shape", .str "adjacent"), ("tag", .str t), ("content", .str c), ("variants", varsJ vs)]
  | .internal t d vs => .obj [("shape", .str "internal"), ("tag", .str t), ("deny", .bool d), ("variants", varsJ vs)]
  | .singleton _ => .obj [("shape", .str "singleton")]
  | .untagged n => .obj [("shape", .str "untagged"), ("n", .int n)]
  | .flattened n => .obj [("shape", .str "flattened"), ("n", .int n)]
  | .panic => .obj [("shape", .str "panic")]
  | .unknown => .obj [("shape", .str "unknown")]

def handle (line : String) : String :=
  match parseJson line with
  | some (.obj kvs) =>
    (match Json.lookup kvs "schemas", Json.lookup kvs "comb" with
     | some (.arr ss), some (.str comb) =>
       let defs := match Json.lookup kvs "defs" with | some (.obj d) => d | _ => []
       if comb == "oneOf" then renderJson (shapeJ (Tagging.oneOf 64 ss))
       else if comb == "anyOf" then renderJson (shapeJ (Tagging.anyOf 64 defs ss))
       else "badrequest"
     | _, _ => "badrequest")
  | _ => "badrequest"

end TypifyModel.Driver.Tag

import Lean.Data.Json
import TypifyModel.Model.Names
/-! Driver glue for slice `c08`: `<kind> [snake|pascal] <json>` → the model's answer.
    Strings with a non-ASCII character are outside the model's domain: `unsupported`. -/
namespace TypifyModel.Driver.C08
open Lean TypifyModel TypifyModel.Names

def jstr (s : Str) : Json := Json.str (String.ofList s)
def jopt : Option Str → Json
  | none => Json.null
  | some s => jstr s
def jrendered (r : Rendered) : Json := Json.arr #[jstr r.1, jopt r.2]

def asciiB (s : Str) : Bool := s.all (fun c => c.toNat < 128)

def getStr (j : Json) : Option Str :=
  match j.getStr? with
  | .ok s => if asciiB s.toList then some s.toList else none
  | .error _ => none

def getList (j : Json) : Option (List Str) :=
  match j.getArr? with
  | .ok a => a.toList.mapM getStr
  | .error _ => none

def ok (j : Json) : String := "ok " ++ j.compress

/-- `serde_json::Map` / schemars `Map` (both `BTreeMap`): keys unique, iterated in `str` order -/
def sortedKeys (l : List Str) : List Str :=
  (l.mergeSort strLe).eraseDups

def parseCase (s : String) : Option Case :=
  if s == "snake" then some .snake else if s == "pascal" then some .pascal else none

def splitFirst (s : String) : String × String :=
  let cs := s.toList
  (String.ofList (cs.takeWhile (· != ' ')), String.ofList ((cs.dropWhile (· != ' ')).drop 1))

def answer (kind : String) (case : Option Case) (j : Json) : Option String :=
  match kind, case with
  | "snake", none => (getStr j).map fun s => ok (jstr (toSnake s))
  | "pascal", none => (getStr j).map fun s => ok (jstr (toPascal s))
  | "sanitize", some c => (getStr j).map fun s => ok (jstr (sanitize s c))
  | "recase", some c => (getStr j).map fun s => ok (jrendered (recase s c))
  | "isident", none => (getStr j).map fun s => ok (Json.bool (isRustIdent s))
  | "xpass", none => (getStr j).map fun s => ok (jstr (replX s))
  | "variants", none => (getList j).map fun l =>
      -- convert_enum_string: `variants.is_empty()` → Err(InvalidSchema "empty enum array")
      if l.isEmpty then "err InvalidSchema" else
      match variantNames l with
      | .panic => "panic"
      | .ok names => ok (Json.arr ((renderVariants l names).map jrendered).toArray)
  | "props", none => (getList j).map fun l =>
      ok (Json.arr ((structFields (sortedKeys l)).map jrendered).toArray)
  | "propsx", none => (getList j).map fun l =>
      ok (Json.arr (((structFields (sortedKeys l)).map jrendered) ++
        [Json.arr #[jstr extraIdent, Json.mkObj [("flatten", Json.bool true)]]]).toArray)
  | "defs", none => (getList j).map fun l =>
      ok (Json.arr #[Json.arr ((defNames l).map jstr).toArray, Json.num l.length])
  | _, _ => none

def handle (line : String) : String :=
  let (kind, rest) := splitFirst line
  let (case, rest) :=
    if kind == "sanitize" || kind == "recase" then
      let (c, r) := splitFirst rest
      (parseCase c, r)
    else (none, rest)
  match Json.parse rest with
  | .error _ => "unsupported"
  | .ok j => (answer kind case j).getD "unsupported"

end TypifyModel.Driver.C08

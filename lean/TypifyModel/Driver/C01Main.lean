import TypifyModel.Driver.Loop
import TypifyModel.Driver.C01
def main : IO UInt32 := TypifyModel.Driver.runLoop TypifyModel.Driver.C01.handle

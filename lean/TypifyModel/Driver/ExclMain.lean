import TypifyModel.Driver.Loop
import TypifyModel.Driver.Excl
def main : IO UInt32 := TypifyModel.Driver.runLoop TypifyModel.Driver.Excl.handle

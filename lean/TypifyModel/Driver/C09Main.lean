import TypifyModel.Driver.Loop
import TypifyModel.Driver.C09
def main : IO UInt32 := TypifyModel.Driver.runLoop TypifyModel.Driver.C09.handle

import TypifyModel.Model.WireEq
import TypifyModel.Driver.IrJson
/-! `drv_c04`: translation validation for C04. Lines:
    `pair <name> {"origin": <dump>, "generated": <dump>}` registers two IRs;
    `wire <name> <T> <T'>` evaluates `WireEq.wireB` on the pair of type ids (and says where it fails). -/
namespace TypifyModel.Driver.C04
open TypifyModel TypifyModel.Serde TypifyModel.WireEq TypifyModel.Driver

structure St where
  pairs : List (String × Space × Space) := []

def fuel : Nat := 64

def splitN (s : String) (n : Nat) : List String :=
  let rec go (cs : List Char) (n : Nat) (cur : List Char) (acc : List String) : List String :=
    match n, cs with
    | 0, _ => (String.ofList cs :: acc).reverse
    | _, [] => (String.ofList cur.reverse :: acc).reverse
    | n + 1, ' ' :: r => go r n [] (String.ofList cur.reverse :: acc)
    | n + 1, c :: r => go r (n + 1) (c :: cur) acc
  go s.toList n [] []

def kindOf (σ : Space) (t : Id) : String :=
  match σ.get t with
  | none => "missing"
  | some e =>
    match e.details with
    | .enum n .. => "enum " ++ n | .struct n .. => "struct " ++ n | .newtype n .. => "newtype " ++ n
    | .native n _ => "native " ++ n | .option _ => "option" | .box _ => "box" | .vec _ => "vec" | .map _ _ => "map"
    | .set _ => "set" | .array _ n => s!"array {n}" | .tuple ts => s!"tuple {ts.length}" | .unit => "unit" | .boolean => "bool"
    | .integer n => "int " ++ n | .float n => "float " ++ n | .string => "string" | .jsonValue => "json"
    | .reference _ => "reference"

/-- first failing sub-pair of `accB` (diagnostics only; mirrors the definition) -/
partial def whyFields (why : Id → Id → Option String) (σa σb : Space) (pa pb : List Field) : Option String :=
  if hasFlatten pa || hasFlatten pb then some "flatten" else
  if !nodupB (pa.map (·.wire)) || !nodupB (pb.map (·.wire)) then some "duplicate wire names" else
  match pa.findSome? (fun p =>
      match pb.find? (fun q => q.wire == p.wire) with
      | some q => (why p.ty q.ty).map (fun m => s!"member {p.wire}: {m}")
      | none => some s!"member {p.wire}: unknown to the reader") with
  | some m => some m
  | none =>
    pb.findSome? (fun q =>
      if toleratesMissing σb q then none else
      match pa.find? (fun p => p.wire == q.wire) with
      | some p => if maySkip σa p then some s!"member {q.wire}: the writer may skip it, the reader requires it" else none
      | none => some s!"member {q.wire}: required by the reader, not written")

partial def whyVd (why : Id → Id → Option String) (σa σb : Space) (da db : VDetails) : Option String :=
  match da, db with
  | .simple, .simple => none
  | .item a, .item b => why a b
  | .tuple as, .tuple bs => if as.length != bs.length then some "tuple arity" else (as.zip bs).findSome? (fun p => why p.1 p.2)
  | .struct pa, .struct pb => whyFields why σa σb pa pb
  | _, _ => some "variant kinds differ"

partial def why (σa σb : Space) (ρ : List (Id × Id)) (vis : List (Id × Id)) (f : Nat) (A B : Id) : Option String :=
  if accB σa σb ρ f A B then none else
  match f with
  | 0 => some "fuel"
  | f + 1 =>
  match σa.get A, σb.get B with
  | some ea, some eb =>
    (match ea.details with
     | .box A' => why σa σb ρ vis f A' B
     | .newtype _ A' .none _ => why σa σb ρ vis f A' B
     | da =>
       match eb.details with
       | .box B' => why σa σb ρ vis f A B'
       | .newtype _ B' .none _ => why σa σb ρ vis f A B'
       | db =>
         let here := s!"{kindOf σa A} vs {kindOf σb B}"
         match da, db with
         | .option a', .option b' => (why σa σb ρ vis f a' b').orElse (fun _ => some (here ++ " (nested option)"))
         | .vec a', .vec b' | .vec a', .set b' | .set a', .vec b' | .set a', .set b' => why σa σb ρ vis f a' b'
         | .array a' _, .array b' _ => (why σa σb ρ vis f a' b').orElse (fun _ => some here)
         | .tuple as, .tuple bs => if as.length != bs.length then some here else (as.zip bs).findSome? (fun p => why σa σb ρ vis f p.1 p.2)
         | .map _ va, .map _ vb => (why σa σb ρ vis f va vb).orElse (fun _ => some (here ++ " (key type)"))
         | .struct _ pa _ _, .struct _ pb _ _ =>
           if inRho ρ A B then none else
           if inRho vis A B then none else
           (whyFields (why σa σb ρ ((A, B) :: vis) f) σa σb pa pb).map (fun m => here ++ ": " ++ m) |>.orElse (fun _ => some (here ++ ": not in the correspondence"))
         | .enum _ ta va _ _ _, .enum _ tb vb _ _ _ =>
           if inRho ρ A B then none else
           if inRho vis A B then none else
           let vis := (A, B) :: vis
           if ta != tb then some (here ++ ": tagging differs") else
           let r : Option String := match ta with
             | .untagged =>
               if va.length != vb.length then some "number of variants" else
               (va.zip vb).findSome? (fun (p : Variant × Variant) => (whyVd (why σa σb ρ vis f) σa σb p.1.details p.2.details).map (fun m => s!"variant {p.1.wire}: {m}"))
             | _ =>
               va.findSome? (fun (v : Variant) =>
                 match vb.find? (fun (w : Variant) => w.wire == v.wire) with
                 | some w =>
                   (match ta with
                    | .internal tg => if internalOk tg v then none else some s!"variant {v.wire}: internally tagged newtype variant / member named like the tag"
                    | _ => none).orElse (fun _ => (whyVd (why σa σb ρ vis f) σa σb v.details w.details).map (fun m => s!"variant {v.wire}: {m}"))
                 | none => some s!"variant {v.wire}: unknown to the reader")
           (r.map (fun m => here ++ ": " ++ m)).orElse (fun _ => some (here ++ ": not in the correspondence"))
         | _, _ => some here)
  | _, _ => some "missing entry"

def evalWire (σ σ' : Space) (T T' : Id) : String :=
  let ρ := rhoOf σ σ' fuel
  if wireRB σ σ' ρ fuel T T' then s!"true rho={ρ.length}" else
  -- explain with the unrefined candidates: the first structural difference
  let c := candidates σ σ'
  let fwd := why σ σ' ρ [] fuel T T'
  let bwd := why σ' σ (swapρ ρ) [] fuel T' T
  let m := match fwd, bwd with
    | some m, _ => "T' does not read T: " ++ m
    | none, some m => "T does not read T': " ++ m
    | none, none => "correspondence not consistent"
  s!"false rho={ρ.length}/{c.length} {m}"

def step (st : St) (line : String) : St × String :=
  match splitN line 2 with
  | ["pair", name, text] =>
    (match parseJson text with
     | none => (st, "bad-json")
     | some top =>
       match (jget top "origin").bind parseSpace, (jget top "generated").bind parseSpace with
       | some σ, some σ' => ({ pairs := (name, σ, σ') :: st.pairs }, "ok")
       | _, _ => (st, "bad-ir"))
  | _ =>
    match splitN line 3 with
    | ["wire", name, a, b] =>
      (match st.pairs.find? (fun p => p.1 == name), a.toNat?, b.toNat? with
       | some (_, σ, σ'), some T, some T' => (st, evalWire σ σ' T T')
       | _, _, _ => (st, "no-pair"))
    | _ => (st, "bad-request")

end TypifyModel.Driver.C04

import TypifyModel.Model.StructProps
import TypifyModel.Driver.JsonText
/-! Driver glue for slice `sprop`: `{"kind": K, "required": bool, "default"?: json}` → `StructProps.propState` →
    `required|optional|default <json>` followed by ` option` when the member's type is wrapped in `Option`. -/
namespace TypifyModel.Driver.SProp
open TypifyModel TypifyModel.StructProps

def kindOf : String → Option Kind
  | "option" => some .option | "vec" => some .vec | "map" => some .map | "unit" => some .unit | "boolean" => some .boolean
  | "integer" => some .integer | "string" => some .string | "other" => some .other | "unresolved" => some .unresolved | _ => none

def handle (line : String) : String :=
  match parseJson line with
  | some (.obj kvs) =>
    (match Json.lookup kvs "kind", Json.lookup kvs "required" with
     | some (.str k), some (.bool r) =>
       (match kindOf k with
        | some kd =>
          let (st, w) := propState r kd (Json.lookup kvs "default")
          let s := match st with
            | .required => "required"
            | .optional => "optional"
            | .dflt v => "default " ++ renderJson v
          s ++ (if w then " option" else "")
        | none => "badrequest")
     | _, _ => "badrequest")
  | _ => "badrequest"

end TypifyModel.Driver.SProp

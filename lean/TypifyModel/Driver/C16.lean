import Lean.Data.Json
import TypifyModel.Model.SpaceSM
/-! Driver glue for slice `c16`: a call history (same request line as `tvh_c16`) is parsed into the
    fragment `Space.Sch`, run call by call through `Space.step`, and after every call the result and
    the dump of the model state are printed in the format of `TypeSpace::verif_dump()`.

    Answer: `{"steps": [{"r": "ok"|"ok:<id>"|"err:<Kind>"|"panic"|"fuel", "dump": {..}}, ..],
              "end": "complete" | "failed" | "unsupported:fragment" | "unsupported:cycle" | "unsupported"}` — the steps stop after the first call
    that is outside the model's domain (`unsupported`: schema outside the fragment, non-ASCII name,
    `{"defs": ..}` whose document order the JSON parser does not keep, a by-value reference cycle) or
    that fails (`failed`: the model keeps no state after `Err` / panic). -/
namespace TypifyModel.Driver.C16
open Lean TypifyModel TypifyModel.Space TypifyModel.Names

def asciiStr (s : String) : Option Str :=
  let l := s.toList
  if l.all (fun c => c.toNat < 128) then some l else none

def keysOf (j : Json) : Option (List (String × Json)) :=
  match j.getObj? with
  | .ok kvs => some kvs.toList
  | .error _ => none

def getStr? (kvs : List (String × Json)) (k : String) : Option (Option Str) :=
  match kvs.lookup k with
  | none => some none
  | some (.str s) => (asciiStr s).map some
  | some _ => none

def onlyKeys (kvs : List (String × Json)) (allowed : List String) : Bool :=
  kvs.all (fun kv => allowed.contains kv.1)

def parseRef (s : String) : Option RefKey :=
  if s == "#" then some .root
  else
    let pre := "#/definitions/"
    if s.startsWith pre then
      let k := (s.drop pre.length).toString
      if k.isEmpty || k.contains '/' then none else (asciiStr k).map RefKey.defn
    else none

def strList (j : Json) : Option (List Str) :=
  match j with
  | .arr xs => xs.toList.mapM (fun x => match x with | .str s => asciiStr s | _ => none)
  | _ => none

/-- the schema with the instance type fixed to `ty` (`"type"` already inspected by the caller) -/
partial def parseTyped (ty : String) (kvs : List (String × Json)) (parse : Json → Option Sch) : Option Sch := do
  let title ← getStr? kvs "title"
  match kvs.lookup "description" with
  | none => pure ()
  | some (.str _) => pure ()
  | some _ => none
  let base := ["type", "title", "description"]
  match ty with
  | "string" =>
    if !onlyKeys kvs (base ++ ["enum"]) then none
    else
      match kvs.lookup "enum" with
      | none => some (.str title)
      | some e => do let vs ← strList e; some (.enumStr title vs)
  | "integer" => if onlyKeys kvs base then some (.int title) else none
  | "boolean" => if onlyKeys kvs base then some (.bool title) else none
  | "array" =>
    if !onlyKeys kvs (base ++ ["items"]) then none
    else
      match kvs.lookup "items" with
      | some (it@(.obj _)) => do let i ← parse it; some (.arr title i)
      | _ => none
  | "object" =>
    if !onlyKeys kvs (base ++ ["properties", "required", "additionalProperties"]) then none
    else do
      let props ← match kvs.lookup "properties" with
        | none => some []
        | some p => do
          let pk ← keysOf p
          pk.mapM (fun (k, v) => do let k' ← asciiStr k; let s ← parse v; some (k', s))
      let req ← match kvs.lookup "required" with
        | none => some []
        | some r => strList r
      let closed ← match kvs.lookup "additionalProperties" with
        | none => some false
        | some (.bool false) => some true
        | some _ => none
      -- a required name without a schema is converted as the `true` schema: outside the fragment
      if !req.all (fun r => props.any (fun p => p.1 == r)) then none
      -- no properties, nothing required, open: `make_map`: outside the fragment
      else if props.isEmpty && req.isEmpty && !closed then none
      -- schemars reads `required` into a set
      else some (.obj title props req.eraseDups closed)
  | _ => none

partial def parseSch (j : Json) : Option Sch := do
  let kvs ← keysOf j
  match kvs.lookup "$ref" with
  | some (.str r) =>
    if !onlyKeys kvs ["$ref", "title", "description"] then none
    else do
      let title ← getStr? kvs "title"
      let k ← parseRef r
      some (.ref title k)
  | some _ => none
  | none =>
    match kvs.lookup "type" with
    | some (.str ty) => parseTyped ty kvs parseSch
    | some (.arr tys) =>
      match tys.toList with
      | [.str a, .str b] =>
        let other := if a == "null" then b else if b == "null" then a else ""
        if other == "" || other == "null" then none
        else
          match parseTyped other kvs parseSch with
          -- `enum: []` next to `[T, "null"]` is "all values are null": `convert_null` (Unit), outside the fragment
          | some (.enumStr _ []) => none
          | some s => some (.nullable s)
          | none => none
      | _ => none
    | _ => none

def parseDefs (kvs : List (String × Json)) : Option (List (Str × Sch)) :=
  kvs.mapM (fun (k, v) => do
    let k' ← asciiStr k
    if k.contains '/' then none
    let s ← parseSch v
    some (k', s))

def parseCall (j : Json) : Option Call := do
  let kvs ← keysOf j
  match kvs.lookup "root", kvs.lookup "defs_list", kvs.lookup "type" with
  | some r, none, none =>
    let rk ← keysOf r
    let defs ← match rk.lookup "definitions" with
      | none => some []
      | some d => do parseDefs (← keysOf d)
    let rest := rk.filter (fun kv => kv.1 != "definitions" && kv.1 != "$schema")
    -- an untitled root is ignored by `add_root_schema` whatever it says
    let root ← if (rest.lookup "title").isNone then some (Sch.str none)
               else parseSch (Json.mkObj rest)
    some (.rootSchema root defs)
  | none, some (.arr ps), none => do
    let defs ← ps.toList.mapM (fun p => match p with
      | .arr #[.str k, v] => do
        let k' ← asciiStr k
        let s ← parseSch v
        some (k', s)
      | _ => none)
    some (.refTypes defs)
  | none, none, some t => do
    let s ← parseSch t
    let hint ← match kvs.lookup "name" with
      | none => some none
      | some .null => some none
      | some (.str h) => (asciiStr h).map some
      | some _ => none
    some (.typeWithName s hint)
  | _, _, _ => none

/-! ### dump printing (format of `verif_dump`) -/

def sj (s : Str) : Json := .str (String.ofList s)
def nj (n : Nat) : Json := .num (JsonNumber.fromNat n)
def oj : Option Str → Json
  | none => .null
  | some s => sj s

/-- `TypeEntry::has_impl` on the fragment (derived from the state, not part of it) -/
def hasImpl (σ : State) : Nat → Details → String → Bool
  | 0, _, _ => false
  | f + 1, e, i =>
    match e with
    | .enum _ _ b => if i == "Default" then false else b
    | .struct .. => false
    | .newtype _ t => if i == "Default" then false else
        match σ.entry t with
        | some e' => hasImpl σ f e' i
        | none => false
    | .box t => if i == "Default" then
        (match σ.entry t with | some e' => hasImpl σ f e' i | none => false) else false
    | .option _ => i == "Default"
    | .vec _ => i == "Default"
    | .boolean => true
    | .integer _ => true
    | .string => true
    | .reference _ => false

def fieldJ (p : Field) : Json :=
  Json.mkObj [("name", sj p.name),
    ("rename", match p.rename with | none => .null | some r => Json.mkObj [("rename", sj r)]),
    ("state", .str (if p.required then "required" else "optional")),
    ("type_id", nj p.ty)]

def entryJ (σ : State) (e : Details) : Json :=
  let impls := ["FromStr", "Display", "Default"].filter (hasImpl σ (σ.nextId + 2) e)
  let extra : List (String × Json) :=
    [("impls", .arr (impls.map Json.str).toArray), ("extra_derives", .arr #[])]
  let core : List (String × Json) :=
    match e with
    | .enum n vs b =>
      [("kind", "enum"), ("name", sj n), ("rename", .null), ("default", .null), ("tag", "external"),
       ("variants", .arr (vs.map (fun v => Json.mkObj [("raw_name", sj v.1), ("ident_name", sj v.2),
          ("details", "simple")])).toArray),
       ("deny", .bool false),
       ("bespoke", .arr (if b then #["AllSimpleVariants"] else #[]))]
    | .struct n ps d =>
      [("kind", "struct"), ("name", sj n), ("rename", .null), ("default", .null),
       ("props", .arr (ps.map fieldJ).toArray), ("deny", .bool d)]
    | .newtype n t =>
      [("kind", "newtype"), ("name", sj n), ("rename", .null), ("default", .null), ("type_id", nj t),
       ("constraints", .null)]
    | .option t => [("kind", "option"), ("id", nj t)]
    | .box t => [("kind", "box"), ("id", nj t)]
    | .vec t => [("kind", "vec"), ("id", nj t)]
    | .boolean => [("kind", "boolean")]
    | .integer n => [("kind", "integer"), ("name", sj n)]
    | .string => [("kind", "string")]
    | .reference t => [("kind", "reference"), ("id", nj t)]
  Json.mkObj (core ++ extra)

def refKeyS : RefKey → String
  | .root => "#"
  | .defn k => "def:" ++ String.ofList k

/-- first binding per key (the live one) -/
def dedupKeys {α β : Type} [BEq α] (l : List (α × β)) : List (α × β) :=
  l.foldl (fun acc kv => if acc.any (fun x => x.1 == kv.1) then acc else acc ++ [kv]) []

def dumpJ (σ : State) : Json :=
  Json.mkObj [
    ("next_id", nj σ.nextId),
    ("entries", Json.mkObj ((dedupKeys σ.idToEntry).map (fun (i, e) => (toString i, entryJ σ e)))),
    ("name_to_id", Json.mkObj ((dedupKeys σ.nameToId).map (fun (n, i) => (String.ofList n, nj i)))),
    ("ref_to_id", Json.mkObj ((dedupKeys σ.refToId).map (fun (k, i) => (refKeyS k, nj i)))),
    ("type_to_id", .arr ((dedupKeys σ.typeToId).map (fun (_, i) => nj i)).toArray),
    ("definitions", .arr ((σ.definitions.eraseDups).map (fun k => Json.str (refKeyS k))).toArray),
    ("uses", Json.mkObj [("chrono", .bool false), ("uuid", .bool false), ("serde_json", .bool false),
                         ("regress", .bool false)]),
    ("defaults", .arr #[])]

def resS : Option Nat → String
  | none => "ok"
  | some i => "ok:" ++ toString i

def faultS : Fault → String
  | .err .invalidSchema => "err:InvalidSchema"
  | .panic => "panic"
  | .fuel => "fuel"
  | .unsupported => "unsupported"

def runCalls (fuel : Nat) : List Json → State → List Json → List Json × String
  | [], _, acc => (acc.reverse, "complete")
  | cj :: rest, σ, acc =>
    match parseCall cj with
    | none => (acc.reverse, "unsupported:fragment")
    | some c =>
      match step fuel c σ with
      | .fail .unsupported => (acc.reverse, "unsupported:cycle")
      | .fail f => ((Json.mkObj [("r", .str (faultS f))] :: acc).reverse, "failed")
      | .ok (r, σ1) =>
        runCalls fuel rest σ1 (Json.mkObj [("r", .str (resS r)), ("dump", dumpJ σ1)] :: acc)

def handle (line : String) : String :=
  match Json.parse line with
  | .error _ => "{\"steps\":[],\"end\":\"unsupported\"}"
  | .ok j =>
    match j.getObjVal? "calls" with
    | .ok (.arr cs) =>
      let (steps, e) := runCalls line.length cs.toList init []
      (Json.mkObj [("steps", .arr steps.toArray), ("end", .str e)]).compress
    | _ => "{\"steps\":[],\"end\":\"unsupported\"}"

end TypifyModel.Driver.C16

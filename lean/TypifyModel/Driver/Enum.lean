import TypifyModel.Model.ConvertEnum
import TypifyModel.Model.Dispatch
import TypifyModel.Driver.JsonText
import TypifyModel.Driver.Regex
/-! Driver glue for slice `enum`: one JSON schema per line (a schema with an `enum`) → the arm `Dispatch.resolve` sends it to →
    `ConvertEnum.enumString` / `typedEnum` / `unknownEnum` → a JSON description of the resulting type, in the vocabulary of the
    harness `tvh_disp`. Schemas that end in another arm: `other <arm>`. -/
namespace TypifyModel.Driver.Enum
open TypifyModel TypifyModel.ConvertEnum TypifyModel.Excl

def natKey (kvs : Kvs) (k : String) : Option Nat :=
  match Json.lookup kvs k with
  | some (.int n) => if 0 ≤ n then some n.toNat else none
  | _ => none

/-- does a value conform to the plain typed conversion (`validate_value` of String / i64 / f64 / bool)? -/
def conforms (t : JT) (v : Json) : Bool :=
  match t, v with
  | .string, .str _ => true
  | .integer, .int n => decide (-9223372036854775808 ≤ n ∧ n ≤ 9223372036854775807)      -- `{type: integer}` alone is i64
  | .array, .arr _ => true
  | .object, .obj _ => true
  | .number, .int _ => true
  | .number, .flt _ _ => true
  | .boolean, .bool _ => true
  | .null, .null => true
  | _, _ => false

def kindOf : JT → String
  | .string => "string" | .integer => "integer" | .number => "float" | .boolean => "boolean" | .null => "unit"
  | .array => "vec" | .object => "map"

partial def outJ : Out → Json
  | .unit => .obj [("kind", .str "unit")]
  | .strEnum vs => .obj [("kind", .str "enum"), ("variants", .arr (vs.map Json.str))]
  | .option o => .obj [("kind", .str "option"), ("inner_desc", outJ o)]
  | .allow t vs => .obj [("kind", .str "newtype"), ("over", .str (kindOf t)), ("values", .arr vs)]
  | .boolean => .obj [("kind", .str "boolean")]
  | .errBadValue => .obj [("r", .str "err"), ("kind", .str "Other")]
  | .errEmpty => .obj [("r", .str "err"), ("kind", .str "InvalidSchema")]
  | .errInvalidValue => .obj [("r", .str "err"), ("kind", .str "InvalidValue")]
  | .panic => .str "panic"

def handle (line : String) : String :=
  match parseJson line with
  | some (.obj kvs) =>
    let values := match Json.lookup kvs "enum" with | some (.arr vs) => vs | _ => []
    (match Dispatch.resolve 8 (.obj kvs) with
     | .enumString =>
       (match Json.lookup kvs "pattern" with
        | some (.str p) =>
          (match Driver.Regex.parse p with
           | some _ =>
             let v : StrV := { minLen := natKey kvs "minLength", maxLen := natKey kvs "maxLength",
                               pat := some (fun s => (Driver.Regex.find? p s).getD false) }
             renderJson (outJ (enumString v values))
           | none => renderJson (.obj [("r", .str "err"), ("kind", .str "InvalidSchema")]))
        | _ =>
          let v : StrV := { minLen := natKey kvs "minLength", maxLen := natKey kvs "maxLength" }
          renderJson (outJ (enumString v values)))
     | .unknownEnum => renderJson (outJ (unknownEnum conforms values))
     | .typedEnum =>
       (match tyOf kvs with
        | .single t => renderJson (outJ (typedEnum t (conforms t) values))
        | _ => "other typedEnum")
     | .boolean => renderJson (outJ .boolean)
     | a => "other " ++ (reprStr a))
  | _ => "badrequest"

end TypifyModel.Driver.Enum

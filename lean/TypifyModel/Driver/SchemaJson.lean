import TypifyModel.Model.Schema
import TypifyModel.Driver.IrJson
/-! Driver glue: a JSON-Schema document (as text) → the `Schema` AST of `Model/Schema.lean`.
    Anything outside the modelled fragment yields `none` (reported as `unsupported`, never guessed). -/
namespace TypifyModel.Driver
open TypifyModel

def metaKeys : List String :=
  ["title", "description", "default", "examples", "$schema", "$id", "definitions", "$comment", "readOnly",
   "writeOnly", "deprecated"]

def fmtRange (f : String) : Option (Int × Int) :=
  if f = "int8" then some (-128, 127) else if f = "uint8" then some (0, 255)
  else if f = "int16" then some (-32768, 32767) else if f = "uint16" then some (0, 65535)
  else if f = "int32" then some (-2147483648, 2147483647) else if f = "uint32" then some (0, 4294967295)
  else if f = "int64" || f = "int" then some (-9223372036854775808, 9223372036854775807)
  else if f = "uint64" || f = "uint" then some (0, 18446744073709551615)
  else none

def jint? : Json → Option Int
  | .int n => some n
  | _ => none

def keysOf (j : Json) : List String :=
  match j with
  | .obj kvs => (kvs.map (·.1)).filter (fun k => !metaKeys.contains k)
  | _ => []

def onlyKeys (j : Json) (allowed : List String) : Bool := (keysOf j).all (allowed.contains ·)

def refName (r : String) : Option String :=
  if r.startsWith "#/definitions/" then some (r.drop 14).toString
  else if r.startsWith "#/$defs/" then some (r.drop 8).toString
  else none

/-- `type: [T, "null"]` is read as `anyOf [<the schema with type T>, null]`; a `null` among the
    `enum` values belongs to the null branch -/
def nullableMember (t : String) (kv : String × Json) : String × Json :=
  if kv.1 = "type" then ("type", Json.str t)
  else if kv.1 = "enum" then
    (match kv.2 with
     | .arr vs => ("enum", .arr (vs.filter (fun v => match v with | .null => false | _ => true)))
     | o => ("enum", o))
  else kv

def enumLacksNull (j : Json) : Bool :=
  match jget j "enum" with
  | some (.arr vs) => !(vs.any (fun v => match v with | .null => true | _ => false))
  | _ => false

partial def parseSchema (j : Json) : Option Schema :=
  match j with
  | .bool true => some .any
  | .bool false => some .never
  | .obj _ =>
    let ks := keysOf j
    if ks.isEmpty then some .any else
    match jget j "$ref" with
    | some (.str r) => if ks == ["$ref"] then (refName r).map .ref else none
    | some _ => none
    | none =>
    match jget j "oneOf", jget j "anyOf", jget j "allOf", jget j "not" with
    | some (.arr ss), none, none, none => if ks == ["oneOf"] then (ss.mapM parseSchema).map .oneOf else none
    | none, some (.arr ss), none, none => if ks == ["anyOf"] then (ss.mapM parseSchema).map .anyOf else none
    | none, none, some (.arr ss), none => if ks == ["allOf"] then (ss.mapM parseSchema).map .allOf else none
    | none, none, none, some s => if ks == ["not"] then (parseSchema s).map .not else none
    | none, none, none, none =>
      match jget j "const" with
      | some v => if onlyKeys j ["const", "type"] then some (.enumVals [v]) else none
      | none =>
      match jget j "type" with
      | some (.arr [.str t, .str "null"]) =>
        (parseSchema (.obj (Json.sortObj ((match j with | .obj kvs => kvs | _ => []).map (nullableMember t))))).map
          (fun s => if enumLacksNull j then s else .anyOf [s, .null])
      | some (.arr [.str "null", .str t]) =>
        (parseSchema (.obj (Json.sortObj ((match j with | .obj kvs => kvs | _ => []).map (nullableMember t))))).map
          (fun s => if enumLacksNull j then s else .anyOf [.null, s])
      | some (.str ty) =>
        (match jget j "enum" with
         | some (.arr vs) => if onlyKeys j ["type", "enum"] then some (.enumVals vs) else none
         | some _ => none
         | none =>
           if ty = "null" then (if onlyKeys j ["type"] then some .null else none)
           else if ty = "boolean" then (if onlyKeys j ["type"] then some .boolean else none)
           else if ty = "number" then (if onlyKeys j ["type", "format"] then some .number else none)
           else if ty = "string" then
             (if onlyKeys j ["type", "minLength", "maxLength", "pattern"] then
                some (.string ((jget j "minLength").bind jnat?) ((jget j "maxLength").bind jnat?) ((jget j "pattern").bind jstr?))
              else none)
           else if ty = "integer" then
             (if onlyKeys j ["type", "format", "minimum", "maximum", "exclusiveMinimum", "exclusiveMaximum"] then
                let base : Int × Int := match (jget j "format").bind jstr? with
                  | some f => (fmtRange f).getD (-9223372036854775808, 9223372036854775807)
                  | none => (-9223372036854775808, 9223372036854775807)
                let los := [some base.1, (jget j "minimum").bind jint?, ((jget j "exclusiveMinimum").bind jint?).map (· + 1)].filterMap id
                let his := [some base.2, (jget j "maximum").bind jint?, ((jget j "exclusiveMaximum").bind jint?).map (· - 1)].filterMap id
                let nonInt := ["minimum", "maximum", "exclusiveMinimum", "exclusiveMaximum"].any
                  (fun k => match jget j k with | some (.int _) => false | none => false | _ => true)
                if nonInt then none else
                some (.integer (some (los.foldl max base.1)) (some (his.foldl min base.2)))
              else none)
           else if ty = "array" then
             (if onlyKeys j ["type", "items", "minItems", "maxItems", "uniqueItems"] then
                match jget j "items" with
                | some (.arr its) =>
                  (match (jget j "minItems").bind jnat?, (jget j "maxItems").bind jnat? with
                   | some a, some b => if a == its.length && b == its.length then (its.mapM parseSchema).map .tuple else none
                   | _, _ => none)
                | some it =>
                  (parseSchema it).map (fun s => .array s ((jget j "minItems").bind jnat?) ((jget j "maxItems").bind jnat?)
                    (((jget j "uniqueItems").bind jbool?).getD false))
                | none => some (.array .any ((jget j "minItems").bind jnat?) ((jget j "maxItems").bind jnat?)
                    (((jget j "uniqueItems").bind jbool?).getD false))
              else none)
           else if ty = "object" then
             (if onlyKeys j ["type", "properties", "required", "additionalProperties"] then
                let props : Option (List (String × Schema)) :=
                  match jget j "properties" with
                  | some (.obj kvs) => kvs.mapM (fun (k, v) => (parseSchema v).map (fun s => (k, s)))
                  | none => some []
                  | _ => none
                let req : List String := ((jget j "required").bind jarr?).getD [] |>.filterMap jstr?
                let addl : Option (Additional Schema) :=
                  match jget j "additionalProperties" with
                  | none => some .open_
                  | some (.bool true) => some .open_
                  | some (.bool false) => some .closed
                  | some s => (parseSchema s).map .schema
                match props, addl with
                | some ps, some a => some (.object ps req a)
                | _, _ => none
              else none)
           else none)
      | some _ => none
      | none =>
        (match jget j "enum" with
         | some (.arr vs) => if onlyKeys j ["enum"] then some (.enumVals vs) else none
         | _ => none)
    | _, _, _, _ => none
  | _ => none

/-- the definitions of a root document, and the root schema itself under the key `#` -/
def parseDoc (j : Json) : Doc × List String :=
  let defs := match jget j "definitions" with
    | some (.obj kvs) => kvs
    | _ => []
  let parsed := defs.map (fun (k, v) => (k, parseSchema v))
  let root := ("#", parseSchema (match j with
    | .obj kvs => .obj (kvs.filter (fun kv => kv.1 ≠ "definitions"))
    | o => o))
  let all := parsed ++ [root]
  ({ defs := all.filterMap (fun (k, s) => s.map (fun s' => (k, s'))) },
   all.filterMap (fun (k, s) => if s.isNone then some k else none))

end TypifyModel.Driver

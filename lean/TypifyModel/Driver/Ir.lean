import TypifyModel.Model.StrConv
import TypifyModel.Model.Render
import TypifyModel.Model.Builder
import TypifyModel.Model.Api
import TypifyModel.Model.Conv
import TypifyModel.Model.Enc
import TypifyModel.Model.RoundTrip
import TypifyModel.Model.Contain
import TypifyModel.Driver.SchemaJson
import TypifyModel.Generated.Derives
import TypifyModel.Driver.IrJson
import TypifyModel.Driver.Regex
/-! `drv_ir`: model side of the M3 correspondence. Lines:
    `ir <case> <dump-json>` registers an IR; then
    `de|rt|fromstr|tryfrom|display|default <case> <type-name> <payload>` evaluate the Serde model. -/
namespace TypifyModel.Driver.Ir
open TypifyModel TypifyModel.Serde TypifyModel.Driver

def ext : Ext := { regex := fun p s => (Regex.find? p s).getD false }

structure Case where
  space : Space
  badPattern : Bool      -- some pattern is outside the matcher's subset
  settings : Render.Settings := {}
  doc : Doc := { defs := [] }
  docUnsupported : List String := []
  rid : List (String × Id) := []

structure St where
  cases : List (String × Case) := []

def fuel : Nat := 400

def typeId (σ : Space) (name : String) : Option Id :=
  (σ.entries.find? (fun e => e.2.details.name? == some name)).map (·.1)

def patternsOk (σ : Space) : Bool :=
  σ.entries.all fun (_, e) =>
    match e.details with
    | .newtype _ _ (.string _ _ (some p)) _ => (Regex.parse p).isSome
    | _ => true

def showE : E → String
  | .fuel => "fuel"
  | .unsupported => "unsupported"
  | .reject => "err"

/-- split "a b c rest…" into the first `n` space-separated words and the remainder -/
def splitN (s : String) (n : Nat) : List String :=
  let rec go (cs : List Char) (n : Nat) (cur : List Char) (acc : List String) : List String :=
    match n, cs with
    | 0, _ => (String.ofList cs :: acc).reverse
    | _, [] => (String.ofList cur.reverse :: acc).reverse
    | n + 1, ' ' :: r => go r n [] (String.ofList cur.reverse :: acc)
    | n + 1, c :: r => go r (n + 1) (c :: cur) acc
  go s.toList n [] []

def evalValid (c : Case) (defName payload : String) : String :=
  if c.badPattern then "unsupported" else
  match parseJson payload with
  | none => "badjson"
  | some j =>
    match c.doc.get defName with
    | none => "unsupported"
    | some s =>
      match Validate.valid ⟨ext.regex⟩ c.doc 200 s j with
      | some true => "true"
      | some false => "false"
      | none => "fuel"

/-- ids reachable from `t` (closure under `childrenOf`) -/
def reachable (σ : Space) (t : Id) : List Id :=
  let rec go (fuel : Nat) (todo seen : List Id) : List Id :=
    match fuel, todo with
    | 0, _ => seen
    | _, [] => seen
    | n + 1, a :: rest =>
      if seen.contains a then go n rest seen else
      let kids := match σ.get a with
        | some ent => RoundTrip.childrenOf ent.details
        | none => []
      go n (kids ++ rest) (a :: seen)
  go (σ.entries.length * 8 + 64) [t] []

def evalOp (c : Case) (op tyName payload : String) : String :=
  if op == "valid" then evalValid c tyName payload else
  let σ := c.space
  match (match tyName.toNat? with | some n => some n | none => typeId σ tyName) with
  | none => "unsupported"
  | some t =>
    if c.badPattern then "unsupported" else
    match op with
    | "de" =>
      (match parseJson payload with
       | none => "badjson"
       | some j =>
         match de ext σ fuel t j with
         | .error e => showE e
         | .ok v => match se σ fuel t v with
           | .error e => "se-" ++ showE e
           | .ok w => "ok " ++ renderJson w)
    | "rt" =>
      (match parseJson payload with
       | none => "badjson"
       | some j =>
         match de ext σ fuel t j with
         | .error e => showE e
         | .ok v => match se σ fuel t v with
           | .error e => "se-" ++ showE e
           | .ok w => match de ext σ fuel t w with
             | .error e => "de2-" ++ showE e
             | .ok v2 => match se σ fuel t v2 with
               | .error e => "se2-" ++ showE e
               | .ok w2 => "ok " ++ renderJson w ++ "\t" ++ renderJson w2)
    | "fromstr" | "tryfrom_str" | "tryfrom_string" | "tryfrom_refstring" =>
      (match parseJson payload with
       | some (.str s) =>
         let r := if op == "fromstr" then fromStr ext σ fuel t s else tryFromStr ext σ fuel t s
         (match r with
          | .error e => showE e
          | .ok v => match se σ fuel t v with
            | .error e => "se-" ++ showE e
            | .ok w => "ok " ++ renderJson w)
       | _ => "badjson")
    | "valid" =>
      (match parseJson payload with
       | none => "badjson"
       | some j =>
         match c.doc.get tyName with
         | none => "unsupported"
         | some s =>
           match Validate.valid ⟨ext.regex⟩ c.doc 200 s j with
           | some true => "true"
           | some false => "false"
           | none => "fuel")
    | "declared" =>
      -- hypothesis of C03.rt_contains for this instance: only declared members, wire-shaped, no repeated key
      (match parseJson payload with
       | none => "badjson"
       | some j => if Contain.declared σ fuel t j then "true" else "false")
    | "rtok" =>
      -- hypothesis of C03.de_se_de for this type: the reachable entries satisfy `entryOkB`
      let S := reachable σ t
      if RoundTrip.closedOkB σ S && S.contains t then "true" else "false"
    | "display" =>
      (match parseJson payload with
       | none => "badjson"
       | some j =>
         match de ext σ fuel t j with
         | .error e => showE e
         | .ok v => match display σ fuel t v with
           | .error e => showE e
           | .ok s => "ok " ++ renderJson (.str s))
    | "build" | "build_str" | "build_refstr" =>
      (match parseJson payload, σ.get t with
       | some top, some ⟨.struct _ props _ _, _, _⟩ =>
         let set := (jget top "set").getD (.obj [])
         -- build_str / build_refstr: a JSON string for a property whose type is a named newtype / enum with
         -- `FromStr` is handed to the setter as `String` / `&str` (TryFrom<String> / TryFrom<&str>); the text of
         -- the inner conversion error is not modelled ("?"; the check compares up to the property name)
         let stringy (p : Field) : Bool := op != "build" && (match σ.get p.ty with
           | some ⟨.newtype .., _, impls⟩ => impls.contains .fromStr
           | some ⟨.enum .., _, impls⟩ => impls.contains .fromStr
           | _ => false)
         let arg (p : Field) (j : Json) : Except E Builder.Arg :=
           match stringy p, j with
           | true, .str s =>
             (match tryFromStr ext σ fuel p.ty s with
              | .ok v => .ok (.value v)
              | .error .reject => .ok (.convFail "?")
              | .error e => .error e)
           | _, _ => (match de ext σ fuel p.ty j with | .ok v => .ok (.value v) | .error e => .error e)
         -- a value that does not deserialize into the property type cannot be handed to the setter
         let bad := props.findSome? (fun p => match jget set p.name with
           | some j => (match arg p j with
             | .ok _ => none
             | .error .reject => some ("badvalue " ++ p.name)
             | .error e => some (showE e))
           | none => none)
         (match bad with
          | some msg => msg
          | none =>
            let choice : Field → Option Builder.Arg := fun p =>
              match jget set p.name with
              | some j => (match arg p j with | .ok a => some a | _ => none)
              | none => none
            match Builder.slots ext σ fuel choice props with
            | .error e => showE e
            | .ok sl =>
              match Builder.build sl with
              | .error m => "err " ++ m
              | .ok fs => match se σ fuel t (.struct fs) with
                | .ok w => "ok " ++ renderJson w
                | .error e => "se-" ++ showE e)
       | _, _ => "unsupported")
    | "unbuild" =>
      (match parseJson payload with
       | none => "badjson"
       | some j =>
         match de ext σ fuel t j with
         | .error e => showE e
         | .ok (.struct fs) =>
           (match Builder.build (Builder.unbuild fs) with
            | .ok fs' => (match se σ fuel t (.struct fs') with | .ok w => "ok " ++ renderJson w | .error e => "se-" ++ showE e)
            | .error m => "err " ++ m)
         | .ok _ => "unsupported")
    | "default" =>
      (match dflt ext σ fuel t with
       | .error e => showE e
       | .ok v => match se σ fuel t v with
         | .error e => "se-" ++ showE e
         | .ok w => "ok " ++ renderJson w)
    | _ => "unsupported"

def jstrs (j : Option Json) : List String :=
  ((j.bind jarr?).getD []).filterMap jstr?

def parseSettings (top dump : Json) : Render.Settings :=
  let s := (jget top "settings").getD (.obj [])
  { extraDerives := jstrs (jget s "derives")
    structBuilder := ((jget s "struct_builder").bind jbool?).getD false
    mapType := ((jget s "map_type").bind jstr?).getD "::std::collections::HashMap"
    sharedDefaults := jstrs (jget dump "defaults") }

open Render in
def fieldJson (f : FieldS) : Json :=
  .obj [("name", .str f.name), ("pub", .bool f.isPub), ("serde", .arr (f.serde.map (fun a => .str a.render))), ("ty", .str f.ty)]

open Render in
def summaryJson (s : Summary) : Json :=
  let arms (o : Option (List (String × String))) : List (String × Json) → List (String × Json) := fun acc =>
    acc
  let item (i : ItemS) : Json :=
    let base : List (String × Json) := [
      ("derives", .arr (i.derives.map .str)),
      ("fields", .arr (i.fields.map fieldJson)),
      ("impls", .arr ((toSet (i.impls.map (ImplK.render i.name))).map .str)),
      ("kind", .str i.kind), ("name", .str i.name), ("pub", .bool i.isPub),
      ("serde", .arr (i.serde.map .str)),
      ("variants", .arr (i.variants.map fun v => .obj [
        ("fields", .arr (v.fields.map fieldJson)), ("kind", .str v.kind), ("name", .str v.name),
        ("serde", .arr (v.serde.map .str)), ("tys", .arr (v.tys.map .str))]))]
    let d := match i.displayArms with
      | some l => [("display_arms", Json.arr (l.map fun (a, b) => .arr [.str a, .str b]))] | none => []
    let f := match i.fromstrArms with
      | some l => [("fromstr_arms", Json.arr (l.map fun (a, b) => .arr [.str a, .str b]))] | none => []
    let _ := arms
    .obj (Json.sortObj (base ++ d ++ f))
  .obj [("builders", .arr (s.builders.map .str)), ("default_fns", .arr (s.defaultFns.map .str)),
        ("items", .arr (s.items.map item))]

def kindOf (d : Details) : String :=
  match d with
  | .enum .. => "enum" | .struct .. => "struct" | .newtype .. => "newtype" | .native .. => "builtin"
  | .option _ => "option" | .box _ => "box" | .vec _ => "vec" | .map _ _ => "map" | .set _ => "set"
  | .array _ _ => "array" | .tuple _ => "tuple" | .unit => "unit" | .boolean => "builtin"
  | .integer _ => "builtin" | .float _ => "builtin" | .string => "string" | .jsonValue => "builtin"
  | .reference _ => "reference"

/-- the model's answers to the introspection API for every entry (compared with `iter_types()`) -/
def apiJson (c : Case) : Json :=
  let σ := c.space
  let st := c.settings
  .arr (σ.entries.map fun (id, ent) =>
    let hi (i : Impl) : Json := .bool (Api.hasImpl σ 64 id i)
    let det : List (String × Json) :=
      match Api.details ent with
      | .struct ps => [("props", .arr (ps.map fun (n, r, t) =>
          .obj [("name", .str n), ("required", .bool r), ("type_id", .int t), ("type_ident", .str (Render.typeIdent st σ 64 t))]))]
      | .enum vs => [("variants", .arr (vs.map fun (n, v) =>
          match v with
          | .simple => .obj [("kind", .str "simple"), ("name", .str n)]
          | .tuple ts => .obj [("kind", .str "tuple"), ("name", .str n), ("types", .arr (ts.map fun (t : Id) => Json.int (t : Int)))]
          | .struct ps => .obj [("kind", .str "struct"), ("name", .str n),
              ("props", .arr (ps.map fun (pn, t) => .obj [("name", .str pn), ("type_id", .int t)]))]))]
      | .newtype inner => [("inner", .obj [("type_id", .int inner), ("type_ident", .str (Render.typeIdent st σ 64 inner))])]
      | .other => []
    .obj (Json.sortObj ([("id", .int id), ("name", .str (Render.typeIdent st σ 64 id)), ("kind", .str (kindOf ent.details)),
      ("has_impl", .obj [("Default", hi .default), ("Display", hi .display), ("FromStr", hi .fromStr)]),
      ("recorded_impls_agree", .bool ([Impl.default, .display, .fromStr].all fun i => ent.impls.contains i == Api.hasImpl σ 64 id i)),
      ("builder", match Api.builder st ent with | some b => .str b | none => .null)] ++ det)))

def step (st : St) (line : String) : St × String :=
  match splitN line 2 with
  | ["ir", case, text] =>
    (match parseJson text with
     | none => (st, "bad-ir")
     | some top =>
       let dump := (jget top "dump").getD top
       match parseSpace dump with
       | some σ =>
         let (doc, unsup) := match jget top "doc" with
           | some dj => parseDoc dj
           | none => ({ defs := [] }, [])
         let rid : List (String × Id) := match jget dump "ref_to_id" with
           | some (.obj kvs) => kvs.filterMap fun (k, v) =>
               match jnat? v with
               | some id => if k = "#" then some ("#", id) else if k.startsWith "def:" then some ((k.drop 4).toString, id) else none
               | none => none
           | _ => []
         ({ cases := (case, ⟨σ, !patternsOk σ, parseSettings top dump, doc, unsup, rid⟩) :: st.cases }, "ok")
       | none => (st, "bad-ir"))
  | ["allconv", case] =>
    (match st.cases.find? (fun c => c.1 == case) with
     | some (_, c) =>
       let ridf : String → Option Id := fun k => (c.rid.find? (fun e => e.1 == k)).map (·.2)
       let per : List (String × Json) := c.doc.defs.map fun (k, s) =>
         (k, match ridf k with
           | some t => Json.obj [("conv", .bool (Conv.convB c.space ridf 64 s t)), ("rid", .int t)]
           | none => Json.obj [("conv", .bool false), ("rid", .null)])
       (st, renderJson (.obj [("defs", .obj (Json.sortObj per)),
                              ("unsupported", .arr (c.docUnsupported.map .str))]))
     | none => (st, "no-case"))
  | ["allenc", case] =>
    (match st.cases.find? (fun c => c.1 == case) with
     | some (_, c) =>
       let ridf : String → Option Id := fun k => (c.rid.find? (fun e => e.1 == k)).map (·.2)
       let per : List (String × Json) := c.doc.defs.map fun (k, s) =>
         (k, match ridf k with
           | some t => Json.obj [("enc", .bool (Enc.encB c.doc c.space ridf 64 s t)), ("frag", .bool (Enc.inFragment 64 s)), ("rid", .int t)]
           | none => Json.obj [("enc", .bool false), ("frag", .bool (Enc.inFragment 64 s)), ("rid", .null)])
       (st, renderJson (.obj [("defs", .obj (Json.sortObj per)),
                              ("unsupported", .arr (c.docUnsupported.map .str))]))
     | none => (st, "no-case"))
  | ["api", case] =>
    (match st.cases.find? (fun c => c.1 == case) with
     | some (_, c) => (st, renderJson (apiJson c))
     | none => (st, "no-case"))
  | ["render", case] =>
    (match st.cases.find? (fun c => c.1 == case) with
     | some (_, c) =>
       (st, renderJson (summaryJson (Render.render Generated.deriveTables c.settings c.space)))
     | none => (st, "no-case"))
  | _ =>
    match splitN line 3 with
    | [op, case, ty, payload] =>
      (match st.cases.find? (fun c => c.1 == case) with
       | some (_, c) => (st, evalOp c op ty payload)
       | none => (st, "no-case"))
    | [op, case, ty] =>
      (match st.cases.find? (fun c => c.1 == case) with
       | some (_, c) => (st, evalOp c op ty "")
       | none => (st, "no-case"))
    | _ => (st, "bad-request")

end TypifyModel.Driver.Ir

import TypifyModel.Driver.C16
import TypifyModel.Driver.Loop
def main : IO UInt32 := TypifyModel.Driver.runLoop TypifyModel.Driver.C16.handle

import TypifyModel.Model.Exclusive
import TypifyModel.Driver.JsonText
/-! Driver glue for slice `excl`: `{"defs": {..}, "schemas": [..]}` → `Excl.exclAll` → `true` | `false` | `none`. -/
namespace TypifyModel.Driver.Excl
open TypifyModel

def handle (line : String) : String :=
  match parseJson line with
  | some (.obj kvs) =>
    (match Json.lookup kvs "schemas" with
     | some (.arr ss) =>
       let defs := match Json.lookup kvs "defs" with | some (.obj d) => d | _ => []
       (match TypifyModel.Excl.exclAll 64 defs ss with
        | some true => "true"
        | some false => "false"
        | none => "none")
     | _ => "badrequest")
  | _ => "badrequest"

end TypifyModel.Driver.Excl

import TypifyModel.Driver.Loop
import TypifyModel.Driver.Enum
def main : IO UInt32 := TypifyModel.Driver.runLoop TypifyModel.Driver.Enum.handle

import TypifyModel.Driver.Loop
import TypifyModel.Driver.C10
def main : IO UInt32 := TypifyModel.Driver.runLoop TypifyModel.Driver.C10.handle

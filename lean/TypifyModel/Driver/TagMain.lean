import TypifyModel.Driver.Loop
import TypifyModel.Driver.Tag
def main : IO UInt32 := TypifyModel.Driver.runLoop TypifyModel.Driver.Tag.handle

/-! Model side of the correspondence line protocol: one request per stdin line, one answer per
    stdout line. One executable per slice (`drv_<slice>`). -/
namespace TypifyModel.Driver

partial def loop (h : IO.FS.Stream) (out : IO.FS.Stream) (f : String → String) : IO Unit := do
  let line ← h.getLine
  if line.isEmpty then return ()
  let l := line.trimAscii.toString
  if !l.isEmpty then out.putStrLn (f l)
  loop h out f

def runLoop (f : String → String) : IO UInt32 := do
  let out ← IO.getStdout
  loop (← IO.getStdin) out f
  out.flush
  return 0

end TypifyModel.Driver

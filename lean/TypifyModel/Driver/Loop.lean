/-! Model side of the correspondence line protocol: one request per stdin line, one answer per
    stdout line. One executable per slice (`drv_<slice>`). -/
namespace TypifyModel.Driver

partial def loop (h : IO.FS.Stream) (out : IO.FS.Stream) (f : String → String) : IO Unit := do
  let line ← h.getLine
  if line.isEmpty then return ()
  let l := line.trimAscii.toString
  if !l.isEmpty then out.putStrLn (f l)
  loop h out f

def runLoop (f : String → String) : IO UInt32 := do
  let out ← IO.getStdout
  loop (← IO.getStdin) out f
  out.flush
  return 0

end TypifyModel.Driver

namespace TypifyModel.Driver

partial def loopS {σ : Type} (h : IO.FS.Stream) (out : IO.FS.Stream) (f : σ → String → σ × String) (st : σ) : IO Unit := do
  let line ← h.getLine
  if line.isEmpty then return ()
  let l := line.trimAscii.toString
  if l.isEmpty then loopS h out f st
  else
    let (st', ans) := f st l
    out.putStrLn ans
    loopS h out f st'

/-- stateful variant: the handler threads a state through the lines -/
def runLoopS {σ : Type} (init : σ) (f : σ → String → σ × String) : IO UInt32 := do
  let out ← IO.getStdout
  loopS (← IO.getStdin) out f init
  out.flush
  return 0

end TypifyModel.Driver

import TypifyModel.Model.Wf
import TypifyModel.Model.Value
import TypifyModel.Driver.Ir
/-! `drv_c01`: evaluates `Wf.WF` (conjunct by conjunct) on a real IR dump.
    `wf <case> {"dump": <verif_dump>, "settings": {..}}` →
    `{"wf": b, "conjuncts": {name: b, ..}, "witnesses": {name: [..]}, "unsupported": [..]}`.
    `unsupported`: reasons the dump is outside the model's domain (non-ASCII identifiers: the Names
    model is ASCII only); such cases are counted, not compared. -/
namespace TypifyModel.Driver.C01
open TypifyModel TypifyModel.Render TypifyModel.Wf TypifyModel.Driver

/-- rustc's type equality on the header type strings typify can emit: `Vec<T>` (sets) is
    `::std::vec::Vec<T>`; `String`, `std::string::String` are `::std::string::String` -/
def normTy (s : String) : String :=
  let s := s.replace "::std::vec::Vec<" "Vec<"
  if s = "String" ∨ s = "std::string::String" then stdString
  else if s = "&String" ∨ s = "&std::string::String" then "&" ++ stdString
  else s

def sameTy (a b : String) : Bool := a == b || normTy a == normTy b

def fuelD : Nat := 200

/-- conjunct 6 through the C06 slice: every default expression typify writes (`output_value`) exists and is
    well typed (`Defaults.hasType`) at the type it is written for -/
def defaultSites (σ : Space) : List (String × Id × Json) :=
  σ.entries.flatMap fun (id, e) =>
    let own (n : String) (d : Option Json) : List (String × Id × Json) :=
      match d with | some j => [(n, id, j)] | none => []
    let props (n : String) (ps : List Field) : List (String × Id × Json) :=
      ps.filterMap fun p => match p.state with
        | .dflt d =>
          (match σ.get p.ty with
           | some ⟨.boolean, _, _⟩ | some ⟨.integer _, _, _⟩ => none     -- generic default fns
           | _ => some (n ++ "." ++ p.name, p.ty, d))
        | _ => none
    match e.details with
    | .struct n ps _ d => own n d ++ props n ps
    | .enum n _ vs _ d _ => own n d ++ vs.flatMap fun v =>
        (match v.details with | .struct ps => props (n ++ "::" ++ v.identName) ps | _ => [])
    | .newtype n inner c d => own n d ++
        (match c with
         | .enumValues vs | .denyValues vs => vs.map fun v => (n ++ " (listed value)", inner, v)
         | _ => [])
    | _ => []

def siteOk (σ : Space) (s : String × Id × Json) : Bool :=
  match Defaults.outputValue Ir.ext σ fuelD s.2.1 s.2.2 with
  | .ok e => Defaults.hasType σ fuelD e s.2.1
  | _ => false

def isAscii (s : String) : Bool := s.toList.all (fun c => c.toNat < 128)

def allIdents (σ : Space) : List String :=
  σ.entries.flatMap fun (_, e) =>
    let fs (ps : List Field) := ps.map (·.name)
    match e.details with
    | .struct n ps _ _ => n :: fs ps
    | .enum n _ vs _ _ _ => n :: vs.flatMap fun v => v.identName ::
        (match v.details with | .struct ps => fs ps | _ => [])
    | .newtype n _ _ _ => [n]
    | _ => []

def dups (l : List String) : List String :=
  let rec go : List String → List String → List String
    | [], acc => acc.reverse
    | a :: r, acc => if r.contains a && !acc.contains a then go r (a :: acc) else go r acc
  go l []

def firstOverlap (env : Env) : List Hdr → Option (Hdr × Hdr)
  | [] => none
  | a :: r => match r.find? (fun b => overlap env a b) with
    | some b => some (a, b)
    | none => firstOverlap env r

def hdrStr (h : Hdr) : String := "impl " ++ h.tr ++ (if h.arg.isEmpty then "" else "<" ++ h.arg ++ ">") ++ " for " ++ h.self

def strs (l : List String) : Json := .arr (l.map .str)

/-- why `Ty.shapeOk` fails (first reason found) -/
partial def shapeWhy (st : Settings) (hashable : Id → Bool) : Ty → Option String
  | .opt t | .box t | .vec t | .set t => shapeWhy st hashable t
  | .map k v =>
    (match shapeWhy st hashable k, shapeWhy st hashable v with
     | some w, _ => some w
     | _, some w => some w
     | none, none =>
       if (Ty.map k v).shapeOk hashable then none else some ("map key is not Eq + Hash: " ++ k.render st))
  | .tuple ts =>
    if ts.length > 12 then some ("tuple of " ++ toString ts.length ++ " > 12 elements") else ts.findSome? (shapeWhy st hashable)
  | .array t n => if n > 32 then some ("array of " ++ toString n ++ " > 32 elements") else shapeWhy st hashable t
  | .native _ ps => ps.findSome? (shapeWhy st hashable)
  | .bad => some "unresolved type"
  | _ => none

def witnesses (env : Env) (tb : DeriveTables) (st : Settings) (σ : Space) (bad : List String) : List (String × Json) :=
  let M := modOf tb st σ
  let w (n : String) (j : Unit → Json) : List (String × Json) := if bad.contains n then [(n, j ())] else []
  w "items_unique" (fun _ => strs (dups (itemNames σ))) ++
  w "no_prelude_shadow" (fun _ => strs ((itemNames σ).filter fun n => preludeTypes.contains n || preludeValues.contains n)) ++
  w "default_fns_unique" (fun _ => strs (dups M.defaultFns ++ M.defaultFns.filter (M.sharedFns.contains ·))) ++
  w "idents" (fun _ => strs ((allIdents σ).filter (fun n => !identOk n) ++
      σ.entries.flatMap fun (_, e) => match e.details with
        | .struct n ps _ _ => (dups (ps.map (·.name))).map (n ++ "." ++ ·)
        | .enum n _ vs _ _ _ => (dups (vs.map (·.identName))).map (n ++ "::" ++ ·) ++
            vs.flatMap fun v => (match v.details with
              | .struct ps => (dups (ps.map (·.name))).map (n ++ "::" ++ v.identName ++ "." ++ ·) | _ => [])
        | _ => [])) ++
  w "ids_resolve" (fun _ => strs (
      (if keysNodup σ then [] else ["duplicate entry ids"]) ++
      (σ.entries.filterMap fun (id, e) => match e.details with
        | .reference _ => some ("reference entry " ++ toString id)
        | .native n _ => if isTypePath n then none else some ("native type name is not a path: " ++ n)
        | .integer n | .float n => if isTypePath n then none else some ("number type name is not a path: " ++ n)
        | _ => none) ++
      M.items.filterMap fun m =>
        if m.allTys.all (fun T => T.resolved M.decls (nativeNames σ)) then none
        else some (m.base.name ++ ": " ++ ", ".intercalate ((m.allTys.filter fun T => !T.resolved M.decls (nativeNames σ)).map (·.render st))))) ++
  w "impls_coherent" (fun _ =>
      let hs := allHdrs (render tb st σ)
      strs ((match firstOverlap env hs with | some (a, b) => [hdrStr a ++ "  /  " ++ hdrStr b] | none => []) ++
        (hs.filter (hitsReflexiveFrom env)).map (fun h => "reflexive: " ++ hdrStr h) ++
        (hs.filter (hitsBlanketTryFrom env hs)).map (fun h => "blanket TryFrom: " ++ hdrStr h))) ++
  w "derivable" (fun _ => strs (
      (if tablesDerivable tb then [] else ["derive tables name an underivable trait"]) ++
      (st.extraDerives.filter (fun d => !isTypePath d)).map ("derive is not a path: " ++ ·) ++
      M.items.flatMap fun m =>
        (m.base.derives.filter (fun d => !deriveOk env m.base d)).map (fun d => m.base.name ++ ": derive " ++ d) ++
        ((m.allTys.filter fun T => !T.shapeOk M.hashable).map fun T =>
          m.base.name ++ ": no std/serde impl: " ++ ((shapeWhy st M.hashable T).getD "?") ++ " in " ++ T.render st) ++
        (if defaultsAvailable M m then [] else [m.base.name ++ ": #[serde(default)] on a member without Default"]))) ++
  w "defaults_typed" (fun _ => strs (((defaultSites σ).filter (fun s => !siteOk σ s)).map (·.1))) ++
  w "acyclic" (fun _ =>
      let r := ranks σ
      strs (σ.entries.filterMap fun e =>
        if (byValIds e.2.details).all (fun c => decide (rankOf r c < rankOf r e.1)) then none
        else some (typeIdent st σ 8 e.1 ++ " (id " ++ toString e.1 ++ ")"))) ++
  w "serde_legal" (fun _ => strs (((render tb st σ).items.filter (fun it => !serdeLegalItem it)).map (·.name) ++
      σ.entries.filterMap fun e => match e.2.details with
        | .newtype n inner (.enumValues _) _ => if isStrInner σ inner then some (n ++ ": enumerated newtype over String") else none
        | _ => none))

def answer (tb : DeriveTables) (st : Settings) (σ : Space) : String :=
  let dOk := (defaultSites σ).all (siteOk σ)
  let env := envOf sameTy dOk st σ
  let cs := conjuncts env tb st σ
  let bad := (cs.filter (fun c => !c.2)).map (·.1)
  let unsup := if (allIdents σ).all isAscii then [] else ["non-ASCII identifier"]
  renderJson (.obj [
    ("conjuncts", .obj (cs.map fun (n, b) => (n, .bool b))),
    ("items", .int ((modOf tb st σ).items.length)),
    ("unsupported", strs unsup),
    ("wf", .bool (WF env tb st σ)),
    ("witnesses", .obj (witnesses env tb st σ bad))])

def handle (line : String) : String :=
  match Ir.splitN line 2 with
  | ["wf", _case, text] =>
    (match parseJson text with
     | none => "bad-json"
     | some top =>
       let dump := (jget top "dump").getD top
       match parseSpace dump with
       | some σ => answer Generated.deriveTables (Ir.parseSettings top dump) σ
       | none => "bad-ir")
  | _ => "bad-request"

end TypifyModel.Driver.C01

import TypifyModel.Driver.Loop
import TypifyModel.Driver.C04
def main : IO UInt32 := TypifyModel.Driver.runLoopS ({} : TypifyModel.Driver.C04.St) TypifyModel.Driver.C04.step

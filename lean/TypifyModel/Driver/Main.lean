import TypifyModel.Driver.C10
/-! `drv <slice>`: model side of the correspondence line protocol (one request per line on stdin,
    one answer per line on stdout). -/
open TypifyModel.Driver

def handlerFor (slice : String) : Option (String → String) :=
  match slice with
  | "c10" => some C10.handle
  | _ => none

partial def loop (h : IO.FS.Stream) (out : IO.FS.Stream) (f : String → String) : IO Unit := do
  let line ← h.getLine
  if line.isEmpty then return ()
  let l := line.trimAscii.toString
  if !l.isEmpty then out.putStrLn (f l)
  loop h out f

def main (args : List String) : IO UInt32 := do
  match args with
  | [slice] =>
    match handlerFor slice with
    | some f =>
      let out ← IO.getStdout
      loop (← IO.getStdin) out f
      out.flush
      return 0
    | none => IO.eprintln s!"unknown slice {slice}"; return 2
  | _ => IO.eprintln "usage: drv <slice>"; return 2

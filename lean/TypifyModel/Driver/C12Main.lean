import TypifyModel.Driver.Loop
import TypifyModel.Driver.C12
def main : IO UInt32 := TypifyModel.Driver.runLoop TypifyModel.Driver.C12.handle

/-! Driver glue: a small backtracking matcher for the pattern subset the generators emit
    (`^`/`$` anchors, literals, `.`, classes `[a-z0-9_]` / negated, `\d \w \s`, quantifiers
    `* + ? {n} {n,m} {n,}`). Instantiates the `Ext.regex` parameter (`Regex::find(..).is_some()`);
    the assumption that regress agrees with it on this subset is exercised by the M3 runs. -/
namespace TypifyModel.Driver.Regex

inductive Atom where
  | lit (c : Char)
  | any
  | cls (neg : Bool) (ranges : List (Char × Char))
deriving Repr

structure Piece where
  atom : Atom
  min : Nat
  max : Option Nat
deriving Repr

structure Pat where
  anchorStart : Bool
  anchorEnd : Bool
  pieces : List Piece
deriving Repr

def digitR : List (Char × Char) := [('0', '9')]
def wordR : List (Char × Char) := [('a', 'z'), ('A', 'Z'), ('0', '9'), ('_', '_')]
/-- ECMA-262 WhiteSpace + LineTerminator -/
def spaceR : List (Char × Char) := [(' ', ' '), ('\t', '\r'), ('\u00a0', '\u00a0'), ('\u1680', '\u1680'), ('\u2000', '\u200a'),
  ('\u2028', '\u2029'), ('\u202f', '\u202f'), ('\u205f', '\u205f'), ('\u3000', '\u3000'), ('\ufeff', '\ufeff')]

partial def parseClass (cs : List Char) (acc : List (Char × Char)) : Option (List (Char × Char) × List Char) :=
  match cs with
  | ']' :: r => some (acc.reverse, r)
  | '\\' :: 'd' :: r => parseClass r (digitR ++ acc)
  | '\\' :: 'w' :: r => parseClass r (wordR ++ acc)
  | '\\' :: c :: r => parseClass r ((c, c) :: acc)
  | a :: '-' :: b :: r => if b == ']' then parseClass (b :: r) (('-', '-') :: (a, a) :: acc) else parseClass r ((a, b) :: acc)
  | a :: r => parseClass r ((a, a) :: acc)
  | [] => none

def parseNat (cs : List Char) : Nat × List Char :=
  let ds := cs.takeWhile Char.isDigit
  (ds.foldl (fun n c => n * 10 + (c.toNat - 48)) 0, cs.drop ds.length)

def parseQuant (cs : List Char) : Option (Nat × Option Nat × List Char) :=
  match cs with
  | '*' :: r => some (0, none, r)
  | '+' :: r => some (1, none, r)
  | '?' :: r => some (0, some 1, r)
  | '{' :: r =>
    let (n, r1) := parseNat r
    (match r1 with
     | '}' :: r2 => some (n, some n, r2)
     | ',' :: '}' :: r2 => some (n, none, r2)
     | ',' :: r2 =>
       let (m, r3) := parseNat r2
       (match r3 with | '}' :: r4 => some (n, some m, r4) | _ => none)
     | _ => none)
  | _ => some (1, some 1, cs)

partial def parsePieces (cs : List Char) (acc : List Piece) : Option (List Piece × Bool) :=
  match cs with
  | [] => some (acc.reverse, false)
  | ['$'] => some (acc.reverse, true)
  -- a group that is not quantified and has no alternation only brackets its pieces: `^(.*)$`
  | '(' :: '?' :: ':' :: r => parsePieces r acc
  | '(' :: '?' :: _ => none
  | '(' :: r => parsePieces r acc
  | ')' :: q :: r => if q == '*' || q == '+' || q == '?' || q == '{' then none else parsePieces (q :: r) acc
  | [')'] => some (acc.reverse, false)
  | c :: r =>
    let atomRest : Option (Atom × List Char) :=
      match c, r with
      | '.', _ => some (.any, r)
      | '[', '^' :: r' => (parseClass r' []).map (fun (rs, q) => (.cls true rs, q))
      | '[', _ => (parseClass r []).map (fun (rs, q) => (.cls false rs, q))
      | '\\', 'd' :: r' => some (.cls false digitR, r')
      | '\\', 'w' :: r' => some (.cls false wordR, r')
      | '\\', 's' :: r' => some (.cls false spaceR, r')
      | '\\', 'S' :: r' => some (.cls true spaceR, r')
      | '\\', 'D' :: r' => some (.cls true digitR, r')
      | '\\', 'W' :: r' => some (.cls true wordR, r')
      | '\\', 'b' :: _ => none
      | '\\', 'B' :: _ => none
      | '\\', c' :: r' => some (.lit c', r')
      | '(', _ => none
      | ')', _ => none
      | '|', _ => none
      | _, _ => some (.lit c, r)
    match atomRest with
    | none => none
    | some (a, q) =>
      match parseQuant q with
      | none => none
      | some (mn, mx, q') => parsePieces q' (⟨a, mn, mx⟩ :: acc)

def parse (p : String) : Option Pat :=
  let cs := p.toList
  let (as, cs) := match cs with | '^' :: r => (true, r) | _ => (false, cs)
  (parsePieces cs []).map (fun (ps, ae) => ⟨as, ae, ps⟩)

def atomMatches (a : Atom) (c : Char) : Bool :=
  match a with
  | .lit l => l == c
  | .any => c != '\n' && c != '\r' && c != '\u2028' && c != '\u2029'   -- ECMA-262 line terminators
  | .cls neg rs => (rs.any (fun (lo, hi) => lo ≤ c && c ≤ hi)) != neg

/-- match pieces at the head of `s`; greedy with backtracking -/
partial def matchHere (ps : List Piece) (anchorEnd : Bool) (s : List Char) : Bool :=
  match ps with
  | [] => !anchorEnd || s.isEmpty
  | p :: rest =>
    -- count how many leading chars match the atom (up to max)
    let rec go (k : Nat) (s' : List Char) : List (List Char) :=   -- suffixes after consuming k, k+1, …
      let here := if k ≥ p.min then [s'] else []
      match s' with
      | c :: r =>
        if atomMatches p.atom c && (match p.max with | some m => k < m | none => true)
        then go (k + 1) r ++ here else here
      | [] => here
    (go 0 s).any (matchHere rest anchorEnd)

partial def findFrom (pat : Pat) (s : List Char) : Bool :=
  if matchHere pat.pieces pat.anchorEnd s then true
  else if pat.anchorStart then false
  else match s with
    | [] => false
    | _ :: r => findFrom pat r

/-- `some b` when the pattern is in the supported subset -/
def find? (p : String) (s : String) : Option Bool :=
  (parse p).map (fun pat => findFrom pat s.toList)

end TypifyModel.Driver.Regex

import TypifyModel.Driver.Loop
import TypifyModel.Driver.SProp
def main : IO UInt32 := TypifyModel.Driver.runLoop TypifyModel.Driver.SProp.handle

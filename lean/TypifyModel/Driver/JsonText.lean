import TypifyModel.Model.Json
/-! Driver glue (not used by any theorem): JSON text ↔ `TypifyModel.Json`. Keeps serde_json's
    distinction between integer literals and literals with a fraction/exponent. -/
namespace TypifyModel.Driver
open TypifyModel

structure P where
  s : Array Char
  i : Nat

namespace P
def peek (p : P) : Option Char := p.s[p.i]?
def adv (p : P) (n : Nat := 1) : P := { p with i := p.i + n }
partial def ws (p : P) : P :=
  match p.peek with
  | some c => if c == ' ' || c == '\n' || c == '\t' || c == '\r' then ws p.adv else p
  | none => p
end P

def hexVal (c : Char) : Option Nat :=
  if '0' ≤ c ∧ c ≤ '9' then some (c.toNat - '0'.toNat)
  else if 'a' ≤ c ∧ c ≤ 'f' then some (c.toNat - 'a'.toNat + 10)
  else if 'A' ≤ c ∧ c ≤ 'F' then some (c.toNat - 'A'.toNat + 10)
  else none

def hex4 (p : P) : Option (Nat × P) := do
  let a ← hexVal (← p.s[p.i]?)
  let b ← hexVal (← p.s[p.i+1]?)
  let c ← hexVal (← p.s[p.i+2]?)
  let d ← hexVal (← p.s[p.i+3]?)
  some (((a * 16 + b) * 16 + c) * 16 + d, p.adv 4)

partial def parseStrBody (p : P) (acc : List Char) : Option (String × P) :=
  match p.peek with
  | none => none
  | some '"' => some (String.ofList acc.reverse, p.adv)
  | some '\\' =>
    (match (p.adv).peek with
     | some '"' => parseStrBody (p.adv 2) ('"' :: acc)
     | some '\\' => parseStrBody (p.adv 2) ('\\' :: acc)
     | some '/' => parseStrBody (p.adv 2) ('/' :: acc)
     | some 'b' => parseStrBody (p.adv 2) (Char.ofNat 8 :: acc)
     | some 'f' => parseStrBody (p.adv 2) (Char.ofNat 12 :: acc)
     | some 'n' => parseStrBody (p.adv 2) ('\n' :: acc)
     | some 'r' => parseStrBody (p.adv 2) ('\r' :: acc)
     | some 't' => parseStrBody (p.adv 2) ('\t' :: acc)
     | some 'u' =>
       (match hex4 (p.adv 2) with
        | none => none
        | some (u, p') =>
          if 0xD800 ≤ u ∧ u < 0xDC00 then
            -- surrogate pair
            (match p'.peek, (p'.adv).peek with
             | some '\\', some 'u' =>
               (match hex4 (p'.adv 2) with
                | some (lo, p'') =>
                  let cp := 0x10000 + (u - 0xD800) * 0x400 + (lo - 0xDC00)
                  parseStrBody p'' (Char.ofNat cp :: acc)
                | none => none)
             | _, _ => none)
          else parseStrBody p' (Char.ofNat u :: acc))
     | _ => none)
  | some c => parseStrBody p.adv (c :: acc)

partial def digits (p : P) (acc : List Char) : List Char × P :=
  match p.peek with
  | some c => if c.isDigit then digits p.adv (c :: acc) else (acc.reverse, p)
  | none => (acc.reverse, p)

def natOfDigits (ds : List Char) : Nat := ds.foldl (fun n c => n * 10 + (c.toNat - '0'.toNat)) 0

/-- canonical `(m, e)` with value m × 10^(-e): no trailing zero in m unless e = 0 -/
partial def canonDec (m : Int) (e : Nat) : Int × Nat :=
  if e > 0 && m % 10 == 0 then canonDec (m / 10) (e - 1) else (m, e)

def parseNumber (p : P) : Option (Json × P) :=
  let (neg, p1) := match p.peek with | some '-' => (true, p.adv) | _ => (false, p)
  let (ip, p2) := digits p1 []
  if ip.isEmpty then none else
  let (fp, p3, hasFrac) := match p2.peek with
    | some '.' => let (d, q) := digits p2.adv []; (d, q, true)
    | _ => ([], p2, false)
  let (ex, p4, hasExp) : (Int × P × Bool) := match p3.peek with
    | some 'e' | some 'E' =>
      let (sg, q) := match (p3.adv).peek with
        | some '-' => (-1, p3.adv 2) | some '+' => (1, p3.adv 2) | _ => ((1 : Int), p3.adv)
      let (d, q') := digits q []
      (sg * (natOfDigits d : Int), q', true)
    | _ => (0, p3, false)
  let sign : Int := if neg then -1 else 1
  if !hasFrac && !hasExp then some (.int (sign * natOfDigits ip), p4)
  else
    let mant : Int := sign * (natOfDigits (ip ++ fp) : Int)
    let sh : Int := ex - fp.length
    if sh ≥ 0 then some (.flt (mant * (10 : Int) ^ sh.toNat) 0, p4)
    else
      let (m, e) := canonDec mant (-sh).toNat
      some (.flt m e, p4)

mutual
partial def parseValue (p : P) : Option (Json × P) :=
  let p := p.ws
  match p.peek with
  | some 'n' => some (.null, p.adv 4)
  | some 't' => some (.bool true, p.adv 4)
  | some 'f' => some (.bool false, p.adv 5)
  | some '"' => (parseStrBody p.adv []).map (fun (s, q) => (.str s, q))
  | some '[' =>
    let q := (p.adv).ws
    (match q.peek with
     | some ']' => some (.arr [], q.adv)
     | _ => parseElems q [])
  | some '{' =>
    let q := (p.adv).ws
    (match q.peek with
     | some '}' => some (.obj [], q.adv)
     | _ => parseMembers q [])
  | some _ => parseNumber p
  | none => none
partial def parseElems (p : P) (acc : List Json) : Option (Json × P) :=
  match parseValue p with
  | none => none
  | some (v, q) =>
    let q := q.ws
    match q.peek with
    | some ',' => parseElems q.adv (v :: acc)
    | some ']' => some (.arr (v :: acc).reverse, q.adv)
    | _ => none
partial def parseMembers (p : P) (acc : List (String × Json)) : Option (Json × P) :=
  let p := p.ws
  match p.peek with
  | some '"' =>
    (match parseStrBody p.adv [] with
     | none => none
     | some (k, q) =>
       let q := q.ws
       match q.peek with
       | some ':' =>
         (match parseValue q.adv with
          | none => none
          | some (v, r) =>
            let r := r.ws
            match r.peek with
            | some ',' => parseMembers r.adv ((k, v) :: acc)
            | some '}' => some (.obj (Json.sortObj ((k, v) :: acc).reverse), r.adv)
            | _ => none)
       | _ => none)
  | _ => none
end

def parseJson (s : String) : Option Json :=
  match parseValue ⟨s.toList.toArray, 0⟩ with
  | some (j, p) => if (p.ws).i == p.s.size || true then some j else none
  | none => none

def hexDigit (n : Nat) : Char := if n < 10 then Char.ofNat (48 + n) else Char.ofNat (87 + n)

def escapeStr (s : String) : String :=
  "\"" ++ String.join (s.toList.map fun c =>
    if c == '"' then "\\\"" else if c == '\\' then "\\\\"
    else if c == '\n' then "\\n" else if c == '\r' then "\\r" else if c == '\t' then "\\t"
    else if c.toNat < 32 then "\\u00" ++ String.ofList [hexDigit (c.toNat / 16), hexDigit (c.toNat % 16)]
    else String.singleton c) ++ "\""

def renderDec (m : Int) (e : Nat) : String :=
  if e == 0 then toString m ++ ".0" else
    let neg := m < 0
    let ds := toString m.natAbs
    let ds := if ds.length ≤ e then String.ofList (List.replicate (e + 1 - ds.length) '0') ++ ds else ds
    let cs := ds.toList
    let ip := cs.take (cs.length - e)
    let fp := cs.drop (cs.length - e)
    (if neg then "-" else "") ++ String.ofList ip ++ "." ++ String.ofList fp

partial def renderJson : Json → String
  | .null => "null"
  | .bool b => if b then "true" else "false"
  | .int n => toString n
  | .flt m e => renderDec m e
  | .str s => escapeStr s
  | .arr xs => "[" ++ ",".intercalate (xs.map renderJson) ++ "]"
  | .obj kvs => "{" ++ ",".intercalate (kvs.map fun (k, v) => escapeStr k ++ ":" ++ renderJson v) ++ "}"

end TypifyModel.Driver

import TypifyModel.Driver.Loop
import TypifyModel.Driver.C06
def main : IO UInt32 := TypifyModel.Driver.runLoop TypifyModel.Driver.C06.handle

import TypifyModel.Model.Merge
import TypifyModel.Driver.SchemaJson
import TypifyModel.Driver.Regex
/-! Model side of correspondence `c09`: `{"schemas":[..],"defs":{..},"cands":[..]}` →
    `<merged schema as JSON | never | unsupported>` TAB `<gaps>` TAB `<accept-vector of the merged schema>`
    TAB `<accept-vector of allOf(schemas)>` (vectors by `Validate.valid` on the candidates; `1`/`0`/`?`).
    `{"op":"norm","schema":S}` → `renderSchema (parseSchema S)` (used to compare results modulo the AST). -/
namespace TypifyModel.Driver.C09
open TypifyModel TypifyModel.Driver TypifyModel.Merge

def ext : Validate.Ext := { regex := fun p s => (Regex.find? p s).getD false }

def optNat (k : String) : Option Nat → List (String × Json)
  | some n => [(k, .int n)]
  | none => []

mutual
partial def renderSchema : Schema → Json
  | .any => .obj []
  | .never => .bool false
  | .null => .obj [("type", .str "null")]
  | .boolean => .obj [("type", .str "boolean")]
  | .integer lo hi =>
    .obj (Json.sortObj ([("type", Json.str "integer")] ++
      (match lo with | some l => [("minimum", Json.int l)] | none => []) ++
      (match hi with | some h => [("maximum", Json.int h)] | none => [])))
  | .number => .obj [("type", .str "number")]
  | .string mn mx p =>
    .obj (Json.sortObj ([("type", Json.str "string")] ++ optNat "minLength" mn ++ optNat "maxLength" mx ++
      (match p with | some q => [("pattern", Json.str q)] | none => [])))
  | .enumVals vs => .obj [("enum", .arr vs)]
  | .ref k => .obj [("$ref", .str ("#/definitions/" ++ k))]
  | .array it mn mx u =>
    .obj (Json.sortObj ([("type", Json.str "array")] ++
      (match it with | .any => [] | s => [("items", renderSchema s)]) ++
      optNat "minItems" mn ++ optNat "maxItems" mx ++ (if u then [("uniqueItems", Json.bool true)] else [])))
  | .tuple ts =>
    .obj (Json.sortObj [("type", Json.str "array"), ("items", .arr (ts.map renderSchema)),
                        ("minItems", .int ts.length), ("maxItems", .int ts.length)])
  | .object ps req ad =>
    .obj (Json.sortObj ([("type", Json.str "object")] ++
      (if ps.isEmpty then [] else [("properties", Json.obj (Json.sortObj (ps.map fun (k, s) => (k, renderSchema s))))]) ++
      (if req.isEmpty then [] else [("required", Json.arr ((req.mergeSort (fun a b => decide (a ≤ b))).map Json.str))]) ++
      (match ad with
       | .open_ => []
       | .closed => [("additionalProperties", Json.bool false)]
       | .schema s => [("additionalProperties", renderSchema s)])))
  | .oneOf ss => .obj [("oneOf", .arr (ss.map renderSchema))]
  | .anyOf ss => .obj [("anyOf", .arr (ss.map renderSchema))]
  | .allOf ss => .obj [("allOf", .arr (ss.map renderSchema))]
  | .not s => .obj [("not", renderSchema s)]
end

/-- facts about the raw request that the AST cannot express -/
def tyName (j : Json) : String :=
  match j with
  | .null => "null" | .bool _ => "boolean" | .int _ => "integer" | .flt _ _ => "number"
  | .str _ => "string" | .arr _ => "array" | .obj _ => "object"

structure Pre where
  hasSub : Bool := false          -- some `not`/`oneOf`/`anyOf`/`allOf` keyword
  trueLit : Bool := false         -- a literal `true` in schema position, or an array type without `items`
  formats : List String := []     -- distinct `format` strings
  typeVec : Bool := false         -- `type` given as an array
  numVals : List String := []     -- distinct number validations (rendered)
  numEnum : Bool := false         -- `enum` next to `type: integer|number` (the AST drops the type), or a typed enum without a value of its type
  untypedEnum : Bool := false     -- an `enum` / `const` without a sibling `type`
  addlTrue : Bool := false        -- a literal `additionalProperties: true` (the AST reads it as absent; `roughly` does not)
  hasRef : Bool := false
  hasInt : Bool := false
  hasNum : Bool := false

def Pre.addFormat (p : Pre) (f : String) : Pre := if p.formats.contains f then p else { p with formats := f :: p.formats }
def Pre.addNum (p : Pre) (f : String) : Pre := if p.numVals.contains f then p else { p with numVals := f :: p.numVals }

partial def scan (p : Pre) (j : Json) : Pre :=
  match j with
  | .bool true => { p with trueLit := true }
  | .obj kvs =>
    let p := if ["not", "oneOf", "anyOf", "allOf"].any (fun k => (Json.lookup kvs k).isSome) then { p with hasSub := true } else p
    let p := match Json.lookup kvs "format" with | some (.str f) => p.addFormat f | _ => p
    let p := match Json.lookup kvs "type" with
      | some (.arr _) => { p with typeVec := true }
      | some (.str "array") => if (Json.lookup kvs "items").isNone then { p with trueLit := true } else p
      | some (.str "integer") => if (Json.lookup kvs "enum").isSome then { p with numEnum := true, hasInt := true } else { p with hasInt := true }
      | some (.str "number") => if (Json.lookup kvs "enum").isSome then { p with numEnum := true, hasNum := true } else { p with hasNum := true }
      | _ => p
    let p := match Json.lookup kvs "enum", Json.lookup kvs "const", Json.lookup kvs "type" with
      | some (.arr vs), _, some (.str t) =>
        if vs.any (fun v => tyName v == t) then p else { p with numEnum := true }
      | some _, _, _ => { p with untypedEnum := true }
      | none, some _, _ => { p with untypedEnum := true }
      | _, _, _ => p
    let nv := kvs.filter (fun kv => ["minimum", "maximum", "exclusiveMinimum", "exclusiveMaximum", "multipleOf"].contains kv.1)
    let p := if nv.isEmpty then p else p.addNum (renderJson (.obj nv))
    let p := match Json.lookup kvs "properties" with
      | some (.obj ps) => ps.foldl (fun p kv => scan p kv.2) p
      | _ => p
    let p := match Json.lookup kvs "definitions" with
      | some (.obj ps) => ps.foldl (fun p kv => scan p kv.2) p
      | _ => p
    let p := match Json.lookup kvs "items" with
      | some (.arr xs) => xs.foldl scan p
      | some x => scan p x
      | none => p
    let p := if (Json.lookup kvs "$ref").isSome then { p with hasRef := true } else p
    let p := match Json.lookup kvs "additionalProperties" with
      | some (.bool true) => { p with addlTrue := true }
      | some (.bool _) => p
      | some x => scan p x
      | none => p
    let p := ["oneOf", "anyOf", "allOf"].foldl (fun p k => match Json.lookup kvs k with
      | some (.arr xs) => xs.foldl scan p
      | _ => p) p
    match Json.lookup kvs "not" with
    | some x => scan p x
    | none => p
  | _ => p

def tyName0 (j : Json) : String :=
  match j with
  | .null => "null" | .bool _ => "boolean" | .int _ => "integer" | .flt _ _ => "number"
  | .str _ => "string" | .arr _ => "array" | .obj _ => "object"

/-- `{"type": T, "enum": vs}`: the real merge filters the values by instance type (merge.rs:207-220);
    the AST keeps `enum` only, so the filter is applied before parsing. Metadata is dropped. -/
partial def normJson (j : Json) : Json :=
  match j with
  | .obj kvs =>
    let kvs := kvs.filter (fun kv => !metaKeys.contains kv.1 || kv.1 == "definitions")
    let ty := match Json.lookup kvs "type" with | some (.str t) => some t | _ => none
    let kvs := kvs.map (fun kv =>
      if kv.1 == "properties" || kv.1 == "definitions" then
        (kv.1, match kv.2 with | .obj ps => Json.obj (ps.map fun (k, v) => (k, normJson v)) | o => o)
      else if kv.1 == "items" then
        (kv.1, match kv.2 with | .arr xs => Json.arr (xs.map normJson) | o => normJson o)
      else if kv.1 == "additionalProperties" || kv.1 == "not" then (kv.1, normJson kv.2)
      else if kv.1 == "oneOf" || kv.1 == "anyOf" || kv.1 == "allOf" then
        (kv.1, match kv.2 with | .arr xs => Json.arr (xs.map normJson) | o => o)
      else if kv.1 == "enum" then
        (kv.1, match kv.2, ty with
          | .arr vs, some t => Json.arr (vs.filter (fun v => tyName v == t || (t == "number" && tyName v == "integer")))
          | o, _ => o)
      else kv)
    .obj kvs
  | o => o

def fuel : Nat := 48

def verdictChar : Option Bool → Char
  | some true => '1'
  | some false => '0'
  | none => '?'

def gapName : Gap → String
  | .intNumber => "intNumber" | .arrayItems => "arrayItems" | .notDropped => "notDropped"
  | .notRequired => "notRequired" | .overlap => "overlap" | .roughlyArray => "roughlyArray" | .enumEmptied => "enumEmptied"

def gapsText (g : List Gap) : String := ",".intercalate ((g.map gapName).eraseDups)

def handle (line : String) : String :=
  match parseJson line with
  | none => "badrequest"
  | some req =>
    match jget req "op" with
    | some (.str "norm") =>
      (match (jget req "schema").bind (fun s => parseSchema (normJson s)) with
       | some s => renderJson (renderSchema s)
       | none => "unsupported")
    | _ =>
    let schemasJ := ((jget req "schemas").bind jarr?).getD []
    let defsJ := match jget req "defs" with | some (.obj kvs) => kvs | _ => []
    let cands := ((jget req "cands").bind jarr?).getD []
    let pre := defsJ.foldl (fun p kv => scan p kv.2) (schemasJ.foldl scan {})
    if (pre.hasSub && pre.trueLit) || (pre.untypedEnum && pre.hasInt && pre.hasNum) || (pre.addlTrue && (pre.hasSub || pre.hasRef)) || pre.formats.length > 1 || pre.typeVec || pre.numEnum || pre.numVals.length > 1 then
      "unsupported\tprepass\t\t"
    else
    match schemasJ.mapM (fun s => parseSchema (normJson s)),
          defsJ.mapM (fun (k, v) => (parseSchema (normJson v)).map (fun s => (k, s))) with
    | some schemas, some defs =>
      let d : Doc := { defs := defs }
      let all := String.ofList (cands.map (fun v => verdictChar (Validate.valid ext d 200 (.allOf schemas) v)))
      (match mergeAll (!pre.untypedEnum) d fuel schemas with
       | .unsup => "unsupported\tmodel\t\t" ++ all
       | .never g => if g.contains .enumEmptied then "unsupported\temptyenum\t\t" ++ all else "never\t" ++ gapsText g ++ "\t" ++ String.ofList (cands.map (fun _ => '0')) ++ "\t" ++ all
       | .ok m g =>
         -- the AST does not record whether an `enum` carried `type`: merge.rs answers `never` for a typed
         -- enumeration against another type and `{type, enum: []}` for an untyped one
         if g.contains .enumEmptied || ((renderJson (renderSchema m)).splitOn "\"enum\":[]").length > 1 then "unsupported\temptyenum\t\t" ++ all else
         renderJson (renderSchema m) ++ "\t" ++ gapsText g ++ "\t" ++
           String.ofList (cands.map (fun v => verdictChar (Validate.valid ext d 200 m v))) ++ "\t" ++ all)
    | _, _ => "unsupported\tparse\t\t"

end TypifyModel.Driver.C09

import TypifyModel.Model.Determinism
/-! Driver glue for slice `c12` (no theorem mentions this file): a JSON *text* reader that keeps the
    members of an object in the order of the text, duplicates included (so that the model's `canon`
    does the work that `serde_json::from_str::<Value>` does), and a printer with serde_json's compact
    output conventions.

    Request line: `{"kind":"parse","text":"<document>"}`. Answer: the compact text of
    `canon (document)`, `err` for a syntax error, `unsupported` for documents outside the modelled
    domain (numbers other than integer literals in the i64/u64 range). -/
namespace TypifyModel.Driver.C12
open TypifyModel.Determinism

inductive PErr where
  | syntax
  | unsupported


structure Src where
  s : Array Char

namespace Src
def get (p : Src) (i : Nat) : Option Char := p.s[i]?
partial def ws (p : Src) (i : Nat) : Nat :=
  match p.get i with
  | some c => if c == ' ' || c == '\n' || c == '\t' || c == '\r' then ws p (i + 1) else i
  | none => i
end Src

def hexVal (c : Char) : Option Nat :=
  if '0' ≤ c ∧ c ≤ '9' then some (c.toNat - '0'.toNat)
  else if 'a' ≤ c ∧ c ≤ 'f' then some (c.toNat - 'a'.toNat + 10)
  else if 'A' ≤ c ∧ c ≤ 'F' then some (c.toNat - 'A'.toNat + 10)
  else none

def hex4 (p : Src) (i : Nat) : Option Nat := do
  let a ← hexVal (← p.get i)
  let b ← hexVal (← p.get (i + 1))
  let c ← hexVal (← p.get (i + 2))
  let d ← hexVal (← p.get (i + 3))
  pure (((a * 16 + b) * 16 + c) * 16 + d)

/-- after the opening quote -/
partial def strBody (p : Src) (i : Nat) (acc : Array Char) : Except PErr (String × Nat) :=
  match p.get i with
  | none => .error .syntax
  | some '"' => .ok (String.ofList acc.toList, i + 1)
  | some '\\' =>
    match p.get (i + 1) with
    | some '"' => strBody p (i + 2) (acc.push '"')
    | some '\\' => strBody p (i + 2) (acc.push '\\')
    | some '/' => strBody p (i + 2) (acc.push '/')
    | some 'b' => strBody p (i + 2) (acc.push (Char.ofNat 8))
    | some 'f' => strBody p (i + 2) (acc.push (Char.ofNat 12))
    | some 'n' => strBody p (i + 2) (acc.push '\n')
    | some 'r' => strBody p (i + 2) (acc.push '\r')
    | some 't' => strBody p (i + 2) (acc.push '\t')
    | some 'u' =>
      match hex4 p (i + 2) with
      | none => .error .syntax
      | some u =>
        if 0xD800 ≤ u ∧ u < 0xDC00 then
          -- high surrogate: a low surrogate escape must follow
          if p.get (i + 6) == some '\\' && p.get (i + 7) == some 'u' then
            match hex4 p (i + 8) with
            | some l =>
              if 0xDC00 ≤ l ∧ l < 0xE000 then
                strBody p (i + 12) (acc.push (Char.ofNat (0x10000 + (u - 0xD800) * 0x400 + (l - 0xDC00))))
              else .error .syntax
            | none => .error .syntax
          else .error .syntax
        else if 0xDC00 ≤ u ∧ u < 0xE000 then .error .syntax
        else strBody p (i + 6) (acc.push (Char.ofNat u))
    | _ => .error .syntax
  | some c => if c.toNat < 0x20 then .error .syntax else strBody p (i + 1) (acc.push c)

partial def digits (p : Src) (i : Nat) (acc : Array Char) : Array Char × Nat :=
  match p.get i with
  | some c => if c.isDigit then digits p (i + 1) (acc.push c) else (acc, i)
  | none => (acc, i)

/-- integer literals only; a fraction or exponent, `-0`, or a magnitude outside i64/u64 is
    `unsupported` (serde_json would go through f64 there) -/
def number (p : Src) (i : Nat) : Except PErr (Json × Nat) :=
  let neg := p.get i == some '-'
  let j := if neg then i + 1 else i
  let (ds, k) := digits p j #[]
  if ds.isEmpty then .error .syntax
  else if ds.size > 1 && ds[0]! == '0' then .error .syntax
  else
    match p.get k with
    | some '.' => .error .unsupported
    | some 'e' => .error .unsupported
    | some 'E' => .error .unsupported
    | _ =>
      let n := (String.ofList ds.toList).toNat!
      if neg && n == 0 then .error .unsupported
      else if neg && n > 2 ^ 63 then .error .unsupported
      else if !neg && n ≥ 2 ^ 64 then .error .unsupported
      else .ok (.num ((if neg then "-" else "") ++ String.ofList ds.toList), k)

def lit (p : Src) (i : Nat) (w : String) (v : Json) : Except PErr (Json × Nat) :=
  let cs := w.toList
  if (List.range cs.length).all (fun k => p.get (i + k) == cs[k]?) then .ok (v, i + cs.length) else .error .syntax

mutual
  partial def value (p : Src) (i0 : Nat) (depth : Nat) : Except PErr (Json × Nat) :=
    let i := p.ws i0
    -- serde_json's recursion limit
    if depth > 127 then .error .syntax else
    match p.get i with
    | some 'n' => lit p i "null" .null
    | some 't' => lit p i "true" (.bool true)
    | some 'f' => lit p i "false" (.bool false)
    | some '"' => do
      let (s, j) ← strBody p (i + 1) #[]
      pure (.str s, j)
    | some '[' =>
      let j := p.ws (i + 1)
      if p.get j == some ']' then .ok (.arr [], j + 1) else elems p j (depth + 1) #[]
    | some '{' =>
      let j := p.ws (i + 1)
      if p.get j == some '}' then .ok (.obj [], j + 1) else members p j (depth + 1) #[]
    | some c => if c == '-' || c.isDigit then number p i else .error .syntax
    | none => .error .syntax
  partial def elems (p : Src) (i : Nat) (depth : Nat) (acc : Array Json) : Except PErr (Json × Nat) := do
    let (v, j) ← value p i depth
    let k := p.ws j
    match p.get k with
    | some ',' => elems p (k + 1) depth (acc.push v)
    | some ']' => pure (.arr (acc.push v).toList, k + 1)
    | _ => throw .syntax
  partial def members (p : Src) (i0 : Nat) (depth : Nat) (acc : Array (String × Json)) : Except PErr (Json × Nat) := do
    let i := p.ws i0
    if p.get i != some '"' then throw .syntax
    let (key, j) ← strBody p (i + 1) #[]
    let j := p.ws j
    if p.get j != some ':' then throw .syntax
    let (v, k) ← value p (j + 1) depth
    let k := p.ws k
    match p.get k with
    | some ',' => members p (k + 1) depth (acc.push (key, v))
    | some '}' => pure (.obj (acc.push (key, v)).toList, k + 1)
    | _ => throw .syntax
end

/-- a whole document: one value, then only white space -/
def parseText (s : String) : Except PErr Json := do
  let p : Src := ⟨s.toList.toArray⟩
  let (v, i) ← value p 0 0
  if p.ws i == p.s.size then pure v else throw .syntax

def hexDigit (n : Nat) : Char := if n < 10 then Char.ofNat (48 + n) else Char.ofNat (87 + n)

/-- serde_json's string escaping (`CompactFormatter`) -/
def escape (s : String) : String :=
  s.toList.foldl (fun acc c =>
    if c == '"' then acc ++ "\\\""
    else if c == '\\' then acc ++ "\\\\"
    else if c == '\n' then acc ++ "\\n"
    else if c == '\r' then acc ++ "\\r"
    else if c == '\t' then acc ++ "\\t"
    else if c.toNat == 8 then acc ++ "\\b"
    else if c.toNat == 12 then acc ++ "\\f"
    else if c.toNat < 0x20 then acc ++ "\\u00" ++ String.singleton (hexDigit (c.toNat / 16)) ++ String.singleton (hexDigit (c.toNat % 16))
    else acc.push c) ""

mutual
  partial def emit : Json → String
    | .null => "null"
    | .bool true => "true"
    | .bool false => "false"
    | .num l => l
    | .str s => "\"" ++ escape s ++ "\""
    | .arr xs => "[" ++ ",".intercalate (xs.map emit) ++ "]"
    | .obj kvs => "{" ++ ",".intercalate (kvs.map fun kv => "\"" ++ escape kv.1 ++ "\":" ++ emit kv.2) ++ "}"
end

def answerFor (text : String) : String :=
  match parseText text with
  | .error .syntax => "err"
  | .error .unsupported => "unsupported"
  | .ok j => emit (canon j)

def handle (line : String) : String :=
  match parseText line with
  | .ok (.obj kvs) =>
    match kvs.find? (·.1 == "text") with
    | some (_, .str t) => answerFor t
    | _ => "unsupported"
  | _ => "unsupported"

end TypifyModel.Driver.C12

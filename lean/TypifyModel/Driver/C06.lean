import TypifyModel.Model.DefaultsWF
import TypifyModel.Driver.IrJson
import TypifyModel.Driver.Regex
/-! `drv_c06`: model side of the C06 correspondences. One JSON object per line:
    `{"dump": <verif_dump>, "probes": [{"id": n, "value": v}], "hasdefault": [{"id": n, "default": v?}]}`
    → `{"probes": [{validate, output_status, output, well_typed, value, default_fn}], "hasdefault": [..],
        "check": {status, defaults}, "defaults": [{type, prop, id, default, validate, output_status, output,
        well_typed, value, default_fn}]}`. -/
namespace TypifyModel.Driver.C06
open TypifyModel TypifyModel.Serde TypifyModel.Defaults TypifyModel.Driver

def ext : Ext := { regex := fun p s => (Regex.find? p s).getD false }

def fuel : Nat := 200

def numText : Num → String
  | .int n => toString n
  | .flt m e => renderDec m e

def commaSep (l : List String) : String := ",".intercalate l

/-- token text as the harness canonicalises it (no white space; string literals as JSON strings) -/
partial def render (scope : String) : RExpr → String
  | .structLit n fs => scope ++ n ++ "{" ++ commaSep (fs.map fun (k, e) => k ++ ":" ++
      (match e with | some a => render scope a | none => "Default::default()")) ++ "}"
  | .variantUnit t v => scope ++ t ++ "::" ++ v
  | .variantTuple t v args => scope ++ t ++ "::" ++ v ++ "(" ++ commaSep (args.map (render scope)) ++ ")"
  | .variantStruct t v fs =>
    scope ++ t ++ "::" ++ v ++ "{" ++ commaSep (fs.map fun (k, e) => k ++ ":" ++
      (match e with | some a => render scope a | none => "Default::default()")) ++ "}"
  | .newtype n (some e) => scope ++ n ++ "(" ++ render scope e ++ ")"
  | .newtype n none => scope ++ n ++ "()"
  | .some e => "::std::option::Option::Some(" ++ render scope e ++ ")"
  | .none => "::std::option::Option::None"
  | .boxNew e => "::std::boxed::Box::new(" ++ render scope e ++ ")"
  | .vecMacro es => "vec![" ++ commaSep (es.map (render scope)) ++ "]"
  | .array es => "[" ++ commaSep (es.map (render scope)) ++ "]"
  | .paren es tc => "(" ++ commaSep (es.map (render scope)) ++ (if tc then ",)" else ")")
  | .mapCollect kvs =>
    "[" ++ commaSep (kvs.map fun (k, v) => "(" ++ render scope k ++ "," ++ render scope v ++ ")") ++ "].into_iter().collect()"
  | .unit => "()"
  | .bool b => if b then "true" else "false"
  | .numLit n sfx => numText n ++ "_" ++ sfx
  | .nonZeroNew ty n => ty ++ "::new(" ++ numText n ++ ").unwrap()"
  | .str s => escapeStr s ++ ".to_string()"
  | .fromStr ty j => "::serde_json::from_str::<" ++ ty ++ ">(" ++ escapeStr (renderJson j) ++ ").unwrap()"

def kindText : DKind → String
  | .intrinsic => "Intrinsic"
  | .specific => "Specific"
  | .generic .boolean => "Generic(Boolean)"
  | .generic .i64 => "Generic(I64)"
  | .generic .u64 => "Generic(U64)"
  | .generic .nzu64 => "Generic(NZU64)"

def implText : DImpl → String
  | .boolean => "Boolean" | .i64 => "I64" | .u64 => "U64" | .nzu64 => "NZU64"

def vresText : VRes → String
  | .ok k => "ok:" ++ kindText k
  | .error .invalid => "err"
  | .error .panic => "panic"
  | .error .fuel => "fuel"

def showE : E → String
  | .fuel => "fuel" | .unsupported => "unsupported" | .reject => "reject"

/-- `se (eval e)` as JSON text, or a status word -/
def valueText (σ : Space) (t : Id) (e : RExpr) : String :=
  match eval ext σ fuel e t with
  | .error er => showE er
  | .ok v => match se σ fuel t v with
    | .ok j => "ok " ++ renderJson j
    | .error er => "se-" ++ showE er

/-- what the default function of a property computes, serialised -/
def fnText (σ : Space) (t : Id) (d : Json) : Json :=
  let run (kind ty : String) (n : Int) (nz : Bool) : Json :=
    let v := match genericRun ty n nz with
      | .value v => (match se σ fuel t v with | .ok j => "ok " ++ renderJson j | .error er => "se-" ++ showE er)
      | .panic => "panic"
      | .unsupported => "unsupported"
    .obj [("kind", .str kind), ("n", .int n), ("ty", .str ty), ("value", .str v)]
  match defaultFn ext σ fuel t d with
  | .boolTrue => .obj [("kind", .str "default_bool"), ("value", .str "ok true")]
  | .u64 ty n => run "default_u64" ty n false
  | .nzu64 ty n => run "default_nzu64" ty n true
  | .i64 ty n => run "default_i64" ty n false
  | .custom e => .obj [("body", .str (render "super::" e)), ("kind", .str "custom"), ("value", .str (valueText σ t e))]
  | .panic => .obj [("kind", .str "panic")]
  | .fuel => .obj [("kind", .str "fuel")]

def probeJson (σ : Space) (t : Id) (d : Json) : List (String × Json) :=
  let v := validateValue ext σ fuel t d
  let o := outputValue ext σ fuel t d
  let (st, text, wt, val) : String × Json × Json × Json := match o with
    | .ok e => ("ok", .str (render "super::" e), .bool (hasType σ fuel e t), .str (valueText σ t e))
    | .none => ("none", .null, .null, .null)
    | .panic => ("panic", .null, .null, .null)
    | .fuel => ("fuel", .null, .null, .null)
  [("default_fn", fnText σ t d), ("output", text), ("output_status", .str st), ("validate", .str (vresText v)),
   ("value", val), ("well_typed", wt), ("wf", .bool (WFDefault ext σ fuel t d))]

def stateJson : PropState → Json
  | .required => .str "required"
  | .optional => .str "optional"
  | .dflt d => .obj [("default", d)]

/-- every property with `state = dflt d` and every named type with a default -/
def defaultSites (σ : Space) : List (String × String × Id × Json) :=
  (σ.entries.map fun (id, ent) =>
    let whole : List (String × String × Id × Json) :=
      match ent.details with
      | .enum n _ _ _ (some d) _ | .struct n _ _ (some d) | .newtype n _ _ (some d) => [(n, "", id, d)]
      | _ => []
    let ofProps (owner : String) (ps : List Field) : List (String × String × Id × Json) :=
      ps.filterMap fun p => match p.state with | .dflt d => some (owner, p.name, p.ty, d) | _ => none
    let props : List (String × String × Id × Json) :=
      match ent.details with
      | .struct n ps _ _ => ofProps n ps
      | .enum n _ vs _ _ _ =>
        (vs.map fun v => match v.details with | .struct ps => ofProps (n ++ "::" ++ v.identName) ps | _ => []).flatten
      | _ => []
    whole ++ props).flatten

def dedupImpls (l : List DImpl) : List String :=
  let names := l.map implText
  ["Boolean", "I64", "U64", "NZU64"].filter names.contains

def handle (line : String) : String :=
  match parseJson line with
  | none => "{\"error\":\"bad json\"}"
  | some top =>
    match (jget top "dump").bind parseSpace with
    | none => "{\"error\":\"bad dump\"}"
    | some σ =>
      let probes := ((jget top "probes").bind jarr?).getD []
      let pa := probes.map fun p =>
        match (jget p "id").bind jnat?, jget p "value" with
        | some t, some d => Json.obj (probeJson σ t d)
        | _, _ => .obj [("error", .str "bad probe")]
      let hds := ((jget top "hasdefault").bind jarr?).getD []
      let ha := hds.map fun p =>
        match (jget p "id").bind jnat? with
        | some t =>
          let (s, w) := propState σ t (jget p "default")
          Json.obj [("state", stateJson s), ("wrapped", .bool w)]
        | none => .obj [("error", .str "bad request")]
      -- check_defaults over every entry, in id order (what finalize does)
      let chk := σ.entries.foldl (fun (acc : Except VErr (List DImpl)) (e : Id × Entry) =>
        match acc with
        | .error er => .error er
        | .ok l => match checkDefaults ext σ fuel e.1 with
          | .ok l' => .ok (l ++ l')
          | .error er => .error er) (.ok [])
      let chkJ : Json := match chk with
        | .ok l => .obj [("defaults", .arr ((dedupImpls l).map .str)), ("status", .str "ok")]
        | .error .invalid => .obj [("status", .str "err")]
        | .error .panic => .obj [("status", .str "panic")]
        | .error .fuel => .obj [("status", .str "fuel")]
      let sites := (defaultSites σ).map fun (owner, prop, t, d) =>
        Json.obj ([("default", d), ("id", .int t), ("prop", .str prop), ("type", .str owner)] ++ probeJson σ t d)
      renderJson (.obj [("check", chkJ), ("defaults", .arr sites), ("hasdefault", .arr ha), ("probes", .arr pa)])

end TypifyModel.Driver.C06

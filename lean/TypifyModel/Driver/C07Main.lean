import TypifyModel.Driver.Loop
import TypifyModel.Driver.C07
def main : IO UInt32 := TypifyModel.Driver.runLoop TypifyModel.Driver.C07.handle

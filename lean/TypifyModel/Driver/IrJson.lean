import TypifyModel.Model.Ir
import TypifyModel.Driver.JsonText
/-! Driver glue: `TypeSpace::verif_dump()` JSON → `Space`. -/
namespace TypifyModel.Driver
open TypifyModel

def jget (j : Json) (k : String) : Option Json :=
  match j with
  | .obj kvs => Json.lookup kvs k
  | _ => none

def jstr? : Json → Option String
  | .str s => some s
  | _ => none

def jnat? : Json → Option Nat
  | .int n => if n ≥ 0 then some n.toNat else none
  | _ => none

def jarr? : Json → Option (List Json)
  | .arr xs => some xs
  | _ => none

def jbool? : Json → Option Bool
  | .bool b => some b
  | _ => none

def optJson (j : Option Json) : Option Json :=
  match j with
  | some .null => none
  | x => x

def parseField (j : Json) : Option Field := do
  let name ← jstr? (← jget j "name")
  let ty ← jnat? (← jget j "type_id")
  let rename ← match jget j "rename" with
    | some .null => some Rename.none
    | some (.str "flatten") => some Rename.flatten
    | some r => (do let s ← jstr? (← jget r "rename"); some (Rename.rename s))
    | none => none
  let state ← match jget j "state" with
    | some (.str "required") => some PropState.required
    | some (.str "optional") => some PropState.optional
    | some s => (do let d ← jget s "default"; some (PropState.dflt d))
    | none => none
  some { name, rename, state, ty }

def parseVariant (j : Json) : Option Variant := do
  let raw ← jstr? (← jget j "raw_name")
  let ident := (jget j "ident_name").bind jstr? |>.getD raw
  let d ← jget j "details"
  let details ← match d with
    | .str "simple" => some VDetails.simple
    | _ =>
      match jget d "item", jget d "tuple", jget d "struct" with
      | some i, _, _ => (jnat? i).map VDetails.item
      | _, some t, _ => (do let xs ← jarr? t; let ids ← xs.mapM jnat?; some (VDetails.tuple ids))
      | _, _, some s => (do let xs ← jarr? s; let ps ← xs.mapM parseField; some (VDetails.struct ps))
      | _, _, _ => none
  some { rawName := raw, identName := ident, details }

def parseImpl (j : Json) : Option Impl :=
  match j with
  | .str "FromStr" => some .fromStr
  | .str "Display" => some .display
  | .str "Default" => some .default
  | _ => none

def parseBespoke (j : Json) : Option Bespoke :=
  match j with
  | .str "AllSimpleVariants" => some .allSimpleVariants
  | .str "UntaggedFromStr" => some .untaggedFromStr
  | .str "UntaggedDisplay" => some .untaggedDisplay
  | _ => none

def parseDetails (j : Json) : Option Details := do
  let kind ← jstr? (← jget j "kind")
  let id (k : String) : Option Nat := (jget j k).bind jnat?
  let ids (k : String) : Option (List Nat) := do let xs ← jarr? (← jget j k); xs.mapM jnat?
  let name : Option String := (jget j "name").bind jstr?
  let dflt := optJson (jget j "default")
  match kind with
  | "enum" => do
    let tag ← match jget j "tag" with
      | some (.str "external") => some Tag.external
      | some (.str "untagged") => some Tag.untagged
      | some t =>
        (match jget t "internal", jget t "adjacent" with
         | some (.str s), _ => some (Tag.internal s)
         | _, some (.arr [.str a, .str b]) => some (Tag.adjacent a b)
         | _, _ => none)
      | none => none
    let vs ← (← jarr? (← jget j "variants")).mapM parseVariant
    let deny ← jbool? (← jget j "deny")
    let bes ← (← jarr? (← jget j "bespoke")).mapM parseBespoke
    some (.enum (← name) tag vs deny dflt bes)
  | "struct" => do
    let ps ← (← jarr? (← jget j "props")).mapM parseField
    let deny ← jbool? (← jget j "deny")
    some (.struct (← name) ps deny dflt)
  | "newtype" => do
    let c ← match jget j "constraints" with
      | some .null => some Constraints.none
      | some c =>
        (match jget c "enum", jget c "deny", jget c "string" with
         | some (.arr vs), _, _ => some (Constraints.enumValues vs)
         | _, some (.arr vs), _ => some (Constraints.denyValues vs)
         | _, _, some s =>
           some (Constraints.string ((jget s "max").bind jnat?) ((jget s "min").bind jnat?)
             ((jget s "pattern").bind jstr?))
         | _, _, _ => none)
      | none => none
    some (.newtype (← name) (← id "type_id") c dflt)
  | "native" => some (.native (← jstr? (← jget j "type_name")) (← ids "parameters"))
  | "option" => some (.option (← id "id"))
  | "box" => some (.box (← id "id"))
  | "vec" => some (.vec (← id "id"))
  | "set" => some (.set (← id "id"))
  | "map" => some (.map (← id "key") (← id "value"))
  | "array" => some (.array (← id "id") (← id "len"))
  | "tuple" => some (.tuple (← ids "ids"))
  | "unit" => some .unit
  | "boolean" => some .boolean
  | "integer" => some (.integer (← name))
  | "float" => some (.float (← name))
  | "string" => some .string
  | "json_value" => some .jsonValue
  | "reference" => some (.reference (← id "id"))
  | _ => none

def parseEntry (j : Json) : Option Entry := do
  let d ← parseDetails j
  let impls := ((jget j "impls").bind jarr?).getD [] |>.filterMap parseImpl
  let ders := ((jget j "extra_derives").bind jarr?).getD [] |>.filterMap jstr?
  some { details := d, extraDerives := ders, impls }

def parseSpace (j : Json) : Option Space := do
  let es ← jget j "entries"
  match es with
  | .obj kvs =>
    let ents ← kvs.mapM (fun (k, v) => do
      let id ← k.toNat?
      let e ← parseEntry v
      some (id, e))
    let next := ((jget j "next_id").bind jnat?).getD 0
    some { entries := ents, nextId := next }
  | _ => none

end TypifyModel.Driver

import TypifyModel.Driver.Loop
import TypifyModel.Driver.Ir
def main : IO UInt32 := TypifyModel.Driver.runLoopS ({} : TypifyModel.Driver.Ir.St) TypifyModel.Driver.Ir.step

import TypifyModel.Driver.Loop
import TypifyModel.Driver.C13
def main : IO UInt32 := TypifyModel.Driver.runLoop TypifyModel.Driver.C13.handle

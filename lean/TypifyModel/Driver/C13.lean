import Lean.Data.Json
import TypifyModel.Model.RustExt
/-! Driver glue for slice `c13`: the request lines of `harness/src/bin/tvh_c13.rs` answered from the
    model (`Semver.parseReq/parseVersion/matchesReq`, `RustExt.decideType/decideDef`). -/
namespace TypifyModel.Driver.C13
open Lean TypifyModel TypifyModel.RustExt

def str? (j : Json) (k : String) : Option String :=
  match j.getObjVal? k with
  | .ok (.str s) => some s
  | _ => none

/-- a Rust path the generated code can name: `::`-separated identifiers -/
def isIdentStr (s : List Char) : Bool :=
  match s with
  | [] => false
  | ['_'] => false
  | c :: cs => (c.isAlpha || c == '_') && cs.all (fun d => d.isAlphanum || d == '_')

def splitPath : List Char → List Char → List (List Char)
  | [], cur => [cur.reverse]
  | ':' :: ':' :: r, cur => cur.reverse :: splitPath r []
  | c :: r, cur => splitPath r (c :: cur)

def validNative (p : String) : Bool :=
  match splitPath p.toList [] with
  | [] :: segs => !segs.isEmpty && segs.all isIdentStr
  | _ => false

def isPascal (s : String) : Bool :=
  match s.toList with
  | c :: cs => c.isUpper && cs.all Char.isAlphanum
  | [] => false

inductive ParamKind
  | ident (s : String)      -- converts to this type identifier
  | ref (key : String)      -- `$ref` to a definition

def paramKind (p : Json) : Option ParamKind :=
  match p.getObjVal? "$ref" with
  | .ok (.str r) =>
    if r.startsWith "#/definitions/" then some (.ref (r.drop 14).toString) else none
  | _ =>
    match str? p "type" with
    | some "string" => some (.ident "::std::string::String")
    | some "integer" => some (.ident "i64")
    | some "boolean" => some (.ident "bool")
    | some "object" =>
      match str? p "title" with
      | some t => if isPascal t then some (.ident t) else none
      | none => none
    | _ => none

/-- serde's view of the `x-rust-type` value: `none` = does not deserialise (→ generate);
    `some none` = outside the driver's domain -/
def parseExt (x : Json) : Option (Option (Ext × List ParamKind)) :=
  match x with
  | .obj _ =>
    match x.getObjVal? "crate", x.getObjVal? "version", x.getObjVal? "path" with
    | .ok (.str c), .ok (.str v), .ok (.str p) =>
      match x.getObjVal? "parameters" with
      | .error _ => some (some ({ crate := c, version := v, path := p, nparams := 0 }, []))
      | .ok (.arr ps) =>
        match ps.toList.mapM paramKind with
        | some ks => some (some ({ crate := c, version := v, path := p, nparams := ks.length }, ks))
        | none => some none
      | .ok _ => none
    | _, _, _ => none
  | .arr _ => some none      -- serde also accepts the positional form; not modelled
  | _ => none

def buildCfg (req : Json) : Option Cfg := do
  let unknown := match str? req "unknown" with
    | some "Allow" => UnknownPolicy.allow
    | some "Deny" => UnknownPolicy.deny
    | _ => UnknownPolicy.generate
  let crates := match req.getObjVal? "crates" with
    | .ok (.arr cs) => cs.toList
    | _ => []
  let mut cfg : Cfg := { unknown }
  for c in crates do
    match c with
    | .arr #[.str name, .str vers, rn] =>
      let v ← CrateVers.parse vers
      let rename := match rn with | .str r => some r | _ => none
      cfg := cfg.withCrate name { vers := v, rename }
    | _ => none
  return cfg

def showOutcome : Outcome → String
  | .generate => "generate"
  | .use i => "use " ++ i
  | .wrap n i => "wrap " ++ n ++ " " ++ i

def handleExt (req : Json) : String :=
  match buildCfg req with
  | none => "err cratevers"
  | some cfg =>
    let x := (req.getObjVal? "x").toOption.getD .null
    match parseExt x with
    | none => "generate"
    | some none => "unsupported"
    | some (some (e, kinds)) =>
      match RustExt.decide cfg e with
      | none => "generate"
      | some p =>
        if !validNative p then "unsupported" else
        match str? req "def" with
        | none =>
          -- add_type: a `$ref` parameter has no definition to resolve to
          if kinds.any (fun k => match k with | .ref _ => true | _ => false) then "panic" else
          let ps := kinds.map fun k => match k with | .ident s => s | .ref k => k
          showOutcome (decideType cfg e ps)
        | some key =>
          if !isPascal key || key == "Gizmo" || key == "Holder" then "unsupported" else
          -- the only other definition a parameter may refer to is `Gizmo`
          let gz : Option (Option Outcome) :=
            match (req.getObjVal? "gizmo_x").toOption.getD .null with
            | .null => some (some .generate)
            | gx =>
              match parseExt gx with
              | none => some (some .generate)
              | some none => none
              | some (some (ge, gk)) =>
                if !gk.isEmpty then none else
                match RustExt.decide cfg ge with
                | none => some (some .generate)
                | some gp => if validNative gp then some (some (decideDef cfg "Gizmo" ge [])) else none
          let ps : Option (List String) := kinds.mapM fun k =>
            match k with
            | .ident s => some s
            | .ref "Gizmo" => match gz with
              | some (some o) => some (o.ident "Gizmo")
              | _ => none
            | .ref _ => none
          match ps with
          | none => "unsupported"
          | some ps => showOutcome (decideDef cfg key e ps)

def handle (line : String) : String :=
  match Json.parse line with
  | .error _ => "unsupported"
  | .ok req =>
    match str? req "k" with
    | some "semver" =>
      match str? req "req", str? req "ver" with
      | some r, some v =>
        match Semver.parseReq r with
        | none => "err req"
        | some rq =>
          match Semver.parseVersion v with
          | none => "err ver"
          | some ver => "ok " ++ toString (Semver.matchesReq rq ver)
      | _, _ => "unsupported"
    | some "cratevers" =>
      match str? req "s" with
      | some s =>
        match CrateVers.parse s with
        | none => "none"
        | some .never => "never"
        | some .any => "any"
        | some (.version _) => "version"
      | none => "unsupported"
    | some "ext" => handleExt req
    | _ => "unsupported"

end TypifyModel.Driver.C13

import TypifyModel.Driver.Loop
import TypifyModel.Driver.C15
def main : IO UInt32 := TypifyModel.Driver.runLoop TypifyModel.Driver.C15.handle

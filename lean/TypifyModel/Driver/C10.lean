import Lean.Data.Json
import TypifyModel.Model.Integer
import TypifyModel.Generated.Tables
/-! Driver glue for slice `c10`: JSON schema line → `IntSchema` → `convertInteger`. -/
namespace TypifyModel.Driver.C10
open Lean TypifyModel TypifyModel.Integer

def getIntKey (j : Json) (k : String) : Except String (Option Int) :=
  match j.getObjVal? k with
  | .error _ => .ok none
  | .ok v => match v.getInt? with
    | .ok n => .ok (some n)
    | .error _ => .error "non-integer keyword"

def parseSchema (j : Json) : Except String IntSchema := do
  let ty ← j.getObjValAs? String "type"
  if ty != "integer" then throw "not integer"
  let format := (j.getObjValAs? String "format").toOption
  let minimum ← getIntKey j "minimum"
  let maximum ← getIntKey j "maximum"
  let exclusiveMinimum ← getIntKey j "exclusiveMinimum"
  let exclusiveMaximum ← getIntKey j "exclusiveMaximum"
  let multipleOf ← getIntKey j "multipleOf"
  let default ← match j.getObjVal? "default" with
    | .error _ => pure none
    | .ok (.num n) => match (Json.num n).getInt? with
        | .ok d => pure (some (DefaultV.num d))
        | .error _ => throw "non-integer default"
    | .ok .null => throw "null default"
    | .ok _ => pure (some DefaultV.other)
  return { format, minimum, maximum, exclusiveMinimum, exclusiveMaximum, multipleOf, default }

def handle (line : String) : String :=
  match Json.parse line with
  | .error _ => "unsupported"
  | .ok j =>
    match parseSchema j with
    | .error _ => "unsupported"
    | .ok s =>
      match convertInteger Generated.intFormats s with
      | .ok t => "ok " ++ t.name
      | .error .invalidValue => "err InvalidValue"

end TypifyModel.Driver.C10

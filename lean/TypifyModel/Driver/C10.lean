import Lean.Data.Json
import TypifyModel.Model.Integer
import TypifyModel.Generated.Tables
import TypifyModel.Model.ConvertString
import TypifyModel.Model.ConvertArray
import TypifyModel.Model.ConvertObject
import TypifyModel.Generated.StringFormats
import TypifyModel.Driver.Regex
/-! Driver glue for slice `c10`: JSON schema line → `IntSchema` → `convertInteger`. -/
namespace TypifyModel.Driver.C10
open Lean TypifyModel TypifyModel.Integer

def getIntKey (j : Json) (k : String) : Except String (Option Int) :=
  match j.getObjVal? k with
  | .error _ => .ok none
  | .ok v => match v.getInt? with
    | .ok n => .ok (some n)
    | .error _ => .error "non-integer keyword"

def parseSchema (j : Json) : Except String IntSchema := do
  let ty ← j.getObjValAs? String "type"
  if ty != "integer" then throw "not integer"
  let format := (j.getObjValAs? String "format").toOption
  let minimum ← getIntKey j "minimum"
  let maximum ← getIntKey j "maximum"
  let exclusiveMinimum ← getIntKey j "exclusiveMinimum"
  let exclusiveMaximum ← getIntKey j "exclusiveMaximum"
  let multipleOf ← getIntKey j "multipleOf"
  let default ← match j.getObjVal? "default" with
    | .error _ => pure none
    | .ok (.num n) => match (Json.num n).getInt? with
        | .ok d => pure (some (DefaultV.num d))
        | .error _ => throw "non-integer default"
    | .ok .null => throw "null default"
    | .ok _ => pure (some DefaultV.other)
  return { format, minimum, maximum, exclusiveMinimum, exclusiveMaximum, multipleOf, default }

def getNatKey (j : Json) (k : String) : Except String (Option Nat) :=
  match j.getObjVal? k with
  | .error _ => .ok none
  | .ok v => match v.getNat? with
    | .ok n => .ok (some n)
    | .error _ => .error "non-natural keyword"

def optStr : Option String → String
  | none => "-"
  | some s => (Json.str s).compress
def optNat : Option Nat → String
  | none => "-"
  | some n => toString n

/-- `{type: string, format?, minLength?, maxLength?, pattern?}` → `ConvertString.convertString` over the regenerated T2 -/
def handleString (j : Json) : String :=
  match getNatKey j "minLength", getNatKey j "maxLength" with
  | .ok mn, .ok mx =>
    let s : ConvertString.StrSchema :=
      { fmt := (j.getObjValAs? String "format").toOption, minLen := mn, maxLen := mx,
        pattern := (j.getObjValAs? String "pattern").toOption }
    let r := ConvertString.convertString Generated.stringFormats Generated.stringFormatFallback
      (fun p => (Driver.Regex.parse p).isSome) s
    let uses := " uses=" ++ ",".intercalate r.uses
    (match r.out with
     | .plain => "plain" ++ uses
     | .constrained mx mn pat => "constrained max=" ++ optNat mx ++ " min=" ++ optNat mn ++ " pat=" ++ optStr pat ++ uses
     | .native path impls => "native " ++ path ++ " impls=" ++ ",".intercalate impls ++ uses
     | .invalidPattern => "err InvalidSchema")
  | _, _ => "unsupported"

/-- `{type: array, items?, additionalItems?, minItems?, maxItems?, uniqueItems?, contains?}` → `ConvertArray.convertArray` -/
def handleArray (j : Json) : String :=
  match getNatKey j "minItems", getNatKey j "maxItems" with
  | .ok mn, .ok mx =>
    let items : ConvertArray.Items :=
      match j.getObjVal? "items" with
      | .ok (.arr xs) => .list xs.size
      | .ok _ => .single
      | .error _ => .none
    let v : ConvertArray.ArrV :=
      { items := items, additional := (j.getObjVal? "additionalItems").toOption.isSome, maxItems := mx, minItems := mn,
        unique := (j.getObjValAs? Bool "uniqueItems").toOption, contains := (j.getObjVal? "contains").toOption.isSome }
    (match ConvertArray.convertArray v with
     | .tuple n k r => "tuple n=" ++ toString n ++ " from_items=" ++ toString k ++ " rest=" ++ (if k < n then (if r then "additional" else "any") else "-")
     | .array n a => "array n=" ++ toString n ++ " item=" ++ (if a then "any" else "typed")
     | .vec a => "vec item=" ++ (if a then "any" else "typed")
     | .set a => "set item=" ++ (if a then "any" else "typed")
     | .invalid => "err InvalidSchema")
  | _, _ => "unsupported"

/-- `{type: object, properties?, required?, patternProperties?, additionalProperties?, propertyNames?}` →
    `ConvertObject.convertObject`; a bare `{type: object}` is the source's `None` validation -/
def handleObject (j : Json) : String :=
  let size (k : String) : Nat :=
    match j.getObjVal? k with
    | .ok (.obj m) => m.toList.length
    | .ok (.arr a) => a.size
    | _ => 0
  let pats : List Json := match j.getObjVal? "patternProperties" with | .ok (.obj m) => m.toList.map (·.2) | _ => []
  let same := match pats with | [] => true | p :: r => r.all (fun q => q.compress == p.compress)
  let addl : ConvertObject.Addl :=
    match j.getObjVal? "additionalProperties" with
    | .ok (.bool true) => .true_
    | .ok (.bool false) => .false_
    | .ok _ => .schema
    | .error _ => .absent
  let keys := ["properties", "required", "patternProperties", "additionalProperties", "propertyNames", "minProperties", "maxProperties"]
  let present := keys.any (fun k => (j.getObjVal? k).toOption.isSome)
  let v : ConvertObject.ObjV :=
    { present := present, required := size "required", properties := size "properties", patternProps := pats.length,
      patternSame := same, additional := addl, propertyNames := (j.getObjVal? "propertyNames").toOption.isSome }
  match ConvertObject.convertObject v with
  | .struct => "struct"
  | .map k w =>
    "map key=" ++ (match k with | .string => "string" | .propertyNames => "propertyNames" | .patterns => "patterns") ++
    " value=" ++ (match w with | .any => "any" | .additional => "additional" | .patternSchema => "pattern")

def handle (line : String) : String :=
  match Json.parse line with
  | .error _ => "unsupported"
  | .ok j =>
    if (j.getObjValAs? String "type").toOption == some "string" then handleString j else
    if (j.getObjValAs? String "type").toOption == some "array" then handleArray j else
    if (j.getObjValAs? String "type").toOption == some "object" then handleObject j else
    match parseSchema j with
    | .error _ => "unsupported"
    | .ok s =>
      match convertInteger Generated.intFormats s with
      | .ok t => "ok " ++ t.name
      | .error .invalidValue => "err InvalidValue"

end TypifyModel.Driver.C10

import Lean.Data.Json
import TypifyModel.Model.Frontends
import TypifyModel.Generated.Frontends
/-! Driver glue for slice `c15`: JSON request → the front-end model → canonical JSON answer.

Requests (one JSON object per line):
* `{"op":"spec","s":"base64@0.21.0"}`           → `ok <json CrateSpec>` | `err`
* `{"op":"mspec","key":"b","value":"c@1.0.0"}`  → `ok <json>` | `err`
* `{"op":"cli","args":{…RawCli…}}`              → `usage-error` | `{"settings":…,"out":…}`
* `{"op":"macro","opts":{…}}`                   → `macro-error` | `{"settings":…}`
`unsupported`: outside the model's domain (non-ASCII in a crate specifier, duplicate map keys,
input path without an ordinary file name). Only glue lives here: JSON, and an executable
`validVers` (the strict SemVer 2.0 grammar `semver::Version::parse` implements). -/
namespace TypifyModel.Driver.C15
open Lean TypifyModel TypifyModel.Frontends

/-! ### executable `validVers`: MAJOR.MINOR.PATCH[-pre][+build], numeric parts without leading zeros -/

def splitOnGo (d : Char) : List Char → List Char → List (List Char)
  | [], acc => [acc.reverse]
  | c :: t, acc => if c = d then acc.reverse :: splitOnGo d t [] else splitOnGo d t (c :: acc)

def splitOn (d : Char) (s : List Char) : List (List Char) := splitOnGo d s []

def isNumericId (s : List Char) : Bool :=
  !s.isEmpty && s.all Char.isDigit && (s.length == 1 || s.head? != some '0')

def isIdentChar (c : Char) : Bool := c.isAlphanum || c == '-'

def isPreId (s : List Char) : Bool :=
  !s.isEmpty && s.all isIdentChar && (if s.all Char.isDigit then isNumericId s else true)

def isBuildId (s : List Char) : Bool := !s.isEmpty && s.all isIdentChar

/-- fits `u64` (semver rejects larger numeric parts) -/
def fitsU64 (s : List Char) : Bool := (String.ofList s).toNat! < 18446744073709551616

def validVers (s : List Char) : Bool :=
  let (core, build) := match splitFirst '+' s with
    | some (a, b) => (a, some b)
    | none => (s, none)
  let (nums, pre) := match splitFirst '-' core with
    | some (a, b) => (a, some b)
    | none => (core, none)
  let parts := splitOn '.' nums
  parts.length == 3 && parts.all (fun p => isNumericId p && fitsU64 p) &&
  (match pre with | some p => (splitOn '.' p).all isPreId | none => true) &&
  (match build with | some b => (splitOn '.' b).all isBuildId | none => true)

/-! ### JSON out -/

def jOptStr : Option String → Json
  | some s => Json.str s
  | none => Json.null

def jVers : CrateVers → Json
  | .any => "*"
  | .never => "!"
  | .version v => Json.str v

def jImpl : Impl → Json
  | .fromStr => "FromStr"
  | .display => "Display"
  | .default => "Default"

def jPolicy : UnknownPolicy → Json
  | .generate => "generate"
  | .allow => "allow"
  | .deny => "deny"

def jSettings (s : Settings) : Json :=
  Json.mkObj [
    ("type_mod", jOptStr s.typeMod),
    ("derives", Json.arr (s.extraDerives.map Json.str).toArray),
    ("struct_builder", Json.bool s.structBuilder),
    ("unknown", jPolicy s.unknownCrates),
    ("crates", Json.arr (s.crates.map (fun (k, e) =>
      Json.arr #[Json.str k, Json.mkObj [("vers", jVers e.version), ("rename", jOptStr e.rename)]])).toArray),
    ("map_type", Json.str s.mapType),
    ("patch", Json.arr (s.patch.map (fun (k, p) =>
      Json.arr #[Json.str k, Json.mkObj [("rename", jOptStr p.rename),
        ("derives", Json.arr (p.derives.map Json.str).toArray)]])).toArray),
    ("replace", Json.arr (s.replace.map (fun (k, r) =>
      Json.arr #[Json.str k, Json.mkObj [("type", Json.str r.replaceType),
        ("impls", Json.arr (r.impls.map jImpl).toArray)]])).toArray),
    ("convert", Json.arr (s.convert.map (fun c =>
      Json.mkObj [("schema", Json.str c.schema), ("type", Json.str c.typeName),
        ("impls", Json.arr (c.impls.map jImpl).toArray)])).toArray)]

def jSpec (c : CrateSpec) : Json :=
  Json.mkObj [("name", Json.str c.name), ("vers", jVers c.version), ("rename", jOptStr c.rename)]

/-! ### JSON in -/

def optStr (j : Json) (k : String) : Except String (Option String) :=
  match j.getObjVal? k with
  | .error _ => .ok none
  | .ok .null => .ok none
  | .ok (.str s) => .ok (some s)
  | .ok _ => .error ("string or null expected at " ++ k)

def getBoolD (j : Json) (k : String) : Bool :=
  match j.getObjVal? k with
  | .ok (.bool b) => b
  | _ => false

def strList (j : Json) (k : String) : Except String (List String) :=
  match j.getObjVal? k with
  | .error _ => .ok []
  | .ok v => do
    let a ← v.getArr?
    a.toList.mapM (fun x => x.getStr?)

def ascii (s : String) : Bool := s.toList.all (fun c => c.val < 128)

def parseRaw (j : Json) : Except String RawCli := do
  let input ← j.getObjValAs? String "input"
  let output ← optStr j "output"
  let mapType ← optStr j "map_type"
  let unknown ← optStr j "unknown"
  let derives ← strList j "derives"
  let crates ← strList j "crates"
  return { input, builder := getBoolD j "builder", noBuilder := getBoolD j "no_builder",
           additionalDerives := derives, output, crates, mapType, unknownCrates := unknown }

def parseTokPath (j : Json) : Except String TokPath := do
  let segs ← strList j "segs"
  return { leading := getBoolD j "leading", segs }

def parseTypeAndImpls (j : Json) : Except String TypeAndImpls := do
  let ty ← j.getObjVal? "type"
  let typeName ← parseTokPath ty
  let impls ← match j.getObjVal? "impls" with
    | .error _ => pure []
    | .ok v => do
      let a ← v.getArr?
      a.toList.mapM (fun x => do
        let name ← x.getObjValAs? String "name"
        pure (⟨getBoolD x "maybe", name⟩ : ImplTrait))
  return { typeName, impls }

def pairs (j : Json) (k : String) : Except String (List (String × Json)) :=
  match j.getObjVal? k with
  | .error _ => .ok []
  | .ok v => do
    let a ← v.getArr?
    a.toList.mapM (fun x => do
      let p ← x.getArr?
      if p.size != 2 then throw "pair expected"
      let key ← p[0]!.getStr?
      pure (key, p[1]!))

def nodupKeys {β : Type} (l : List (String × β)) : Bool :=
  match l with
  | [] => true
  | (k, _) :: t => !(t.any (fun e => e.1 == k)) && nodupKeys t

/-- listing of a deserialised map in the iteration order of its collection kind -/
def listing {β : Type} (c : Coll) (l : List (String × β)) : List (String × β) :=
  match c with
  | .btree => l.foldl (fun m e => mapInsert e.1 e.2 m) []
  | _ => l

inductive MacroIn where
  | ok (o : MacroOpts)
  | macroError
  | unsupported

def parsePolicyCap (s : String) : Option UnknownPolicy :=
  if s = "Generate" then some .generate
  else if s = "Allow" then some .allow
  else if s = "Deny" then some .deny
  else none

def parseMacro (cs : CharSem) (j : Json) : Except String MacroIn := do
  let derives ← match j.getObjVal? "derives" with
    | .error _ => pure []
    | .ok v => do let a ← v.getArr?; a.toList.mapM parseTokPath
  let unknown ← optStr j "unknown"
  let mapType ← optStr j "map_type"
  let cratesRaw ← pairs j "crates"
  let patchRaw ← pairs j "patch"
  let replaceRaw ← pairs j "replace"
  let convertRaw ← pairs j "convert"
  if !(nodupKeys cratesRaw && nodupKeys patchRaw && nodupKeys replaceRaw) then return .unsupported
  let mut crates : List (String × MacroCrateSpec) := []
  for (k, v) in cratesRaw do
    let vs ← v.getStr?
    if !(ascii k && ascii vs) then return .unsupported
    match parseMacroCrate (Generated.macroIsCrate cs) validVers k.toList vs.toList with
    | some e => crates := crates ++ [e]
    | none => return .macroError
  let patch ← patchRaw.mapM (fun (k, v) => do
    let rename ← optStr v "rename"
    let ds ← match v.getObjVal? "derives" with
      | .error _ => pure []
      | .ok d => do let a ← d.getArr?; a.toList.mapM parseTokPath
    pure (k, (⟨rename, ds⟩ : MacroPatch)))
  let replace ← replaceRaw.mapM (fun (k, v) => do pure (k, ← parseTypeAndImpls v))
  let convert ← convertRaw.mapM (fun (k, v) => do pure (k, ← parseTypeAndImpls v))
  let pol ← match unknown with
    | none => pure UnknownPolicy.generate
    | some u => match parsePolicyCap u with
      | some p => pure p
      | none => return .macroError
  return .ok {
    derives, structBuilder := getBoolD j "struct_builder", unknownCrates := pol,
    crates := listing Generated.macroCratesColl crates,
    mapType := mapType.getD defaultMapType,
    patch := listing Generated.macroPatchColl patch,
    replace := listing Generated.macroReplaceColl replace,
    convert }

def jOut : Output → Json
  | .stdout => "stdout"
  | .file p => Json.str ("file:" ++ p)

def handleJson (j : Json) : Except String String := do
  let cs := CharSem.ascii
  let op ← j.getObjValAs? String "op"
  match op with
  | "spec" =>
    let s ← j.getObjValAs? String "s"
    if !ascii s then return "unsupported"
    match parseCrateSpec (Generated.cliIsCrate cs) validVers s.toList with
    | some c => return "ok " ++ (jSpec c).compress
    | none => return "err"
  | "mspec" =>
    let k ← j.getObjValAs? String "key"
    let v ← j.getObjValAs? String "value"
    if !(ascii k && ascii v) then return "unsupported"
    match parseMacroCrate (Generated.macroIsCrate cs) validVers k.toList v.toList with
    | some (n, c) => return "ok " ++ (Json.mkObj [("name", Json.str n), ("original", jOptStr c.original),
        ("vers", jVers c.version)]).compress
    | none => return "err"
  | "cli" =>
    let a ← j.getObjVal? "args"
    let raw ← parseRaw a
    if !(raw.crates.all ascii) then return "unsupported"
    match parseCli (Generated.cliIsCrate cs) validVers raw with
    | none => return "usage-error"
    | some args =>
      match cliSettings args, outputPath args with
      | some s, some o => return (Json.mkObj [("settings", jSettings s), ("out", jOut o)]).compress
      | none, _ => return "panic"
      | _, none => return "unsupported"
  | "macro" =>
    let o ← j.getObjVal? "opts"
    match ← parseMacro cs o with
    | .unsupported => return "unsupported"
    | .macroError => return "macro-error"
    | .ok opts =>
      return (Json.mkObj [("settings", jSettings (macroSettings Generated.macroDefaultImpls opts))]).compress
  | _ => throw "unknown op"

def handle (line : String) : String :=
  match Json.parse line with
  | .error e => "bad-request " ++ e
  | .ok j =>
    match handleJson j with
    | .ok s => s
    | .error e => "bad-request " ++ e

end TypifyModel.Driver.C15

import TypifyModel.Model.Dispatch
import TypifyModel.Driver.JsonText
/-! Driver glue for slice `disp`: one JSON schema per line → `Dispatch.resolve` → the name of the arm. -/
namespace TypifyModel.Driver.Disp
open TypifyModel TypifyModel.Dispatch

def armName : Arm → String
  | .never => "never" | .permissive => "permissive" | .nullOnly => "nullOnly"
  | .optionOf t => "optionOf " ++ jtName t
  | .string => "string" | .stringUntyped => "stringUntyped" | .enumString => "enumString" | .integer => "integer"
  | .number => "number" | .boolean => "boolean" | .object => "object" | .objectUntyped => "objectUntyped"
  | .array => "array" | .arrayUntyped => "arrayUntyped" | .arrayOfAny => "arrayOfAny" | .null => "null"
  | .reference => "reference" | .referenceTyped => "referenceTyped" | .referenceMerged => "referenceMerged"
  | .typedEnum => "typedEnum" | .unknownEnum => "unknownEnum"
  | .allOf => "allOf" | .anyOf => "anyOf" | .oneOf => "oneOf" | .not => "not"
  | .subschemasMerged => "subschemasMerged" | .subschemasWithRest => "subschemasWithRest"
  | .multiType ts => "multiType " ++ " ".intercalate (ts.map jtName)
  | .todo => "todo" | .malformed => "malformed"

def handle (line : String) : String :=
  match parseJson line with
  | some j =>
    (match resolve 8 j, j with
     | .optionOf t, .obj kvs => armName (.optionOf t) ++ " -> " ++ armName (optionInnerArm 8 kvs t)
     | a, _ => armName a)
  | none => "badrequest"

end TypifyModel.Driver.Disp

import TypifyModel.Driver.Loop
import TypifyModel.Driver.Disp
def main : IO UInt32 := TypifyModel.Driver.runLoop TypifyModel.Driver.Disp.handle

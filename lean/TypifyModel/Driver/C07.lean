import Lean.Data.Json
import TypifyModel.Model.Cycles
/-! Driver glue for slice `c07`: `{"graph": {"<id>": node…}, "lo": n, "hi": n}` → `breakCycles` →
    `{"next": n, "nodes": {"<id>": node…}}` in the same node format.  Answers `unsupported` when the
    graph is outside the model's domain (ill-formed: missing child / root, id ≥ next, two `Box`
    entries for one target). -/
namespace TypifyModel.Driver.C07
open Lean TypifyModel TypifyModel.Cycles

def getNat (j : Json) (k : String) : Except String Nat := j.getObjValAs? Nat k
def getNats (j : Json) (k : String) : Except String (List Nat) := do
  let a ← j.getObjValAs? (Array Nat) k
  return a.toList
def natsOf (j : Json) : Except String (List Nat) := do
  let a ← (fromJson? j : Except String (Array Nat))
  return a.toList

def parseVariant (j : Json) : Except String Variant :=
  match j.getObjVal? "item" with
  | .ok x => do return .item (← fromJson? x)
  | .error _ =>
    match j.getObjVal? "tuple" with
    | .ok x => do return .tuple (← natsOf x)
    | .error _ =>
      match j.getObjVal? "struct" with
      | .ok x => do return .struct (← natsOf x)
      | .error _ => return .simple

def parseNode (j : Json) : Except String Node := do
  let k ← j.getObjValAs? String "kind"
  match k with
  | "struct" => return .struct (← getNats j "props")
  | "newtype" => return .newtype (← getNat j "type_id")
  | "enum" =>
    let vs ← j.getObjValAs? (Array Json) "variants"
    return .enum (← vs.toList.mapM parseVariant)
  | "option" => return .option (← getNat j "id")
  | "array" => return .array (← getNat j "id") (← getNat j "len")
  | "tuple" => return .tuple (← getNats j "ids")
  | "box" => return .box (← getNat j "id")
  | "vec" => return .vec (← getNat j "id")
  | "set" => return .set (← getNat j "id")
  | "map" => return .map (← getNat j "key") (← getNat j "value")
  | _ => return .leaf

def ofList (nodes : List (Nat × Node)) (next : Nat) : G :=
  { get := fun i => nodes.lookup i, next := next }

def parseReq (j : Json) : Except String (List (Nat × Node) × Nat × Nat × Nat) := do
  let gj ← j.getObjVal? "graph"
  let kvs ← gj.getObj?
  let nodes ← kvs.toList.mapM (fun (k, v) => do
    let id ← match k.toNat? with | some n => pure n | none => throw "bad id"
    let n ← parseNode v
    return (id, n))
  let lo ← getNat j "lo"
  let hi ← getNat j "hi"
  let mx := nodes.foldl (fun m p => max m p.1) 0
  let next := match j.getObjValAs? Nat "next" with | .ok n => n | .error _ => mx + 1
  return (nodes, next, lo, hi)

def natsJ (l : List Nat) : String := "[" ++ ",".intercalate (l.map toString) ++ "]"

def variantJ : Variant → String
  | .simple => "{}"
  | .item i => "{\"item\":" ++ toString i ++ "}"
  | .tuple is => "{\"tuple\":" ++ natsJ is ++ "}"
  | .struct is => "{\"struct\":" ++ natsJ is ++ "}"

def nodeJ : Node → String
  | .struct ps => "{\"kind\":\"struct\",\"props\":" ++ natsJ ps ++ "}"
  | .newtype i => "{\"kind\":\"newtype\",\"type_id\":" ++ toString i ++ "}"
  | .enum vs => "{\"kind\":\"enum\",\"variants\":[" ++ ",".intercalate (vs.map variantJ) ++ "]}"
  | .option i => "{\"kind\":\"option\",\"id\":" ++ toString i ++ "}"
  | .array i n => "{\"kind\":\"array\",\"id\":" ++ toString i ++ ",\"len\":" ++ toString n ++ "}"
  | .tuple is => "{\"kind\":\"tuple\",\"ids\":" ++ natsJ is ++ "}"
  | .box i => "{\"kind\":\"box\",\"id\":" ++ toString i ++ "}"
  | .vec i => "{\"kind\":\"vec\",\"id\":" ++ toString i ++ "}"
  | .set i => "{\"kind\":\"set\",\"id\":" ++ toString i ++ "}"
  | .map k v => "{\"kind\":\"map\",\"key\":" ++ toString k ++ ",\"value\":" ++ toString v ++ "}"
  | .leaf => "{\"kind\":\"leaf\"}"

def dumpG (g : G) : String :=
  let ents := (List.range g.next).filterMap (fun i =>
    match g.get i with
    | none => none
    | some n => some ("\"" ++ toString i ++ "\":" ++ nodeJ n))
  "{\"next\":" ++ toString g.next ++ ",\"nodes\":{" ++ ",".intercalate ents ++ "}}"

/-- domain of the correspondence: what `add_ref_types` hands to `break_cycles` -/
def inDomain (nodes : List (Nat × Node)) (next lo hi : Nat) : Bool :=
  let g := ofList nodes next
  nodes.all (fun p => decide (p.1 < next))
  && wfB g lo hi
  -- `type_to_id` holds at most one `Box(c)` entry per target
  && nodes.all (fun p => match p.2 with
      | .box c => nodes.all (fun q => decide (q.1 = p.1) || decide (q.2 ≠ .box c))
      | _ => true)

def handle (line : String) : String :=
  match Json.parse line with
  | .error _ => "unsupported"
  | .ok j =>
    match parseReq j with
    | .error _ => "unsupported"
    | .ok (nodes, next, lo, hi) =>
      if !inDomain nodes next lo hi then "unsupported" else
      match breakCycles (ofList nodes next) lo hi with
      | none => "fuel"
      | some r => dumpG r

end TypifyModel.Driver.C07

import TypifyModel.Driver.Loop
import TypifyModel.Driver.C08
def main : IO UInt32 := TypifyModel.Driver.runLoop TypifyModel.Driver.C08.handle

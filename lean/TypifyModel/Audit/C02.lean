import TypifyModel.Proofs.C02
open TypifyModel.C02 TypifyModel.Conv
#print axioms struct_accepts
#print axioms variant_accepts
#print axioms dflt_ne_reject
#print axioms convD_accepts
#print axioms conv_accepts

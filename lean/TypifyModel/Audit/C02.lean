import TypifyModel.Proofs.C02
import TypifyModel.Proofs.Tagging
import TypifyModel.Proofs.TaggingComplete
open TypifyModel.C02 TypifyModel.Conv
#print axioms struct_accepts
#print axioms variant_accepts
#print axioms dflt_ne_reject
#print axioms convD_accepts
#print axioms conv_accepts
#print axioms TypifyModel.Tagging.intTag_sound
#print axioms TypifyModel.Tagging.intTag_complete
#print axioms TypifyModel.Tagging.intTag_exact
#print axioms TypifyModel.Tagging.intTag_none_iff
#print axioms TypifyModel.Tagging.internal_panics_only_on_assert
#print axioms TypifyModel.Tagging.external_names_nodup
#print axioms TypifyModel.Tagging.tagged_branches_exclusive
#print axioms TypifyModel.Tagging.adjacent_sound

import TypifyModel.Proofs.C06
import TypifyModel.Proofs.C06Findings
open TypifyModel.C06
#print axioms default_value_partial
#print axioms bad_default_partial
#print axioms bad_default_is_err
#print axioms generic_default
#print axioms generic_default_reaches
#print axioms no_late_panic_partial
#print axioms default_same_builder
#print axioms default_same_de_dflt
#print axioms default_same_build
#print axioms default_fn_value
#print axioms default_value_full_false

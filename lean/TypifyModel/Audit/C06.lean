import TypifyModel.Proofs.C06
import TypifyModel.Proofs.C06Findings
import TypifyModel.Proofs.StructProps
import TypifyModel.Proofs.SerdeAttrs
open TypifyModel.C06
#print axioms default_value_partial
#print axioms bad_default_partial
#print axioms bad_default_is_err
#print axioms generic_default
#print axioms generic_default_reaches
#print axioms no_late_panic_partial
#print axioms default_same_builder
#print axioms default_same_de_dflt
#print axioms default_same_build
#print axioms default_fn_value
#print axioms default_value_full_false
#print axioms TypifyModel.StructProps.optional_member_never_required
#print axioms TypifyModel.StructProps.bare_default_agrees_with_schema
#print axioms TypifyModel.StructProps.dflt_keeps_value
#print axioms TypifyModel.StructProps.wrapped_iff_nothing_to_fall_back_on
#print axioms TypifyModel.SerdeAttrs.skipped_eq_rendered
#print axioms TypifyModel.SerdeAttrs.skip_only_with_bare_default
#print axioms TypifyModel.SerdeAttrs.skipped_value_is_intrinsic_default

import TypifyModel.Proofs.Exclusive
import TypifyModel.Proofs.C03
import TypifyModel.Proofs.C03Valid
import TypifyModel.Proofs.C03Contain
import TypifyModel.Proofs.SerdeAttrs
import TypifyModel.Proofs.StructProps
open TypifyModel.C03 TypifyModel.RoundTrip
#print axioms struct_rt
#print axioms fields_back
#print axioms art_step
#print axioms de_se_de
#print axioms roundtrip_value
#print axioms rt_fixed_point
#print axioms rt_contains_all
#print axioms rt_contains
#print axioms roundtrip_contains
#print axioms struct_roundtrip_contains
#print axioms variant_roundtrip_contains
#print axioms TypifyModel.C03V.rt_valid_enforced
#print axioms TypifyModel.Excl.required_undeclared_sound_closed
#print axioms TypifyModel.Excl.open_branch_not_exclusive
#print axioms TypifyModel.Excl.fixed_values_not_exclusive
#print axioms TypifyModel.Excl.typed_enum_not_exclusive
#print axioms TypifyModel.Excl.integer_number_not_exclusive
#print axioms TypifyModel.SerdeAttrs.skipped_eq_rendered
#print axioms TypifyModel.SerdeAttrs.skip_only_with_bare_default
#print axioms TypifyModel.SerdeAttrs.skipped_value_is_intrinsic_default
#print axioms TypifyModel.StructProps.wrapped_iff_nothing_to_fall_back_on

import TypifyModel.Proofs.C03
open TypifyModel.C03 TypifyModel.RoundTrip
#print axioms struct_rt
#print axioms fields_back
#print axioms art_step
#print axioms de_se_de
#print axioms roundtrip_value
#print axioms rt_fixed_point

import TypifyModel.Proofs.C19
open TypifyModel.C19
#print axioms tables_ok
#print axioms tables_advertised
#print axioms tables_derivable
#print axioms all_pub
#print axioms from_ref
#print axioms base_traits
#print axioms simple_enum_traits
#print axioms string_newtype_traits
#print axioms derives_origin

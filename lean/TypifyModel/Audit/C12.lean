import TypifyModel.Proofs.C12
open TypifyModel.C12
#print axioms parse_perm
#print axioms parse_sorted
#print axioms parse_keys
#print axioms parse_dup_last_wins
#print axioms parse_dup_order_matters
#print axioms canon_perm
#print axioms unique_iff_nodup
#print axioms unique_perm
#print axioms len_perm
#print axioms len_repr
#print axioms contains_perm
#print axioms lookup_perm
#print axioms counts_perm
#print axioms subset_perm
#print axioms sorted_perm
#print axioms sorted_is_sort
#print axioms keyed_insert_perm
#print axioms keyed_insert_not_injective
#print axioms hash_sites_ok
#print axioms no_preserve_order
#print axioms render_pure
#print axioms no_hidden_state

import TypifyModel.Proofs.C01
import TypifyModel.Proofs.C01Findings
import TypifyModel.Proofs.Dispatch
import TypifyModel.Proofs.DispatchFuel
import TypifyModel.Proofs.DispatchSourceAll
import TypifyModel.Proofs.DispatchFragmentSource
open TypifyModel.C01
#print axioms wf_compiles
#print axioms wf_unique_items
#print axioms wf_fields_distinct
#print axioms wf_types_resolve
#print axioms wf_type_names_declared
#print axioms wf_impls_coherent
#print axioms derives_ok_of_tables
#print axioms wf_derivable
#print axioms wf_finite_size
#print axioms wf_no_containment_cycle
#print axioms wf_serde_legal
#print axioms display_literals_valid
#print axioms render_total
#print axioms panic_sites_covered
#print axioms tables_derivable
#print axioms exSpace_wf
#print axioms TypifyModel.Wf.typeIdent_eq_render
#print axioms TypifyModel.Wf.modOf_summary
#print axioms TypifyModel.Wf.modOf_types
#print axioms TypifyModel.Wf.byValue_rank
#print axioms TypifyModel.C01Findings.nullableDef_not_compiles
#print axioms TypifyModel.C01Findings.tuple13_not_compiles
#print axioms TypifyModel.C01Findings.setVec_not_compiles
#print axioms TypifyModel.C01Findings.aliasCycle_not_compiles
#print axioms TypifyModel.C01.wf_deref_finite
#print axioms TypifyModel.Dispatch.fragment_never_todo
#print axioms TypifyModel.Dispatch.todo_witnesses
#print axioms TypifyModel.Dispatch.again_decreases
#print axioms TypifyModel.Dispatch.resolve_three_suffices
#print axioms TypifyModel.Dispatch.resolve_total
#print axioms TypifyModel.Dispatch.source_arms_as_read
#print axioms TypifyModel.Dispatch.typed_arms_agree
#print axioms TypifyModel.Dispatch.source_first_match
#print axioms TypifyModel.Dispatch.fragment_source_arm
#print axioms TypifyModel.Dispatch.typed_arms_callees
#print axioms TypifyModel.Dispatch.first_arm_nullable
#print axioms TypifyModel.Dispatch.rewrite_arms_callees
#print axioms TypifyModel.Dispatch.rewrite_arms_agree_multi
#print axioms TypifyModel.Dispatch.rewrite_arms_agree_none
#print axioms TypifyModel.Dispatch.rewrite_arms_agree_single
#print axioms TypifyModel.Dispatch.armsRewrite_is_rwModel
#print axioms TypifyModel.Dispatch.subschema_arms_agree
#print axioms TypifyModel.Dispatch.soleArm_is_soleArmB

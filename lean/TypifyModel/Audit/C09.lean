import TypifyModel.Proofs.C09
import TypifyModel.Proofs.C09Findings
open TypifyModel.C09
#print axioms merge_inter_partial
#print axioms merge_never_partial
#print axioms merge_all_inter_partial
#print axioms merge_all_never_partial
#print axioms merge_perm_partial
#print axioms merge_perm_never_partial
#print axioms TypifyModel.Merge.tryMerge_spec
#print axioms TypifyModel.Merge.valid_det
#print axioms merge_inter_false
#print axioms merge_never_false
#print axioms merge_all_inter_false
#print axioms merge_perm_false
#print axioms gap_intNumber
#print axioms gap_arrayItems
#print axioms gap_notDropped
#print axioms gap_notRequired
#print axioms gap_overlap
#print axioms gap_roughlyArray
#print axioms gap_order

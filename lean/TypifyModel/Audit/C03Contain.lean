import TypifyModel.Proofs.C03Contain
open TypifyModel.C03 TypifyModel.Contain
#print axioms struct_contained
#print axioms cat_step
#print axioms rt_contains_all
#print axioms rt_contains
#print axioms roundtrip_contains
#print axioms struct_roundtrip_contains
#print axioms variant_roundtrip_contains

import TypifyModel.Proofs.C17
open TypifyModel.C17
#print axioms fieldS_facts
#print axioms api_props_eq_fields
#print axioms api_variants_eq
#print axioms api_inner_eq
#print axioms builder_iff
#print axioms has_impl_sound_partial

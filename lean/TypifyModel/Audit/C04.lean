import TypifyModel.Proofs.C04
import TypifyModel.Proofs.Tagging
import TypifyModel.Proofs.TaggingComplete
#print axioms TypifyModel.C04.wire_exchange
#print axioms TypifyModel.C04.wire_exchange_de
#print axioms TypifyModel.C04.wire_exchange_B
#print axioms TypifyModel.WireEq.acc_sound
#print axioms TypifyModel.WireEq.de_ty
#print axioms TypifyModel.WireEq.dflt_ty
#print axioms TypifyModel.Tagging.intTag_sound
#print axioms TypifyModel.Tagging.intTag_complete
#print axioms TypifyModel.Tagging.intTag_exact
#print axioms TypifyModel.Tagging.intTag_none_iff
#print axioms TypifyModel.Tagging.tagged_branches_exclusive
#print axioms TypifyModel.Tagging.external_names_nodup
#print axioms TypifyModel.Tagging.adjacent_sound
#print axioms TypifyModel.Tagging.internal_panics_only_on_assert

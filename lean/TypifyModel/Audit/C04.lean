import TypifyModel.Proofs.C04
#print axioms TypifyModel.C04.wire_exchange
#print axioms TypifyModel.C04.wire_exchange_de
#print axioms TypifyModel.C04.wire_exchange_B
#print axioms TypifyModel.WireEq.acc_sound
#print axioms TypifyModel.WireEq.de_ty
#print axioms TypifyModel.WireEq.dflt_ty

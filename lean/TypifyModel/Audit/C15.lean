import TypifyModel.Proofs.C15
open TypifyModel.C15
#print axioms t7_cli_exact_ascii
#print axioms t7_macro_exact_ascii
#print axioms cli_macro_same_names
#print axioms spec_accepts
#print axioms spec_accepts_rename
#print axioms spec_rejects
#print axioms spec_sound
#print axioms macro_spec_accepts
#print axioms macro_spec_accepts_plain
#print axioms cli_eq_builder
#print axioms cli_documented
#print axioms macro_eq_builder
#print axioms macro_impls_order_fixed
#print axioms macro_order_irrelevant
#print axioms macro_crates_order_partial
#print axioms macro_documented
#print axioms impls_default
#print axioms impls_set_mem
#print axioms out_path
#print axioms set_extension_replaces
#print axioms set_extension_appends
#print axioms fail_writes_nothing
#print axioms bad_spec_fails
#print axioms same_settings_same_items
#print axioms frontends_same_items

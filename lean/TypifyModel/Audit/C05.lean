import TypifyModel.Proofs.C05
import TypifyModel.Proofs.C05Enc
import TypifyModel.Proofs.Tagging
import TypifyModel.Proofs.ConvertEnum
open TypifyModel.C05
#print axioms charCount_eq_length
#print axioms string_constraints_enforced
#print axioms enum_values_enforced
#print axioms deny_values_enforced
#print axioms struct_object_enforced
#print axioms tuple_arity_enforced
#print axioms array_len_enforced
#print axioms scalar_type_enforced
#print axioms external_tag_enforced
#print axioms no_backdoor
#print axioms TypifyModel.C05E.enc_sound
#print axioms TypifyModel.C05E.encD_sound
#print axioms TypifyModel.C05E.struct_sound
#print axioms TypifyModel.Tagging.intTag_sound
#print axioms TypifyModel.Tagging.tagged_branches_exclusive
#print axioms TypifyModel.Tagging.external_names_nodup
#print axioms TypifyModel.Tagging.adjacent_sound
#print axioms TypifyModel.Tagging.internal_panics_only_on_assert
#print axioms TypifyModel.ConvertEnum.enum_string_variants_exact
#print axioms TypifyModel.ConvertEnum.typed_enum_values_exact
#print axioms TypifyModel.ConvertEnum.enum_string_option_iff_null
#print axioms TypifyModel.ConvertEnum.unknown_enum_of_strings
#print axioms TypifyModel.ConvertEnum.length_bound_counts_characters

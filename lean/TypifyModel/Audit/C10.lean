import TypifyModel.Proofs.C10
open TypifyModel.C10
#print axioms table_ok
#print axioms int_fits_tbl
#print axioms int_fits
#print axioms nz_only
#print axioms bad_default
#print axioms formats_spec_partial
#print axioms formats_recognised

import TypifyModel.Proofs.C10
import TypifyModel.Proofs.C10Strings
import TypifyModel.Proofs.C05Convert
import TypifyModel.Proofs.C05ConvertArray
import TypifyModel.Proofs.C05ConvertObject
open TypifyModel.C10
#print axioms table_ok
#print axioms int_fits_tbl
#print axioms int_fits
#print axioms nz_only
#print axioms bad_default
#print axioms formats_spec_partial
#print axioms formats_recognised
open TypifyModel.C10S
#print axioms string_formats_documented
#print axioms string_format_unrecognised
#print axioms string_formats_known
#print axioms string_formats_functional
#print axioms string_formats_uses
#print axioms TypifyModel.C05C.convert_string_exact
#print axioms TypifyModel.C05C.convert_string_uses_regress
#print axioms TypifyModel.C05C.convert_string_format_ignores_validation
#print axioms TypifyModel.C05C.convert_string_format_drops
#print axioms TypifyModel.C05A.tuple_arity
#print axioms TypifyModel.C05A.array_len
#print axioms TypifyModel.C05A.positional_items_need_fixed_length
#print axioms TypifyModel.C05O.members_make_struct
#print axioms TypifyModel.C05O.closed_without_patterns_is_struct
#print axioms TypifyModel.C05O.map_values

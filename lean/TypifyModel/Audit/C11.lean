import TypifyModel.Proofs.C11
open TypifyModel.C11
#print axioms base_fromstr_eq_de
#print axioms tryfrom_eq_fromstr
#print axioms untagged_fromstr_eq_de
#print axioms base_display_eq_ser
#print axioms untagged_display_eq_ser

import TypifyModel.Proofs.C11
import TypifyModel.Proofs.C11Findings
import TypifyModel.Proofs.C11Templates
open TypifyModel.C11
#print axioms base_fromstr_eq_de
#print axioms tryfrom_eq_fromstr
#print axioms untagged_fromstr_eq_de
#print axioms base_display_eq_ser
#print axioms untagged_display_eq_ser
open TypifyModel.C11N
#print axioms nt_fromstr_eq_de
#print axioms nt_display_eq_ser
#print axioms ut_fromstr_eq_de
#print axioms ut_display_eq_ser
#print axioms native_formats_coherent_partial
#print axioms datetime_fromstr_coherent
#print axioms fallback_is_string
#print axioms native_formats_coherent_full_false
#print axioms TypifyModel.C11T.display_templates_forward
#print axioms TypifyModel.C11T.fromstr_templates_known
#print axioms TypifyModel.C11T.tryfrom_string_templates_parse
#print axioms TypifyModel.C11T.template_counts

import TypifyModel.Proofs.C08
open TypifyModel.C08
#print axioms sanitize_ident
#print axioms recase_wire
#print axioms recase_ok
#print axioms variants_distinct
#print axioms variants_ident
#print axioms variant_wire
#print axioms variants_no_panic_partial
#print axioms fields_wire
#print axioms fields_wire_distinct
#print axioms fields_ident
#print axioms fields_distinct_partial
#print axioms fields_collide
#print axioms snake_name_fixed
#print axioms snake_names_no_collision
#print axioms fields_extra_distinct_partial
#print axioms defs_ident
#print axioms defs_distinct_partial

import TypifyModel.Proofs.C13
open TypifyModel.C13
#print axioms ext_policy
#print axioms ext_policy_generate
#print axioms ext_malformed
#print axioms ext_path
#print axioms ext_deny_eq_generate
#print axioms ext_def
#print axioms semver_spec_release
#print axioms semver_spec_full
#print axioms semver_spec_req
#print axioms semver_pre_rule
#print axioms semver_pre_excluded
#print axioms semver_caret
#print axioms semver_tilde
#print axioms semver_star
#print axioms semver_parse_covered
#print axioms pre_order
#print axioms version_order

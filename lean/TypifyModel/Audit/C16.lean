import TypifyModel.Proofs.C16
open TypifyModel.C16
#print axioms inv_init
#print axioms inv_step
#print axioms inv_run
#print axioms frame_acyclic
#print axioms frame_run
#print axioms returned_stable
#print axioms readd
#print axioms readd_step
#print axioms no_dup_defs_partial
#print axioms no_dup_defs_types
#print axioms split_inv_general
#print axioms split_inv
#print axioms split_iso

import TypifyModel.Proofs.C18
open TypifyModel.C18
#print axioms build_unbuild
#print axioms build_ok_iff
#print axioms build_ok_iff_set
#print axioms build_error_names_prop
#print axioms build_eq_members
#print axioms build_eq_de

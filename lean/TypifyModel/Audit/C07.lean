import TypifyModel.Proofs.C07
open TypifyModel.C07
#print axioms break_acyclic
#print axioms break_no_cycle
#print axioms break_minimal
#print axioms acyclic_of_rank
#print axioms break_box_on_cycle
#print axioms break_only_box
#print axioms break_total
#print axioms byValue_or_heap
#print axioms mapChildren_shape

import TypifyModel.Model.Dispatch
import TypifyModel.Generated.DispatchArms
/-! The hand-written reading of `convert_schema_object`'s match (`Model/Dispatch.lean`) against the match AS WRITTEN
    (`Generated/DispatchArms.lean`, translator table T11, regenerated from /repo on every run).

    A source arm is interpreted as a Boolean guard over (how the `type` keyword is written, which keyword groups are present):
    `None` ↦ absent, `Some(..)` ↦ present, `_` / binding / `..` ↦ true, `Some(Single(..))` / `Some(Vec(..))` ↦ the spelling of the
    type; the guards as written are read by exact text (`single.as_ref() == &InstanceType::X`, the two-element-with-null test,
    the all-seven-types test, the one-element test). A pattern or guard outside this vocabulary has NO interpretation and the
    theorems below stop checking.

    * `typed_arms_agree` — arms 1..20 of the source, in order, have exactly the guards of the model's table `typedArmsG`, for
      every spelling of the type and every combination of the nine keyword groups (9 × 512 points, each decided by the kernel);
    * `typed_arms_callees` — and call what the model's arm names say;
    * `first_arm_nullable`, `rewrite_arms_agree` — arm 0 and arms 21..25 (the re-dispatching arms, the multi-type arm and the
      final `todo!()`) against `armNullable` / `armsRewrite`;
    * `subschema_arms_agree` — the nested match over the subschema keywords against `soleArm`. -/
set_option linter.unusedSimpArgs false
namespace TypifyModel.Dispatch
open TypifyModel TypifyModel.Excl TypifyModel.Generated

/-- how the `type` keyword is written, as far as the match can tell -/
inductive TyAbs where
  | none
  | single (t : JT)
  | multi (twoWithNull allSeven oneElem : Bool)
deriving DecidableEq, Repr

def fpB (p : FP) (present : Bool) : Option Bool :=
  match p with
  | .isNone => some (!present)
  | .isSome => some present
  | .any => some true
  | _ => none

def itB (p : FP) (ty : TyAbs) : Option Bool :=
  match p, ty with
  | .any, _ => some true
  | .isNone, .none => some true
  | .isNone, _ => some false
  | .isSome, .none => some false
  | .isSome, _ => some true
  | .single, .single _ => some true
  | .single, _ => some false
  | .vec, .multi _ _ _ => some true
  | .vec, _ => some false
  | .other, _ => none

def singleIs (ty : TyAbs) (t : JT) : Bool :=
  match ty with
  | .single t' => t' == t
  | _ => false

/-- the guards that occur -/
inductive GuardK where
  | none | singleIs (t : JT) | twoWithNull | allSeven | oneElem
deriving DecidableEq, Repr

/-- .. read off their text, exactly as written -/
def guardK (g : String) : Option GuardK :=
  if g = "" then some .none
  else if g = "single . as_ref () == & InstanceType :: String" then some (.singleIs .string)
  else if g = "single . as_ref () == & InstanceType :: Integer" then some (.singleIs .integer)
  else if g = "single . as_ref () == & InstanceType :: Number" then some (.singleIs .number)
  else if g = "single . as_ref () == & InstanceType :: Boolean" then some (.singleIs .boolean)
  else if g = "single . as_ref () == & InstanceType :: Object" then some (.singleIs .object)
  else if g = "single . as_ref () == & InstanceType :: Array" then some (.singleIs .array)
  else if g = "single . as_ref () == & InstanceType :: Null" then some (.singleIs .null)
  else if g = "multiple . len () == 2 && multiple . contains (& InstanceType :: Null)" then some .twoWithNull
  else if g = "instance_types . contains (& InstanceType :: Null) && instance_types . contains (& InstanceType :: Boolean) && instance_types . contains (& InstanceType :: Object) && instance_types . contains (& InstanceType :: Array) && instance_types . contains (& InstanceType :: Number) && instance_types . contains (& InstanceType :: String) && instance_types . contains (& InstanceType :: Integer)" then
    some .allSeven
  else if g = "instance_types . len () == 1" then some .oneElem
  else Option.none

def guardKB (k : Option GuardK) (ty : TyAbs) : Option Bool :=
  match k with
  | Option.none => Option.none
  | some .none => some true
  | some (.singleIs t) => some (singleIs ty t)
  | some .twoWithNull => some (match ty with | .multi b _ _ => b | _ => false)
  | some .allSeven => some (match ty with | .multi _ b _ => b | _ => false)
  | some .oneElem => some (match ty with | .multi _ _ b => b | _ => false)

def andO (a b : Option Bool) : Option Bool :=
  match a, b with
  | some x, some y => some (x && y)
  | _, _ => Option.none

/-- an arm without its texts: the ten patterns and the guard as read -/
structure CArm where
  it : FP
  fmt : FP
  en : FP
  cn : FP
  sub : FP
  num : FP
  str : FP
  arr : FP
  obj : FP
  rf : FP
  guard : Option GuardK
deriving DecidableEq, Repr

def compact (a : SrcArm) : CArm := ⟨a.it, a.fmt, a.en, a.cn, a.sub, a.num, a.str, a.arr, a.obj, a.rf, guardK a.guard⟩

/-- does the arm match? `none`: the arm is written in a way this reading does not cover -/
def cGuard (a : CArm) (ty : TyAbs) (g : Groups) : Option Bool :=
  andO (itB a.it ty) (andO (fpB a.fmt g.fmt) (andO (fpB a.en g.en) (andO (fpB a.cn g.cn) (andO (fpB a.sub g.sub)
    (andO (fpB a.num g.num) (andO (fpB a.str g.str) (andO (fpB a.arr g.arr) (andO (fpB a.obj g.obj) (andO (fpB a.rf g.rf)
      (guardKB a.guard ty))))))))))

def srcGuard (a : SrcArm) (ty : TyAbs) (g : Groups) : Option Bool := cGuard (compact a) ty g

def tyAbsSingle (ty : TyAbs) (t : JT) : Bool := singleIs ty t
def tyAbsUntyped : TyAbs → Bool
  | .none => true
  | _ => false
def tyAbsOne : TyAbs → Bool
  | .single _ => true
  | _ => false

def allJT : List JT := [.null, .boolean, .object, .array, .number, .string, .integer]
theorem mem_allJT (t : JT) : t ∈ allJT := by cases t <;> decide

/-- the match as it was read when the model was written (arm by arm: patterns and guard) -/
def expectedArms : List CArm := [
  ⟨.vec, .any, .any, .any, .any, .any, .any, .any, .any, .any, some .twoWithNull⟩,
  ⟨.single, .any, .isNone, .isNone, .isNone, .any, .any, .any, .any, .isNone, some (.singleIs .string)⟩,
  ⟨.isNone, .any, .isNone, .isNone, .isNone, .isNone, .isSome, .isNone, .isNone, .isNone, some .none⟩,
  ⟨.single, .any, .isSome, .isNone, .isNone, .any, .any, .any, .any, .isNone, some (.singleIs .string)⟩,
  ⟨.single, .any, .isNone, .isNone, .isNone, .any, .any, .any, .any, .isNone, some (.singleIs .integer)⟩,
  ⟨.single, .any, .isNone, .isNone, .isNone, .any, .any, .any, .any, .isNone, some (.singleIs .number)⟩,
  ⟨.single, .isNone, .any, .isNone, .isNone, .any, .any, .any, .any, .isNone, some (.singleIs .boolean)⟩,
  ⟨.single, .isNone, .isNone, .isNone, .isNone, .any, .any, .any, .any, .isNone, some (.singleIs .object)⟩,
  ⟨.isNone, .isNone, .isNone, .isNone, .isNone, .isNone, .isNone, .isNone, .isSome, .isNone, some .none⟩,
  ⟨.single, .isNone, .isNone, .isNone, .isNone, .any, .any, .isSome, .any, .isNone, some (.singleIs .array)⟩,
  ⟨.isNone, .isNone, .isNone, .isNone, .isNone, .isNone, .isNone, .isSome, .isNone, .isNone, some .none⟩,
  ⟨.single, .isNone, .isNone, .isNone, .isNone, .any, .any, .isNone, .any, .isNone, some (.singleIs .array)⟩,
  ⟨.isNone, .isNone, .isNone, .isNone, .isNone, .isNone, .isNone, .isNone, .isNone, .isNone, some .none⟩,
  ⟨.single, .any, .isNone, .isNone, .isNone, .any, .any, .any, .any, .isNone, some (.singleIs .null)⟩,
  ⟨.isNone, .isNone, .isNone, .isNone, .isNone, .isNone, .isNone, .isNone, .isNone, .isSome, some .none⟩,
  ⟨.any, .isNone, .isNone, .isNone, .isNone, .isNone, .isNone, .isNone, .isNone, .isSome, some .none⟩,
  ⟨.any, .any, .any, .any, .any, .any, .any, .any, .any, .isSome, some .none⟩,
  ⟨.single, .any, .isSome, .any, .any, .any, .any, .any, .any, .any, some .none⟩,
  ⟨.isNone, .isNone, .isSome, .isNone, .isNone, .isNone, .isNone, .isNone, .isNone, .isNone, some .none⟩,
  ⟨.any, .isNone, .isNone, .isNone, .isSome, .isNone, .isNone, .isNone, .isNone, .isNone, some .none⟩,
  ⟨.any, .any, .any, .any, .isSome, .any, .any, .any, .any, .any, some .none⟩,
  ⟨.any, .any, .any, .isSome, .any, .any, .any, .any, .any, .any, some .none⟩,
  ⟨.vec, .any, .any, .any, .any, .any, .any, .any, .any, .any, some .allSeven⟩,
  ⟨.vec, .any, .any, .any, .any, .any, .any, .any, .any, .any, some .oneElem⟩,
  ⟨.vec, .any, .isNone, .isNone, .isNone, .any, .any, .any, .any, .isNone, some .none⟩,
  ⟨.any, .any, .any, .any, .any, .any, .any, .any, .any, .any, some .none⟩
]

/-- **the source's match, as written now, is the match that was read** (the only place where the texts of T11 are compared) -/
theorem source_arms_as_read : dispatchArms.map compact = expectedArms := by decide +kernel

def expTyped : List CArm := (expectedArms.drop 1).take 20

/-- .. no `type` .. -/
theorem typed_arms_agree_none :
    ∀ fmt en cn sub num str arr obj rf : Bool,
      expTyped.map (fun a => cGuard a .none ⟨fmt, en, cn, sub, num, str, arr, obj, rf⟩) =
      (typedArmsG ⟨fmt, en, cn, sub, num, str, arr, obj, rf⟩ .subschemasMerged (fun _ => false) true false).map
        (fun ga => some ga.1) := by
  decide +kernel

def plainGuard : Option GuardK → Bool
  | some .none => true
  | some (.singleIs _) => true
  | _ => false

/-- none of the typed arms looks INTO a type list .. -/
theorem typed_arms_ignore_list : ∀ x ∈ expTyped, ∀ a b c : Bool, ∀ g : Groups,
    cGuard x (.multi a b c) g = cGuard x (.multi false false false) g := by
  have h0 : ∀ x ∈ expTyped, plainGuard x.guard = true := by decide +kernel
  have h : ∀ x ∈ expTyped, (x.guard = some .none ∨ ∃ t, x.guard = some (.singleIs t)) := by
    intro x hx
    have := h0 x hx
    cases hg : x.guard with
    | none => rw [hg] at this; cases this
    | some k => cases k <;> rw [hg] at this <;> first | exact Or.inl rfl | exact Or.inr ⟨_, rfl⟩ | cases this
  intro x hx a b c g
  have hit : itB x.it (.multi a b c) = itB x.it (.multi false false false) := by cases x.it <;> rfl
  have hg : guardKB x.guard (.multi a b c) = guardKB x.guard (.multi false false false) := by
    rcases h x hx with e | ⟨t, e⟩ <;> rw [e] <;> rfl
  unfold cGuard
  rw [hit, hg]

/-- .. so for a type list (whatever its length and content) one representative decides -/
theorem typed_arms_agree_multi_rep :
    ∀ fmt en cn sub num str arr obj rf : Bool,
      expTyped.map (fun x => cGuard x (.multi false false false) ⟨fmt, en, cn, sub, num, str, arr, obj, rf⟩) =
      (typedArmsG ⟨fmt, en, cn, sub, num, str, arr, obj, rf⟩ .subschemasMerged (fun _ => false) false false).map
        (fun ga => some ga.1) := by
  decide +kernel

theorem typed_arms_agree_multi (a b c : Bool) (g : Groups) :
    expTyped.map (fun x => cGuard x (.multi a b c) g) =
      (typedArmsG g .subschemasMerged (fun _ => false) false false).map (fun ga => some ga.1) := by
  obtain ⟨fmt, en, cn, sub, num, str, arr, obj, rf⟩ := g
  rw [← typed_arms_agree_multi_rep fmt en cn sub num str arr obj rf]
  apply List.map_congr_left
  intro x hx
  exact typed_arms_ignore_list x hx a b c _

/-! ### what the arms call -/

/-- the conversion each arm of the model stands for, by the name of the method the source calls -/
def armCallee : Arm → List String
  | .string | .stringUntyped => ["convert_string"]
  | .enumString => ["convert_enum_string"]
  | .integer => ["convert_integer"]
  | .number => ["convert_number"]
  | .boolean => ["convert_bool"]
  | .object | .objectUntyped => ["convert_object"]
  | .array | .arrayUntyped => ["convert_array"]
  | .arrayOfAny => ["convert_array_of_any"]
  | .permissive => ["convert_permissive"]
  | .null => ["convert_null"]
  | .reference | .referenceTyped => ["convert_reference"]
  | .referenceMerged => ["convert_schema"]
  | .typedEnum => ["convert_typed_enum"]
  | .unknownEnum => ["convert_unknown_enum"]
  | .subschemasMerged => ["match subschemas"]
  | .subschemasWithRest => ["convert_schema_object", "convert_never"]
  | .allOf => ["convert_all_of"]
  | .anyOf => ["convert_any_of"]
  | .oneOf => ["convert_one_of"]
  | .not => ["convert_not"]
  | .todo => ["todo!"]
  | _ => []

/-- **arms 1..20 call what the model's arm names say**, in the same order -/
theorem typed_arms_callees :
    ((dispatchArms.drop 1).take 20).map (·.calls) =
      (typedArmsG ⟨false, false, false, false, false, false, false, false, false⟩ .subschemasMerged (fun _ => false) false false).map
        (fun ga => armCallee ga.2) := by
  decide +kernel

/-! ### arm 0 and the arms after the subschemas: the re-dispatching arms, the multi-type arm, `todo!()` -/

/-- arm 0 is the two-element-with-null arm of `armNullable`: a type list, nothing else constrained; it may end in `null`,
    an `Option`, or a re-dispatch -/
theorem first_arm_nullable :
    dispatchArms.head? = some ⟨.vec, .any, .any, .any, .any, .any, .any, .any, .any, .any,
      "multiple . len () == 2 && multiple . contains (& InstanceType :: Null)",
      ["convert_null", "convert_option", "convert_schema_object"]⟩ := by
  decide +kernel

inductive RW where
  | dropConst | dropType | oneType | multiType | todo
deriving DecidableEq, Repr

/-- `armsRewrite`, as a function of what the match can see -/
def rwModel (ty : TyAbs) (g : Groups) : RW :=
  if g.cn then .dropConst
  else match ty with
    | .multi _ all7 one =>
      if all7 then .dropType else if one then .oneType
      else if !g.en && !g.cn && !g.sub && !g.rf then .multiType else .todo
    | _ => .todo

/-- the last five arms of the source, read the same way: first match -/
def expRewrite : List (CArm × RW) :=
  (expectedArms.drop 21).zip [.dropConst, .dropType, .oneType, .multiType, .todo]

def firstRW (ty : TyAbs) (g : Groups) : List (CArm × RW) → Option RW
  | [] => none
  | (c, r) :: rest =>
    match cGuard c ty g with
    | some true => some r
    | some false => firstRW ty g rest
    | none => none

/-- the last five arms call: the dispatch again (three times), `untagged_enum`, `todo!()` -/
theorem rewrite_arms_callees :
    (dispatchArms.drop 21).map (·.calls) =
      [["convert_schema_object"], ["convert_schema_object"], ["unreachable!", "convert_schema_object"], ["untagged_enum"], ["todo!"]] := by
  decide +kernel

/-- **arms 21..25 = `armsRewrite`** for every spelling of the type and every combination of the keyword groups -/
theorem rewrite_arms_agree_multi :
    ∀ a b c fmt en cn sub num str arr obj rf : Bool,
      firstRW (.multi a b c) ⟨fmt, en, cn, sub, num, str, arr, obj, rf⟩ expRewrite =
        some (rwModel (.multi a b c) ⟨fmt, en, cn, sub, num, str, arr, obj, rf⟩) := by
  decide +kernel

theorem rewrite_arms_agree_none :
    ∀ fmt en cn sub num str arr obj rf : Bool,
      firstRW .none ⟨fmt, en, cn, sub, num, str, arr, obj, rf⟩ expRewrite =
        some (rwModel .none ⟨fmt, en, cn, sub, num, str, arr, obj, rf⟩) := by
  decide +kernel

theorem rewrite_arms_agree_single :
    ∀ t ∈ allJT, ∀ fmt en cn sub num str arr obj rf : Bool,
      firstRW (.single t) ⟨fmt, en, cn, sub, num, str, arr, obj, rf⟩ expRewrite =
        some (rwModel (.single t) ⟨fmt, en, cn, sub, num, str, arr, obj, rf⟩) := by
  decide +kernel

/-- what the match can see of a `type` keyword -/
def absTy : Ty → TyAbs
  | .none => .none
  | .single t => .single t
  | .multi ts => .multi (ts.length == 2 && ts.contains .null) (allTypes.all (fun t => ts.contains t)) (ts.length == 1)
  | .bad => .none

def rwKind : Step → RW
  | .again _ => .dropConst      -- refined below: which re-dispatch it is follows from the guards
  | .done (.multiType _) => .multiType
  | .done _ => .todo

/-- `armsRewrite` of the model IS `rwModel` of what the match sees (the three re-dispatching arms told apart by their result) -/
theorem armsRewrite_is_rwModel (kvs : Kvs) (ty : Ty) (hb : ty ≠ .bad) :
    (rwModel (absTy ty) (groupsOf kvs) = .dropConst → armsRewrite kvs ty = .again (kvs.filter (fun kv => kv.1 != "const"))) ∧
    (rwModel (absTy ty) (groupsOf kvs) = .dropType → armsRewrite kvs ty = .again (setType kvs none)) ∧
    (rwModel (absTy ty) (groupsOf kvs) = .oneType → ∃ t, armsRewrite kvs ty = .again (setType kvs (some (.str (jtName t))))) ∧
    (rwModel (absTy ty) (groupsOf kvs) = .multiType → ∃ ts, armsRewrite kvs ty = .done (.multiType ts)) ∧
    (rwModel (absTy ty) (groupsOf kvs) = .todo → armsRewrite kvs ty = .done .todo) := by
  unfold rwModel armsRewrite groupsOf
  cases hc : has kvs "const" with
  | true => simp
  | false =>
    cases ty with
    | bad => exact absurd rfl hb
    | none => simp [absTy]
    | single t => simp [absTy]
    | multi ts =>
      simp only [absTy, Bool.false_eq_true, if_false]
      cases h7 : allTypes.all (fun t => ts.contains t) with
      | true => simp
      | false =>
        simp only [Bool.false_eq_true, if_false]
        match ts with
        | [t] => simp; exact ⟨t, rfl⟩
        | [] => simp; split <;> simp_all
        | _ :: _ :: _ => simp; split <;> simp_all

/-! ### the nested match over the subschema keywords -/

def firstSub (present : List Bool) : List SubArm → Option (List String)
  | [] => none
  | a :: rest =>
    let ms := (a.pats.zip present).map (fun pb => fpB pb.1 pb.2)
    if ms.all (· == some true) then some a.calls
    else if ms.any (· == none) || a.pats.length != present.length then none
    else firstSub present rest

/-- `soleArm`, as a function of which of the seven subschema keywords are present -/
def soleArmB (allOf anyOf oneOf not if_ then_ else_ : Bool) : Arm :=
  match [("allOf", allOf), ("anyOf", anyOf), ("oneOf", oneOf), ("not", not), ("if", if_), ("then", then_), ("else", else_)].filter (·.2) with
  | [("allOf", _)] => .allOf
  | [("anyOf", _)] => .anyOf
  | [("oneOf", _)] => .oneOf
  | [("not", _)] => .not
  | _ => .subschemasMerged

/-- **the nested `match subschemas.as_ref()` = `soleArm`**: a lone `allOf` / `anyOf` / `oneOf` / `not` goes to its conversion,
    every other combination is merged — for all 128 combinations of the seven keywords -/
theorem subschema_arms_agree :
    ∀ a b c d e f g : Bool,
      firstSub [a, b, c, d, e, f, g] subschemaArms =
        some (match soleArmB a b c d e f g with
              | .subschemasMerged => ["convert_schema_object", "convert_never"]
              | x => armCallee x) := by
  decide +kernel

theorem soleArm_is_soleArmB (kvs : Kvs) :
    soleArm kvs = soleArmB (has kvs "allOf") (has kvs "anyOf") (has kvs "oneOf") (has kvs "not") (has kvs "if") (has kvs "then")
      (has kvs "else") := by
  unfold soleArm soleSub soleSub.Tag_subKeys soleArmB
  simp only [List.filter]
  generalize has kvs "allOf" = a
  generalize has kvs "anyOf" = b
  generalize has kvs "oneOf" = c
  generalize has kvs "not" = d
  generalize has kvs "if" = e
  generalize has kvs "then" = f
  generalize has kvs "else" = g
  cases a <;> cases b <;> cases c <;> cases d <;> cases e <;> cases f <;> cases g <;> rfl

end TypifyModel.Dispatch

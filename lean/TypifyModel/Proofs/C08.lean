import TypifyModel.Proofs.Lemmas.NamesLemmas
import TypifyModel.Proofs.Lemmas.NamesFixed
/-! # C08 — arbitrary names → valid identifiers, exact wire names

Property theorems only (helpers live in `Proofs/Lemmas/NamesLemmas.lean`). They are stated over
the model `TypifyModel.Names` (heck 0.5 `transform`, syn's identifier test, util.rs `sanitize` /
`recase` / `unique`, `TypeEntryEnum::from_metadata`, `struct_members`, `add_ref_types_impl`),
which the correspondence check `c08` ties to the real code on every run. All statements are for
strings of **any length** (induction over the character list); the domain of the model is ASCII
(`Ascii`), non-ASCII names are explored on the implementation only.

What "bound to exactly the original JSON name" means here: the name serde uses for a rendered
field/variant is the `rename` string when a `#[serde(rename = …)]` is emitted and the identifier
otherwise (`Names.wireName`; typify never emits `rename_all`). That serde's derive really reads
and writes that name is a fact about serde_derive, exercised on compiled code elsewhere (M3). -/
namespace TypifyModel.C08
open TypifyModel TypifyModel.Names

/-! ## 1. every produced identifier is a valid Rust identifier -/

/-- **`sanitize` always returns something `syn::parse_str::<syn::Ident>` accepts**: non-empty,
    XID_Start or `_` first, XID_Continue after, not a keyword (strict or reserved, incl.
    `self`/`Self`/`crate`/`super`), not `_`. Any ASCII string, either case. -/
theorem sanitize_ident (s : Str) (k : Case) (_h : Ascii s) : isRustIdent (sanitize s k) = true := by
  unfold sanitize
  exact fixKeyword_ident _ (addPrefix_shape k _ (sanitizeCore_chars s k))

example : Ascii "won't and can't".toList ∧
    sanitize "won't and can't".toList .pascal = "WontAndCant".toList ∧
    sanitize "self".toList .snake = "self_".toList ∧ sanitize "".toList .snake = "x".toList ∧
    sanitize "1-Self".toList .pascal = "X1Self".toList := by decide

/-! ## 2. `recase`: rename present iff the identifier differs, and then it is the original -/

theorem recase_wire (s : Str) (c : Case) (id : Str) (rn : Option Str)
    (h : recase s c = (id, rn)) : (rn = none ∧ id = s) ∨ (rn = some s ∧ id ≠ s) := by
  unfold recase at h
  simp only [Prod.mk.injEq] at h
  obtain ⟨h1, h2⟩ := h
  by_cases he : sanitize s c = s
  · rw [if_pos he] at h2; left; exact ⟨h2.symm, h1 ▸ he⟩
  · rw [if_neg he] at h2; right; exact ⟨h2.symm, h1 ▸ he⟩

/-- the same, as one equation: the wire name of what `recase` returns is the input, and the
    identifier is valid -/
theorem recase_ok (s : Str) (c : Case) (h : Ascii s) :
    wireName (recase s c) = s ∧ isRustIdent (recase s c).1 = true :=
  ⟨wire_recase s c, sanitize_ident s c h⟩

example : recase "foo-bar".toList .snake = ("foo_bar".toList, some "foo-bar".toList) ∧
    recase "foo".toList .snake = ("foo".toList, none) := by decide

/-! ## 3. enum variants -/

/-- when variant naming succeeds the identifiers are pairwise distinct (either pass) -/
theorem variants_distinct (vs names : List Str) (h : variantNames vs = .ok names) :
    names.Nodup := by
  unfold variantNames at h
  by_cases h1 : unique (variantPass1 vs) = true
  · rw [if_pos h1] at h
    simp only [NamesResult.ok.injEq] at h; subst h
    exact (unique_iff_nodup _).mp h1
  · rw [if_neg h1] at h
    by_cases h2 : unique (variantPass2 vs) = true
    · rw [if_pos h2] at h
      simp only [NamesResult.ok.injEq] at h; subst h
      exact (unique_iff_nodup _).mp h2
    · rw [if_neg h2] at h; cases h

theorem variantNames_cases (vs names : List Str) (h : variantNames vs = .ok names) :
    names = variantPass1 vs ∨ names = variantPass2 vs := by
  unfold variantNames at h
  split at h
  · left; simp only [NamesResult.ok.injEq] at h; exact h.symm
  · split at h
    · right; simp only [NamesResult.ok.injEq] at h; exact h.symm
    · cases h

theorem replX_ascii (s : Str) (h : Ascii s) : Ascii (replX s) := by
  intro c hc
  simp only [replX, List.mem_map] at hc
  obtain ⟨a, ha, rfl⟩ := hc
  split
  · decide
  · exact h a ha

/-- … one identifier per variant, each a valid Rust identifier -/
theorem variants_ident (vs names : List Str) (hv : AllAscii vs) (h : variantNames vs = .ok names) :
    names.length = vs.length ∧ ∀ n ∈ names, isRustIdent n = true := by
  rcases variantNames_cases vs names h with rfl | rfl
  · refine ⟨by simp [variantPass1], ?_⟩
    intro n hn
    simp only [variantPass1, List.mem_map] at hn
    obtain ⟨r, hr, rfl⟩ := hn
    exact sanitize_ident r .pascal (hv r hr)
  · refine ⟨by simp [variantPass2], ?_⟩
    intro n hn
    simp only [variantPass2, List.mem_map] at hn
    obtain ⟨r, hr, rfl⟩ := hn
    exact sanitize_ident _ .pascal (replX_ascii r (hv r hr))

/-- … and every rendered variant is bound to exactly its raw name (`output_variant` emits
    `#[serde(rename = raw)]` iff the identifier differs from the raw name) -/
theorem variant_wire (vs names : List Str) (h : variantNames vs = .ok names) :
    (renderVariants vs names).map wireName = vs ∧ (renderVariants vs names).map (·.1) = names := by
  have hl : names.length = vs.length := by
    rcases variantNames_cases vs names h with rfl | rfl
    · simp [variantPass1]
    · simp [variantPass2]
  exact ⟨renderVariants_wire vs names hl, renderVariants_idents vs names hl⟩

example : variantNames ["a-b".toList, "ab".toList, "self".toList] =
    .ok ["AB".toList, "Ab".toList, "Self_".toList] := by decide
-- the second pass is what resolves this one
example : variantNames ["a+".toList, "a".toList] = .ok ["AX".toList, "A".toList] := by decide

/-- mechanism predicate of finding C08-variant-panic (negated): one of the two naming passes
    gives distinct identifiers -/
def NoVariantCollision (vs : List Str) : Prop :=
  unique (variantPass1 vs) = true ∨ unique (variantPass2 vs) = true
instance (vs : List Str) : Decidable (NoVariantCollision vs) := by
  unfold NoVariantCollision; infer_instance

/-- FULL statement ("generation either fails with an *error* or …"): naming never panics on
    distinct enum values. False on the current tree — see `C08Findings.variants_no_panic_full_false`. -/
def variants_no_panic_full : Prop :=
  ∀ vs : List Str, AllAscii vs → vs.Nodup → variantNames vs ≠ .panic

theorem variants_no_panic_partial (vs : List Str) (h : NoVariantCollision vs) :
    variantNames vs ≠ .panic := by
  unfold variantNames
  rcases h with h | h
  · rw [if_pos h]; intro hc; cases hc
  · split
    · intro hc; cases hc
    · intro hc; cases hc

example : NoVariantCollision ["a-b".toList, "ab".toList] ∧
    NoVariantCollision ["a+".toList, "a".toList] ∧
    ¬ unique (variantPass1 ["a+".toList, "a".toList]) = true := by decide

/-! ## 4. struct fields -/

/-- every field is bound to exactly one of the original property names, each name once -/
theorem fields_wire (props : List Str) : ((structFields props).map wireName).Perm props := by
  unfold structFields
  have hp := (List.mergeSort_perm (props.map (recase · .snake)) (fun a b => strLe a.1 b.1)).map wireName
  refine hp.trans ?_
  rw [List.map_map]
  have : (wireName ∘ fun x => recase x Case.snake) = id := by
    funext x; simp [wire_recase]
  rw [this, List.map_id]

/-- hence distinct JSON names keep distinct wire names, whatever the identifiers are -/
theorem fields_wire_distinct (props : List Str) (h : props.Nodup) :
    ((structFields props).map wireName).Nodup :=
  (fields_wire props).nodup_iff.mpr h

/-- every field identifier is a valid Rust identifier, and a rename is the original name of a
    property whose identifier differs from it -/
theorem fields_ident (props : List Str) (hp : AllAscii props) :
    ∀ f ∈ structFields props, isRustIdent f.1 = true ∧
      ((f.2 = none ∧ f.1 ∈ props) ∨ ∃ p ∈ props, f.2 = some p ∧ f.1 ≠ p) := by
  intro f hf
  unfold structFields at hf
  rw [(List.mergeSort_perm _ _).mem_iff, List.mem_map] at hf
  obtain ⟨p, hpm, rfl⟩ := hf
  refine ⟨sanitize_ident p .snake (hp p hpm), ?_⟩
  rcases recase_wire p .snake (recase p .snake).1 (recase p .snake).2 rfl with ⟨h1, h2⟩ | ⟨h1, h2⟩
  · left; exact ⟨h1, by rw [h2]; exact hpm⟩
  · right; exact ⟨p, hpm, h1, h2⟩

theorem fieldIdents_perm (props : List Str) :
    (fieldIdents props).Perm (props.map (sanitize · .snake)) := by
  unfold fieldIdents structFields
  have hp := (List.mergeSort_perm (props.map (recase · .snake)) (fun a b => strLe a.1 b.1)).map (·.1)
  refine hp.trans ?_
  rw [List.map_map]
  have : ((fun x : Rendered => x.1) ∘ fun x => recase x Case.snake) = (sanitize · .snake) := by
    funext x; simp [recase]
  rw [this]

/-- mechanism predicate of finding C08-field-collision (negated): no two properties get the same
    snake-case identifier -/
def NoFieldCollision (props : List Str) : Prop := unique (props.map (sanitize · .snake)) = true
instance (props : List Str) : Decidable (NoFieldCollision props) := by
  unfold NoFieldCollision; infer_instance

/-- FULL statement: distinct property names give distinct field identifiers (the code has no error
    path for this, so "or fails with an error" adds nothing). False on the current tree — see
    `C08Findings.fields_distinct_full_false`. -/
def fields_distinct_full : Prop :=
  ∀ props : List Str, AllAscii props → props.Nodup → (fieldIdents props).Nodup

theorem fields_distinct_partial (props : List Str) (h : NoFieldCollision props) :
    (fieldIdents props).Nodup :=
  (fieldIdents_perm props).nodup_iff.mpr ((unique_iff_nodup _).mp h)

/-- the converse: outside the predicate the emitted struct *does* have two fields of one name -/
theorem fields_collide (props : List Str) (h : ¬ NoFieldCollision props) :
    ¬ (fieldIdents props).Nodup := by
  intro hn
  exact h ((unique_iff_nodup _).mpr ((fieldIdents_perm props).nodup_iff.mp hn))

example : NoFieldCollision ["type".toList, "fooBar".toList, "foo-baz".toList, "".toList] ∧
    [sanitize "type".toList .snake, sanitize "fooBar".toList .snake, sanitize "".toList .snake]
      = ["type_".toList, "foo_bar".toList, "x".toList] := by decide

/-- A natural class inside the hypothesis: property names that already are snake-case identifiers
    `w₁_w₂_…_wₙ` (words of lower-case letters and digits, not a keyword) keep their name as field
    identifier, get no rename, and — being distinct — never collide. -/
def SnakeName (s : Str) : Prop :=
  ∃ ws : List Str, ws ≠ [] ∧ (∀ w ∈ ws, SnakeWord w) ∧ s = joinSnake ws ∧ isRustIdent s = true

theorem snake_name_fixed (s : Str) (h : SnakeName s) :
    recase s .snake = (s, none) := by
  obtain ⟨ws, hne, hw, rfl, hid⟩ := h
  unfold recase
  simp only [sanitize_joinSnake ws hne hw hid, if_true]

theorem snake_names_no_collision (props : List Str) (h : ∀ p ∈ props, SnakeName p)
    (hn : props.Nodup) : NoFieldCollision props := by
  unfold NoFieldCollision
  rw [unique_iff_nodup]
  have : props.map (sanitize · .snake) = props := by
    have : ∀ p ∈ props, (sanitize · .snake) p = id p := by
      intro p hp
      have := snake_name_fixed p (h p hp)
      unfold recase at this
      simp only [Prod.mk.injEq] at this
      exact this.1
    rw [List.map_congr_left this, List.map_id]
  rw [this]; exact hn

example : SnakeName "foo_bar2".toList :=
  ⟨["foo".toList, "bar2".toList], by decide, by
    intro w hw
    simp only [List.mem_cons, List.not_mem_nil, or_false] at hw
    rcases hw with rfl | rfl <;> exact ⟨by decide, by decide⟩, by decide, by decide⟩

/-- mechanism predicate of finding C08-extra-field-collision (negated): no property gets the
    identifier `extra`, the fixed name of the flattened additional-properties map -/
def NoExtraCollision (props : List Str) : Prop := extraIdent ∉ props.map (sanitize · .snake)
instance (props : List Str) : Decidable (NoExtraCollision props) := by
  unfold NoExtraCollision; infer_instance

/-- FULL statement for an object with `additionalProperties: <schema>`. False on the current
    tree — see `C08Findings.fields_extra_distinct_full_false`. -/
def fields_extra_distinct_full : Prop :=
  ∀ props : List Str, AllAscii props → props.Nodup → (fieldIdentsExtra props).Nodup

theorem fields_extra_distinct_partial (props : List Str) (h1 : NoFieldCollision props)
    (h2 : NoExtraCollision props) : (fieldIdentsExtra props).Nodup := by
  unfold fieldIdentsExtra
  rw [List.nodup_append]
  refine ⟨fields_distinct_partial props h1, by simp, ?_⟩
  intro a ha b hb
  simp only [List.mem_singleton] at hb
  subst hb
  intro hab
  subst hab
  exact h2 ((fieldIdents_perm props).mem_iff.mp ha)

example : NoFieldCollision ["extras".toList, "ext-ra".toList] ∧
    NoExtraCollision ["extras".toList, "ext-ra".toList] := by decide

/-! ## 5. definition names -/

theorem defs_ident (keys : List Str) (hk : AllAscii keys) :
    (defNames keys).length = keys.length ∧ ∀ n ∈ defNames keys, isRustIdent n = true := by
  refine ⟨by simp [defNames], ?_⟩
  intro n hn
  simp only [defNames, List.mem_map] at hn
  obtain ⟨k, hkm, rfl⟩ := hn
  exact sanitize_ident k .pascal (hk k hkm)

/-- mechanism predicate of finding C08-def-collision (negated) -/
def NoDefCollision (keys : List Str) : Prop := unique (defNames keys) = true
instance (keys : List Str) : Decidable (NoDefCollision keys) := by
  unfold NoDefCollision; infer_instance

/-- FULL statement: distinct definition keys give distinct item names (no error path exists).
    False on the current tree — see `C08Findings.defs_distinct_full_false`. -/
def defs_distinct_full : Prop :=
  ∀ keys : List Str, AllAscii keys → keys.Nodup → (defNames keys).Nodup

theorem defs_distinct_partial (keys : List Str) (h : NoDefCollision keys) :
    (defNames keys).Nodup := (unique_iff_nodup _).mp h

example : NoDefCollision ["foo-bar".toList, "fooBaz".toList, "1".toList] ∧
    defNames ["foo-bar".toList, "1".toList] = ["FooBar".toList, "X1".toList] := by decide

end TypifyModel.C08

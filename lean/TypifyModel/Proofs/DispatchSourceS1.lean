import TypifyModel.Proofs.DispatchSource
/-! `typed_arms_agree` for a single stated type (split over two files so that the 7 × 512 points are decided in parallel). -/
namespace TypifyModel.Dispatch
open TypifyModel TypifyModel.Excl

theorem typed_arms_agree_null :
    ∀ fmt en cn sub num str arr obj rf : Bool,
      expTyped.map (fun a => cGuard a (.single .null) ⟨fmt, en, cn, sub, num, str, arr, obj, rf⟩) =
      (typedArmsG ⟨fmt, en, cn, sub, num, str, arr, obj, rf⟩ .subschemasMerged (tyAbsSingle (.single .null)) false true).map
        (fun ga => some ga.1) := by
  decide +kernel

theorem typed_arms_agree_boolean :
    ∀ fmt en cn sub num str arr obj rf : Bool,
      expTyped.map (fun a => cGuard a (.single .boolean) ⟨fmt, en, cn, sub, num, str, arr, obj, rf⟩) =
      (typedArmsG ⟨fmt, en, cn, sub, num, str, arr, obj, rf⟩ .subschemasMerged (tyAbsSingle (.single .boolean)) false true).map
        (fun ga => some ga.1) := by
  decide +kernel

theorem typed_arms_agree_object :
    ∀ fmt en cn sub num str arr obj rf : Bool,
      expTyped.map (fun a => cGuard a (.single .object) ⟨fmt, en, cn, sub, num, str, arr, obj, rf⟩) =
      (typedArmsG ⟨fmt, en, cn, sub, num, str, arr, obj, rf⟩ .subschemasMerged (tyAbsSingle (.single .object)) false true).map
        (fun ga => some ga.1) := by
  decide +kernel

theorem typed_arms_agree_array :
    ∀ fmt en cn sub num str arr obj rf : Bool,
      expTyped.map (fun a => cGuard a (.single .array) ⟨fmt, en, cn, sub, num, str, arr, obj, rf⟩) =
      (typedArmsG ⟨fmt, en, cn, sub, num, str, arr, obj, rf⟩ .subschemasMerged (tyAbsSingle (.single .array)) false true).map
        (fun ga => some ga.1) := by
  decide +kernel

end TypifyModel.Dispatch

import TypifyModel.Generated.Templates
/-! The impl templates `type_entry.rs` emits (table T10, regenerated from the source on every run) are the ones the run-time models
    of the string conversions assume (`Model/StrConv.lean`: `Display` of a newtype forwards to the inner value's `Display`, of an
    untagged enum to the variant's, of a simple enum writes the variant's string; `FromStr` of an untagged enum tries the variants
    in declaration order and takes the first that parses; every `TryFrom<&str>` / `<&String>` / `<String>` goes through `parse()`).
    A template that is rewritten — even harmlessly — breaks these obligations; the check then looks for a failing input on the
    compiled code. -/
namespace TypifyModel.C11T
open TypifyModel.Generated

abbrev Row := String × String × String × String × String
def Row.trait (r : Row) : String := r.1
def Row.source (r : Row) : String := r.2.1
def Row.body (r : Row) : String := r.2.2.2.2

/-- what a `Display::fmt` template may consist of -/
def displayBodies : List String := [
  "match * self { # (Self ::# match_variants => write ! (f , # display_strs) ,) * }",
  "match self { # (Self ::# variant_name (x) => x . fmt (f) ,) * }",
  "self . 0 . fmt (f)"]

/-- what a `FromStr::from_str` template may consist of -/
def fromStrBodies : List String := [
  "match value { # (# match_strs => Ok (Self ::# match_variants) ,) * _ => Err (\"invalid value\" . into ()) , }",
  "# (if let Ok (v) = value . parse () { Ok (Self ::# variant_name (v)) } else) * { Err (\"string conversion failed for all variants\" . into ()) }",
  "Ok (Self (value . to_string ()))",
  "Ok (Self (value . parse () ?))",
  "# max # min # pat Ok (Self (value . to_string ()))"]

def isStringSource (r : Row) : Bool := r.trait == "TryFrom" && (r.source == "&str" || r.source == "&String" || r.source == "String")

/-- **every emitted `Display` forwards to `Display`** (of the inner value / the variant / a `write!` of the variant's string) -/
theorem display_templates_forward : ∀ r ∈ implTemplates, Row.trait r = "Display" → Row.body r ∈ displayBodies := by decide +kernel

/-- **every emitted `FromStr` is one of the five the models describe** (in particular: variants are tried in declaration order) -/
theorem fromstr_templates_known : ∀ r ∈ implTemplates, Row.trait r = "FromStr" → Row.body r ∈ fromStrBodies := by decide +kernel

/-- **every `TryFrom` of a string goes through `parse()`**, i.e. through `FromStr` -/
theorem tryfrom_string_templates_parse : ∀ r ∈ implTemplates, isStringSource r = true → Row.body r = "value . parse ()" := by decide +kernel

/-- the table is not empty where it matters: three `Display`, five `FromStr`, twelve string `TryFrom` templates -/
theorem template_counts :
    (implTemplates.filter (fun r => Row.trait r == "Display")).length = 3 ∧
    (implTemplates.filter (fun r => Row.trait r == "FromStr")).length = 5 ∧
    (implTemplates.filter isStringSource).length = 12 := by decide +kernel

end TypifyModel.C11T

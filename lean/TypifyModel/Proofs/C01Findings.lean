import TypifyModel.Proofs.C01
/-! # C01 — kernel-checked refutations on the IRs of listed findings

The first half of C01 over the IR would read "every IR that ingestion returns is well-formed". It is
false on the current tree: the spaces below are the (abridged) IR dumps typify really produces for the
witnesses of `KNOWN_FINDINGS.json` (replayed against the real code on every run by `tools/props/c01.py`).
For each one `WF` is false, the failing conjunct is the finding's predicate, and — the converse direction
of `wf_compiles` on these inputs — the emitted module does NOT satisfy `Compiles`.
This file is allowed to stop compiling when a defect is repaired and the dump changes. -/
namespace TypifyModel.C01Findings
open TypifyModel TypifyModel.Render TypifyModel.Wf TypifyModel.C01

def tb : DeriveTables := Generated.deriveTables

/-- C01-nullable-def-name: definition `Foo: oneOf[object, null]` -/
def nullableDef : Space := { nextId := 4, entries := [
  (0, ⟨.integer "i64", [], []⟩),
  (1, ⟨.struct "Foo" [⟨"a", .none, .optional, 2⟩] false none, [], []⟩),
  (2, ⟨.option 0, [], []⟩),
  (3, ⟨.option 1, [], []⟩),
  (4, ⟨.newtype "Foo" 3 .none none, [], []⟩)] }

theorem nullableDef_conjuncts :
    ((conjuncts exEnv tb {} nullableDef).filter (fun c => !c.2)).map (·.1) = ["items_unique", "impls_coherent"] := by
  decide +kernel

theorem nullableDef_not_compiles : ¬ Compiles exEnv (modOf tb {} nullableDef) := by
  intro h
  have hn := h.uniqueItems.1
  rw [modOf_names] at hn
  exact absurd hn (by decide +kernel)

/-- C01-arity-limits: a 13-item tuple schema -/
def tuple13 : Space := { nextId := 3, entries := [
  (0, ⟨.integer "i64", [], []⟩),
  (1, ⟨.tuple [0, 0, 0, 0, 0, 0, 0, 0, 0, 0, 0, 0, 0], [], []⟩),
  (2, ⟨.newtype "T" 1 .none none, [], []⟩)] }

theorem tuple13_conjuncts :
    ((conjuncts exEnv tb {} tuple13).filter (fun c => !c.2)).map (·.1) = ["derivable"] := by decide +kernel

theorem tuple13_not_compiles : ¬ Compiles exEnv (modOf tb {} tuple13) := by
  intro h
  have hall : ((modOf tb {} tuple13).items.all fun m =>
      m.allTys.all fun T => T.shapeOk (modOf tb {} tuple13).hashable) = true := by
    simp only [List.all_eq_true]
    exact fun m hm T hT => (h.derivable m hm).2.1 T hT
  exact absurd hall (by decide +kernel)

/-- C01-set-vec-from: `oneOf[array of unique strings, array of strings]` -/
def setVec : Space := { nextId := 4, entries := [
  (0, ⟨.string, [], []⟩),
  (1, ⟨.set 0, [], []⟩),
  (2, ⟨.vec 0, [], []⟩),
  (3, ⟨.enum "E" .untagged [⟨"Variant0", "Variant0", .item 1⟩, ⟨"Variant1", "Variant1", .item 2⟩] false none [], [], []⟩)] }

/-- rustc's type equality on the two spellings involved -/
def vecEnv : Env := { sameTy := fun a b => a == b ||
    (a == "Vec<::std::string::String>" && b == "::std::vec::Vec<::std::string::String>") ||
    (b == "Vec<::std::string::String>" && a == "::std::vec::Vec<::std::string::String>") }

theorem setVec_conjuncts :
    ((conjuncts vecEnv tb {} setVec).filter (fun c => !c.2)).map (·.1) = ["impls_coherent"] := by decide +kernel

theorem setVec_not_compiles : ¬ Compiles vecEnv (modOf tb {} setVec) := by
  intro h
  have hp := h.implsCoherent.1
  rw [modOf_summary] at hp
  have hb : pairwiseB (fun a b => !overlap vecEnv a b) (allHdrs (render tb {} setVec)) = true := by
    rw [pairwiseB_iff]
    refine hp.imp ?_
    intro a b hab
    simp [hab]
  exact absurd hb (by decide +kernel)

/-- C01-alias-cycle-deref: definitions `T0: allOf[$ref T3]`, `T3: allOf[$ref T0]` (real dump: the cycle is cut with a
    `Box`, so the sizes are finite, but `T0 -> T3 -> Box<T0> -> T0 -> ..` is an endless auto-deref chain) -/
def aliasCycle : Space := { nextId := 3, entries := [
  (0, ⟨.newtype "T0" 1 .none none, [], []⟩),
  (1, ⟨.newtype "T3" 2 .none none, [], []⟩),
  (2, ⟨.box 0, [], []⟩)] }

theorem aliasCycle_conjuncts :
    ((conjuncts exEnv tb {} aliasCycle).filter (fun c => !c.2)).map (·.1) = ["deref_finite"] := by decide +kernel

theorem aliasCycle_not_compiles : ¬ Compiles exEnv (modOf tb {} aliasCycle) := by
  intro h
  have h01 : (modOf tb {} aliasCycle).derefNext 0 = some 1 := by decide +kernel
  have h10 : (modOf tb {} aliasCycle).derefNext 1 = some 0 := by decide +kernel
  have never : ∀ n, derefEnds (modOf tb {} aliasCycle) n 0 = false ∧ derefEnds (modOf tb {} aliasCycle) n 1 = false := by
    intro n
    induction n with
    | zero => exact ⟨rfl, rfl⟩
    | succ k ih =>
      constructor
      · rw [derefEnds, h01]; exact ih.2
      · rw [derefEnds, h10]; exact ih.1
  have hm : ∃ m ∈ (modOf tb {} aliasCycle).items, m.id = 0 := by decide +kernel
  obtain ⟨m, hmem, hid⟩ := hm
  obtain ⟨n, hn⟩ := h.derefFinite m hmem
  rw [hid, (never n).1] at hn
  exact absurd hn (by decide)

end TypifyModel.C01Findings

import TypifyModel.Proofs.Lemmas.WireAcc
/-! # C04 — Rust → schemars → typify is wire compatible

The original Rust types (serde + schemars derives) are described by the same IR as typify's output (`σ`, origin;
`σ'`, generated) and given meaning by the same `Serde` model. `WireEq.wireRB σ σ' ρ f T T'` is a decidable structural
relation (both directions of `accB`: *the reader reads everything the writer writes*) over a correspondence `ρ` of the
named types; `WireEq.wireB` computes `ρ` itself.

`wire_exchange`: ∀ spaces, correspondences, types, values `x` of `T` (well-formed: `tyB`, which `de_ty` shows of
everything `Deserialize` or `Default` produces), if `T` writes `x` as `j` then `T'` does **not reject** `j`, and for every
`x'` it reads, whatever `T'` writes for `x'` is **not rejected** by `T` — for every fuel (`fuel` / `unsupported` are
non-verdicts, as in C02). Recursive types need no guardedness: the induction is on the typing fuel of the value.

That schemars + typify establish `wireB` is not proved; it is checked per (root type, route) by running `wireB` on the
origin IR and the real generated dump (translation validation in `./check C04`). -/
namespace TypifyModel.C04
open TypifyModel TypifyModel.Serde TypifyModel.WireEq

variable (x : Serde.Ext)

theorem allAcc_of_wireRB {σ σ' : Space} {ρ : List (Id × Id)} {f : Nat} {T T' : Id} (h : wireRB σ σ' ρ f T T' = true) :
    AllAcc σ σ' ρ ∧ AllAcc σ' σ (swapρ ρ) ∧ accB σ σ' ρ f T T' = true ∧ accB σ' σ (swapρ ρ) f T' T = true := by
  simp only [wireRB, Bool.and_eq_true] at h
  obtain ⟨⟨⟨h1, h2⟩, h3⟩, h4⟩ := h
  exact ⟨allAccB_AllAcc σ σ' ρ h1, allAccB_AllAcc σ' σ (swapρ ρ) h2, h3, h4⟩

/-- **C04, acceptance in both directions.** -/
theorem wire_exchange {σ σ' : Space} {ρ : List (Id × Id)} {f : Nat} {T T' : Id}
    (hw : wireRB σ σ' ρ f T T' = true)
    {ft : Nat} {xv : Val} (hty : tyB σ ft T xv = true)
    {fs : Nat} {j : Json} (hse : se σ fs T xv = .ok j) :
    (∀ fd, NR (de x σ' fd T' j)) ∧
    (∀ fd' x', de x σ' fd' T' j = .ok x' → ∀ fs' j', se σ' fs' T' x' = .ok j' → ∀ fd, NR (de x σ fd T j')) := by
  obtain ⟨ha, hb, hacc, hrev⟩ := allAcc_of_wireRB hw
  refine ⟨acc_sound x σ σ' ρ ha hacc hty hse, ?_⟩
  intro fd' x' hde fs' j' hse'
  exact acc_sound x σ' σ (swapρ ρ) hb hrev (de_ty x σ' hde) hse'

/-- the same for values obtained by deserialisation (`x = from_value(j0)`), which is how the check draws them -/
theorem wire_exchange_de {σ σ' : Space} {ρ : List (Id × Id)} {f : Nat} {T T' : Id}
    (hw : wireRB σ σ' ρ f T T' = true)
    {f0 : Nat} {j0 : Json} {xv : Val} (hx : de x σ f0 T j0 = .ok xv)
    {fs : Nat} {j : Json} (hse : se σ fs T xv = .ok j) :
    (∀ fd, NR (de x σ' fd T' j)) ∧
    (∀ fd' x', de x σ' fd' T' j = .ok x' → ∀ fs' j', se σ' fs' T' x' = .ok j' → ∀ fd, NR (de x σ fd T j')) :=
  wire_exchange x hw (de_ty x σ hx) hse

/-- with the correspondence computed by `wireB` (what the driver evaluates) -/
theorem wire_exchange_B {σ σ' : Space} {f : Nat} {T T' : Id} (hw : wireB σ σ' f T T' = true)
    {f0 : Nat} {j0 : Json} {xv : Val} (hx : de x σ f0 T j0 = .ok xv)
    {fs : Nat} {j : Json} (hse : se σ fs T xv = .ok j) :
    (∀ fd, NR (de x σ' fd T' j)) ∧
    (∀ fd' x', de x σ' fd' T' j = .ok x' → ∀ fs' j', se σ' fs' T' x' = .ok j' → ∀ fd, NR (de x σ fd T j')) :=
  wire_exchange_de x (ρ := rhoOf σ σ' f) hw hx hse

end TypifyModel.C04

namespace TypifyModel.C04
open TypifyModel TypifyModel.Serde TypifyModel.WireEq

/-! non-vacuity: an origin universe (`struct S { a: u8, o: Option<String>, e: E }`, `enum E { U, N(u8) }`, the plain
    `Option` written as `null`) against what typify generates for its schemars schema (`o` becomes
    `#[serde(default, skip_serializing_if = "Option::is_none")]`, the unit variant of `E` moves to the front). -/
def exOrigin : Space := { entries := [
  (0, ⟨.struct "S" [⟨"a", .none, .required, 2⟩, ⟨"o", .none, .required, 4⟩, ⟨"e", .none, .required, 1⟩] false none, [], []⟩),
  (1, ⟨.enum "E" .external [⟨"N", "N", .item 2⟩, ⟨"U", "U", .simple⟩] false none [], [], []⟩),
  (2, ⟨.integer "u8", [], []⟩), (3, ⟨.string, [], []⟩), (4, ⟨.option 3, [], []⟩)] }

def exGenerated : Space := { entries := [
  (0, ⟨.struct "S" [⟨"a", .none, .required, 5⟩, ⟨"e", .none, .required, 1⟩, ⟨"o", .none, .optional, 7⟩] false none, [], []⟩),
  (1, ⟨.enum "E" .external [⟨"U", "U", .simple⟩, ⟨"N", "N", .item 5⟩] false none [], [], []⟩),
  (5, ⟨.integer "u8", [], []⟩), (6, ⟨.string, [], []⟩), (7, ⟨.option 6, [], []⟩)] }

example : wireB exOrigin exGenerated 8 0 0 = true := by decide

example : ∃ xv j, tyB exOrigin 8 0 xv = true ∧ se exOrigin 8 0 xv = .ok j :=
  ⟨.struct [("a", .int 7), ("o", .none), ("e", .variant 0 (.int 1))], _, by decide, rfl⟩

/-- the pointer-sized integers: the generated `u32` does not read everything the origin `u64` (usize) writes, and
    `wireB` says so -/
example : wireB { entries := [(0, ⟨.integer "u64", [], []⟩)] } { entries := [(0, ⟨.integer "u32", [], []⟩)] } 8 0 0 = false := by
  decide

end TypifyModel.C04

import TypifyModel.Model.RustExt
import TypifyModel.Proofs.Lemmas.SemverLemmas
import TypifyModel.Proofs.Lemmas.RustExtLemmas
/-! # C13 — x-rust-type substitution policy

Property theorems over the model of `convert_rust_extension` (`RustExt.decide`) and of the semver
crate's matcher (`Semver.matchesReq`). The declarative side of `semver_spec_*` is Cargo's
documented reading of a version requirement: each comparator is a half-open interval of versions,
ordered lexicographically on (major, minor, patch) and then by pre-release precedence. -/
namespace TypifyModel.C13
open TypifyModel TypifyModel.Semver TypifyModel.RustExt

/-! ## the substitution policy -/

/-- **ext_policy.** For a well-formed extension (the requirement parses, the path starts with the
    crate's identifier followed by `::`) the external type is substituted exactly when the crate is
    configured with `*` or with a version satisfying the requirement, or the crate is unconfigured
    and the unknown-crate policy is Allow. (So `!`, a non-matching version, and unconfigured under
    Generate or Deny all generate.) -/
theorem ext_policy (cfg : Cfg) (e : Ext) (req : Req) (rest : List Char)
    (hreq : parseReq e.version = some req)
    (hpath : splitSep e.path.toList = some (replaceDash e.crate.toList, rest)) :
    (RustExt.decide cfg e).isSome = true ↔
      (∃ spec, cfg.lookup e.crate = some spec ∧
        (spec.vers = .any ∨ ∃ v, spec.vers = .version v ∧ matchesReq req v = true))
      ∨ (cfg.lookup e.crate = none ∧ cfg.unknown = .allow) := by
  rw [← admitCrate_isSome]
  unfold RustExt.decide
  simp only [hreq, hpath]
  cases admitCrate cfg e.crate req <;> simp

example : (RustExt.decide { crates := [("my-util", { vers := .version ⟨1, 4, 0, []⟩, rename := some "new-util" })] }
    { crate := "my-util", version := ">=1.2.3, <2", path := "my_util::a::Thing" })
    = some "::new_util::a::Thing" := by decide

/-- the three generating configurations, spelled out -/
theorem ext_policy_generate (cfg : Cfg) (e : Ext) :
    (∃ spec, cfg.lookup e.crate = some spec ∧ spec.vers = .never)
    ∨ (∃ spec v req, cfg.lookup e.crate = some spec ∧ spec.vers = .version v ∧
        parseReq e.version = some req ∧ matchesReq req v = false)
    ∨ (cfg.lookup e.crate = none ∧ (cfg.unknown = .generate ∨ cfg.unknown = .deny)) →
    RustExt.decide cfg e = none := by
  intro h
  unfold RustExt.decide
  cases hreq : parseReq e.version with
  | none => rfl
  | some req =>
    cases hs : splitSep e.path.toList with
    | none => rfl
    | some p =>
      obtain ⟨pre, rest⟩ := p
      by_cases hp : replaceDash e.crate.toList = pre
      · have : admitCrate cfg e.crate req = none := by
          unfold admitCrate
          rcases h with ⟨spec, hl, hv⟩ | ⟨spec, v, req', hl, hv, hr, hm⟩ | ⟨hl, hu⟩
          · simp [hl, hv]
          · rw [hreq] at hr; cases hr; simp [hl, hv, hm]
          · rcases hu with hu | hu <;> simp [hl, hu]
        simp [hp, this]
      · simp [hp]

example : RustExt.decide { crates := [("util", { vers := .never })], unknown := .allow }
    { crate := "util", version := "*", path := "util::Thing" } = none := by decide

/-- **ext_malformed.** A requirement that does not parse, a path without `::`, or a path whose
    text before the first `::` is not the crate's identifier (`-` replaced by `_`) → generated. -/
theorem ext_malformed (cfg : Cfg) (e : Ext)
    (h : parseReq e.version = none
       ∨ (∀ rest, splitSep e.path.toList ≠ some (replaceDash e.crate.toList, rest))) :
    RustExt.decide cfg e = none := by
  unfold RustExt.decide
  rcases h with h | h
  · simp [h]
  · cases hreq : parseReq e.version with
    | none => rfl
    | some req =>
      cases hs : splitSep e.path.toList with
      | none => rfl
      | some p =>
        obtain ⟨pre, rest⟩ := p
        by_cases hp : replaceDash e.crate.toList = pre
        · subst hp; exact absurd hs (h rest)
        · simp [hp]

example : RustExt.decide { unknown := .allow } { crate := "my-util", version := "1", path := "my-util::Thing" } = none := by
  decide
example : parseReq "1.2-alpha" = none := by decide

/-- **ext_path.** When substituted, the native path is `::` ++ first ++ rest where `rest` is the
    extension's path from its first `::` on and `first` is the configured rename with `-` → `_`,
    or else the path's own first segment (which is the crate's identifier). -/
theorem ext_path (cfg : Cfg) (e : Ext) (p : String) (h : RustExt.decide cfg e = some p) :
    ∃ first rest, splitSep e.path.toList = some (replaceDash e.crate.toList, rest)
      ∧ e.path.toList = replaceDash e.crate.toList ++ rest
      ∧ startsSep rest = true
      ∧ first = (match (cfg.lookup e.crate).bind (·.rename) with
                 | some r => replaceDash r.toList
                 | none => replaceDash e.crate.toList)
      ∧ p = String.ofList (':' :: ':' :: (first ++ rest)) := by
  unfold RustExt.decide at h
  cases hreq : parseReq e.version with
  | none => simp [hreq] at h
  | some req =>
    cases hs : splitSep e.path.toList with
    | none => simp [hreq, hs] at h
    | some pr =>
      obtain ⟨pre, rest⟩ := pr
      by_cases hp : replaceDash e.crate.toList = pre
      · subst hp
        cases ha : admitCrate cfg e.crate req with
        | none => simp [hreq, hs, ha] at h
        | some spec? =>
          have hspec := admitCrate_spec ha
          simp only [hreq, hs, ha, ne_eq, not_true_eq_false, if_false] at h
          injection h with h
          refine ⟨_, rest, rfl, splitSep_append hs, splitSep_starts hs, rfl, ?_⟩
          rw [← h, hspec]
          cases (cfg.lookup e.crate).bind (·.rename) with
          | some r => rfl
          | none => simp only [splitSep_append hs]
      · simp [hreq, hs, hp] at h

/-- Deny behaves like Generate (the property's reading of the `TODO` in the code) -/
theorem ext_deny_eq_generate (crates : List (String × CrateSpec)) (e : Ext) :
    RustExt.decide { crates, unknown := .deny } e = RustExt.decide { crates, unknown := .generate } e := by
  unfold RustExt.decide admitCrate Cfg.lookup
  rfl

/-- **ext_def** (the modelled part of "the path stands for the schema wherever it is used"): a
    named definition that is substituted is either the native path itself, or a newtype carrying
    the definition's name around it, the latter only when the definition's name differs from the
    path's last segment and there are no type parameters; parameters are applied in order. -/
theorem ext_def (cfg : Cfg) (key : String) (e : Ext) (ps : List String) :
    (RustExt.decide cfg e = none ∧ decideDef cfg key e ps = .generate)
    ∨ ∃ p, RustExt.decide cfg e = some p ∧
        ((decideDef cfg key e ps = .use (renderNative p ps) ∧ (ps ≠ [] ∨ key = lastSeg p))
         ∨ (decideDef cfg key e ps = .wrap key (renderNative p ps) ∧ ps = [] ∧ key ≠ lastSeg p)) := by
  unfold decideDef
  cases h : RustExt.decide cfg e with
  | none => left; simp
  | some p =>
    right; refine ⟨p, rfl, ?_⟩
    by_cases hn : nameMatch key p ps.length = true
    · left; simp [hn]
      unfold nameMatch at hn
      cases ps with
      | nil => simp at hn; right; exact hn
      | cons a as => left; simp
    · right; simp [hn]
      unfold nameMatch at hn
      cases ps with
      | nil => simp at hn; simpa using hn
      | cons a as => simp at hn

example : decideDef { unknown := .allow } "Other" { crate := "util", version := "1", path := "util::Thing" } []
    = .wrap "Other" "::util::Thing" := by decide
example : decideDef { unknown := .allow } "Thing" { crate := "util", version := "1", path := "util::Thing" } ["i64", "Gizmo"]
    = .use "::util::Thing<i64,Gizmo,>" := by decide

/-! ## semver: the matcher against Cargo's interval reading -/

/-- (major, minor, patch), ordered lexicographically -/
abbrev T3 := Nat × Nat × Nat
def lt3 (a b : T3) : Prop :=
  a.1 < b.1 ∨ (a.1 = b.1 ∧ (a.2.1 < b.2.1 ∨ (a.2.1 = b.2.1 ∧ a.2.2 < b.2.2)))
def le3 (a b : T3) : Prop := lt3 a b ∨ a = b
def triple (v : Version) : T3 := (v.major, v.minor, v.patch)

/-- precedence of versions: the triple first, then the pre-release tag (a release is above all of
    its pre-releases) -/
def vlt (a b : Version) : Prop :=
  lt3 (triple a) (triple b) ∨ (triple a = triple b ∧ cmpPre a.pre b.pre = .lt)
def vle (a b : Version) : Prop := vlt a b ∨ a = b

/-- a partial version as written in a requirement: `I`, `I.J` (also `I.J.*`), `I.J.K` -/
inductive PV
  | major (I : Nat)
  | minor (I J : Nat)
  | full (I J K : Nat)

/-- the comparator the parser builds for `op` applied to a partial version (no pre-release) -/
@[reducible] def PV.cmp (op : Op) : PV → Comparator
  | .major I => { op, major := I, minor := none, patch := none }
  | .minor I J => { op, major := I, minor := some J, patch := none }
  | .full I J K => { op, major := I, minor := some J, patch := some K }

/-- smallest version the partial stands for -/
def PV.lo : PV → T3
  | .major I => (I, 0, 0)
  | .minor I J => (I, J, 0)
  | .full I J K => (I, J, K)
/-- first version above everything the partial stands for -/
def PV.next : PV → T3
  | .major I => (I + 1, 0, 0)
  | .minor I J => (I, J + 1, 0)
  | .full I J K => (I, J, K + 1)
/-- Cargo: "an update is allowed if it does not modify the left-most non-zero component" -/
def PV.caretUpper : PV → T3
  | .major I => (I + 1, 0, 0)
  | .minor I J => if I > 0 then (I + 1, 0, 0) else (0, J + 1, 0)
  | .full I J K => if I > 0 then (I + 1, 0, 0) else if J > 0 then (0, J + 1, 0) else (0, 0, K + 1)
/-- Cargo: `~I.J.K` and `~I.J` allow patch-level changes, `~I` minor-level changes -/
def PV.tildeUpper : PV → T3
  | .major I => (I + 1, 0, 0)
  | .minor I J => (I, J + 1, 0)
  | .full I J _ => (I, J + 1, 0)

/-- Cargo's table (specifying-dependencies, "Version requirement syntax") on release versions -/
def specRelease (op : Op) (p : PV) (t : T3) : Prop :=
  match op with
  | .caret => le3 p.lo t ∧ lt3 t p.caretUpper
  | .tilde => le3 p.lo t ∧ lt3 t p.tildeUpper
  | .exact => le3 p.lo t ∧ lt3 t p.next
  | .wildcard => le3 p.lo t ∧ lt3 t p.next
  | .greater => le3 p.next t
  | .greaterEq => le3 p.lo t
  | .less => lt3 t p.lo
  | .lessEq => lt3 t p.next

theorem cmpPre_nil : cmpPre [] [] = .eq := rfl

/-- **semver_spec (release versions).** For every operator, every partial or full version in the
    requirement and every release version, the operational matcher of eval.rs agrees with the
    interval of Cargo's table. No bound on any component. -/
theorem semver_spec_release (op : Op) (p : PV) (v : Version) (hv : v.pre = []) :
    matchesImpl (p.cmp op) v = true ↔ specRelease op p (triple v) := by
  obtain ⟨a, b, c, pre⟩ := v
  simp only at hv; subst hv
  cases op <;> cases p <;>
    simp [matchesImpl, matchesExact, matchesGreater, matchesLess, matchesTilde,
      matchesCaret, preGe, specRelease, PV.lo, PV.next, PV.caretUpper, PV.tildeUpper, le3, lt3,
      triple, cmpPre_nil]
  all_goals (repeat' split)
  all_goals first | omega | (simp at * ; omega)

example : matchesImpl (PV.cmp .caret (.full 0 2 3)) ⟨0, 2, 9, []⟩ = true := by decide

/-- a full comparator `op I.J.K-pre` read as a version -/
def asVersion (I J K : Nat) (pre : Pre) : Version := { major := I, minor := J, patch := K, pre }

/-- Cargo's table for a comparator with all three components (and possibly a pre-release tag), on
    any version: lower bounds and explicit bounds in precedence order; the *implied* upper bound of
    `^` and `~` is a bound on the triple (so it also excludes the pre-releases of the next breaking
    version, as the semver crate does). -/
def specFull (op : Op) (c v : Version) : Prop :=
  match op with
  | .caret => vle c v ∧ lt3 (triple v) (PV.caretUpper (.full c.major c.minor c.patch))
  | .tilde => vle c v ∧ lt3 (triple v) (c.major, c.minor + 1, 0)
  | .exact => v = c
  | .wildcard => v = c
  | .greater => vlt c v
  | .greaterEq => vle c v
  | .less => vlt v c
  | .lessEq => vle v c

theorem version_eq_iff (a b : Version) :
    a = b ↔ a.major = b.major ∧ a.minor = b.minor ∧ a.patch = b.patch ∧ a.pre = b.pre := by
  cases a; cases b; simp

/-- **semver_spec (full comparators, any version, pre-release tags on either side).** -/
theorem semver_spec_full (op : Op) (I J K : Nat) (pre : Pre) (v : Version) :
    matchesImpl { op, major := I, minor := some J, patch := some K, pre } v = true
      ↔ specFull op (asVersion I J K pre) v := by
  obtain ⟨a, b, c, vp⟩ := v
  have hge : (cmpPre vp pre != Ordering.lt) = true ↔ (cmpPre pre vp = .lt ∨ pre = vp) := by
    rw [← cmpPre_ne_lt]; simp
  have hgt : (cmpPre vp pre == Ordering.gt) = true ↔ cmpPre pre vp = .lt := by
    rw [← cmpPre_gt]; simp
  have hlt : (cmpPre vp pre == Ordering.lt) = true ↔ cmpPre vp pre = .lt := by simp
  have heq : (pre = vp) ↔ (vp = pre) := ⟨Eq.symm, Eq.symm⟩
  cases op <;>
    simp [matchesImpl, matchesExact, matchesGreater, matchesLess, matchesTilde,
      matchesCaret, preGe, specFull, asVersion, PV.caretUpper, vle, vlt, lt3,
      triple, version_eq_iff, hge, hgt, hlt, -bne_iff_ne, -beq_iff_eq]
  all_goals (repeat' split)
  all_goals
    (try simp only [eq_comm (a := vp) (b := pre)])
    clear hge hgt hlt heq
    generalize (cmpPre pre vp = Ordering.lt) = P
    generalize (pre = vp) = Q
    generalize (cmpPre vp pre = Ordering.lt) = R
    by_cases hP : P <;> by_cases hQ : Q <;> by_cases hR : R <;> (try simp [hP, hQ, hR]) <;> omega

example : matchesImpl { op := .greaterEq, major := 1, minor := some 2, patch := some 3, pre := [.str "alpha".toList] }
    ⟨1, 2, 3, [.str "beta".toList]⟩ = true := by decide

/-- **semver_spec (requirements, release versions).** A requirement is the conjunction of its
    comparators; on a release version nothing else is consulted. -/
theorem semver_spec_req (ps : List (Op × PV)) (v : Version) (hv : v.pre = []) :
    matchesReq (ps.map fun q => q.2.cmp q.1) v = true
      ↔ ∀ op p, (op, p) ∈ ps → specRelease op p (triple v) := by
  unfold matchesReq
  simp only [hv, List.isEmpty_nil, Bool.true_or, Bool.and_true, List.all_map, List.all_eq_true,
    Function.comp]
  constructor
  · intro h op p hm; exact (semver_spec_release op p v hv).mp (h (op, p) hm)
  · intro h q hm; exact (semver_spec_release q.1 q.2 v hv).mpr (h q.1 q.2 hm)

/-- README: "`>=0.1.0, <1.0.0` says that the type will remain compatible from 0.1.0 until 1.0.0" -/
example : parseReq ">=0.1.0, <1.0.0" = some ([(Op.greaterEq, PV.full 0 1 0), (Op.less, PV.full 1 0 0)].map fun q => q.2.cmp q.1) := by
  decide

/-- **semver_pre_rule.** A pre-release version satisfies a requirement only if, besides every
    comparator holding, some comparator names the same major.minor.patch and itself carries a
    pre-release tag. -/
theorem semver_pre_rule (r : Req) (v : Version) (hv : v.pre ≠ []) :
    matchesReq r v = true ↔
      (∀ c ∈ r, matchesImpl c v = true) ∧
      ∃ c ∈ r, c.major = v.major ∧ c.minor = some v.minor ∧ c.patch = some v.patch ∧ c.pre ≠ [] := by
  unfold matchesReq preIsCompatible
  have : v.pre.isEmpty = false := by cases h : v.pre <;> simp_all
  simp [this, List.all_eq_true, List.any_eq_true, and_assoc]

/-- consequently a requirement without pre-release tags never admits a pre-release version -/
theorem semver_pre_excluded (r : Req) (v : Version) (hv : v.pre ≠ []) (hr : ∀ c ∈ r, c.pre = []) :
    matchesReq r v = false := by
  cases h : matchesReq r v with
  | false => rfl
  | true =>
    obtain ⟨_, c, hc, _, _, _, hp⟩ := (semver_pre_rule r v hv).mp h
    exact absurd (hr c hc) hp

example : matchesReq [PV.cmp .caret (.full 1 2 3)] ⟨1, 3, 0, [.str "rc".toList, .num 1]⟩ = false := by decide
example : matchesReq [{ op := .caret, major := 1, minor := some 2, patch := some 3, pre := [.num 0] }]
    ⟨1, 2, 3, [.str "rc".toList, .num 1]⟩ = true := by decide

/-- `^I.J.K := >=I.J.K, <(I+1).0.0` if `I>0`; `<0.(J+1).0` if `J>0`; `<0.0.(K+1)` otherwise -/
theorem semver_caret (I J K a b c : Nat) :
    matchesReq [{ op := .caret, major := I, minor := some J, patch := some K }] ⟨a, b, c, []⟩ = true ↔
      le3 (I, J, K) (a, b, c) ∧
      lt3 (a, b, c) (if I > 0 then (I + 1, 0, 0) else if J > 0 then (0, J + 1, 0) else (0, 0, K + 1)) := by
  have := semver_spec_req [(.caret, .full I J K)] ⟨a, b, c, []⟩ rfl
  simpa [specRelease, PV.lo, PV.caretUpper, triple] using this

/-- the bare form is the caret form: `1.2.3` is `^1.2.3` -/
example : parseReq "1.2.3" = parseReq "^1.2.3" ∧
    parseReq "^1.2.3" = some [{ op := .caret, major := 1, minor := some 2, patch := some 3 }] := by decide

/-- `~I.J.K := >=I.J.K, <I.(J+1).0`, `~I.J := >=I.J.0, <I.(J+1).0`, `~I := >=I.0.0, <(I+1).0.0` -/
theorem semver_tilde (I J K a b c : Nat) :
    (matchesReq [{ op := .tilde, major := I, minor := some J, patch := some K }] ⟨a, b, c, []⟩ = true ↔
      le3 (I, J, K) (a, b, c) ∧ lt3 (a, b, c) (I, J + 1, 0))
    ∧ (matchesReq [{ op := .tilde, major := I, minor := some J, patch := none }] ⟨a, b, c, []⟩ = true ↔
      le3 (I, J, 0) (a, b, c) ∧ lt3 (a, b, c) (I, J + 1, 0))
    ∧ (matchesReq [{ op := .tilde, major := I, minor := none, patch := none }] ⟨a, b, c, []⟩ = true ↔
      le3 (I, 0, 0) (a, b, c) ∧ lt3 (a, b, c) (I + 1, 0, 0)) := by
  have h1 := semver_spec_req [(.tilde, .full I J K)] ⟨a, b, c, []⟩ rfl
  have h2 := semver_spec_req [(.tilde, .minor I J)] ⟨a, b, c, []⟩ rfl
  have h3 := semver_spec_req [(.tilde, .major I)] ⟨a, b, c, []⟩ rfl
  refine ⟨?_, ?_, ?_⟩
  · simpa [specRelease, PV.lo, PV.tildeUpper, triple] using h1
  · simpa [specRelease, PV.lo, PV.tildeUpper, triple] using h2
  · simpa [specRelease, PV.lo, PV.tildeUpper, triple] using h3

example : parseReq "~1.2" = some [{ op := .tilde, major := 1, minor := some 2, patch := none }] := by decide

/-- `*` (no comparators) admits every release version and no pre-release version; `I.*` and
    `I.J.*` are the intervals of the partial version -/
theorem semver_star (I J : Nat) (v : Version) :
    (matchesReq [] v = true ↔ v.pre = [])
    ∧ (v.pre = [] → (matchesReq [{ op := .wildcard, major := I, minor := none, patch := none }] v = true ↔
        le3 (I, 0, 0) (triple v) ∧ lt3 (triple v) (I + 1, 0, 0)))
    ∧ (v.pre = [] → (matchesReq [{ op := .wildcard, major := I, minor := some J, patch := none }] v = true ↔
        le3 (I, J, 0) (triple v) ∧ lt3 (triple v) (I, J + 1, 0))) := by
  refine ⟨?_, ?_, ?_⟩
  · unfold matchesReq; cases h : v.pre <;> simp
  · intro hv
    have := semver_spec_req [(.wildcard, .major I)] v hv
    simpa [specRelease, PV.lo, PV.next] using this
  · intro hv
    have := semver_spec_req [(.wildcard, .minor I J)] v hv
    simpa [specRelease, PV.lo, PV.next] using this

example : parseReq "*" = some [] ∧ parseReq "1.*" = some [{ op := .wildcard, major := 1, minor := none, patch := none }]
    ∧ parseReq "1.2.x" = some [{ op := .wildcard, major := 1, minor := some 2, patch := none }] := by decide

/-- **pre_order.** Pre-release precedence (`Ord for Prerelease`) is a strict total order with the
    release on top; numeric identifiers compare by value and sort below alphanumeric ones; a
    longer tag wins when it extends a shorter one. -/
theorem pre_order :
    (∀ a b : Pre, cmpPre a b = .eq ↔ a = b)
    ∧ (∀ a b : Pre, cmpPre a b = .gt ↔ cmpPre b a = .lt)
    ∧ (∀ a b c : Pre, cmpPre a b = .lt → cmpPre b c = .lt → cmpPre a c = .lt)
    ∧ (∀ a : Pre, a ≠ [] → cmpPre a [] = .lt)
    ∧ (∀ m n : Nat, cmpPre [.num m] [.num n] = .lt ↔ m < n)
    ∧ (∀ (n : Nat) (s : List Char), cmpPre [.num n] [.str s] = .lt)
    ∧ (∀ (x : Ident) (a : Pre), cmpPre [x] (x :: x :: a) = .lt) := by
  refine ⟨fun _ _ => cmpPre_eq, fun _ _ => cmpPre_gt, fun _ _ _ => cmpPre_trans, ?_, ?_, ?_, ?_⟩
  · intro a h; cases a <;> simp_all [cmpPre]
  · intro m n; simp [cmpPre, cmpIdents, cmpIdent]
    cases h : cmpNat m n <;> simp
    · exact cmpNat_lt.mp h
    · have := cmpNat_eq.mp h; omega
    · have := cmpNat_gt.mp h; omega
  · intro n s; simp [cmpPre, cmpIdents, cmpIdent]
  · intro x a; simp [cmpPre, cmpIdents, cmpIdent_refl]

/-- version precedence is a strict total order -/
theorem version_order :
    (∀ a : Version, ¬ vlt a a)
    ∧ (∀ a b c : Version, vlt a b → vlt b c → vlt a c)
    ∧ (∀ a b : Version, vlt a b ∨ a = b ∨ vlt b a) := by
  refine ⟨?_, ?_, ?_⟩
  · intro a h
    rcases h with h | ⟨_, h⟩
    · simp [lt3] at h
    · rw [cmpPre_refl] at h; cases h
  · intro a b c h1 h2
    obtain ⟨a1, a2, a3, ap⟩ := a; obtain ⟨b1, b2, b3, bp⟩ := b; obtain ⟨c1, c2, c3, cp⟩ := c
    simp only [vlt, lt3, triple, Prod.mk.injEq] at *
    rcases h1 with h1 | ⟨e1, h1⟩ <;> rcases h2 with h2 | ⟨e2, h2⟩
    · left; omega
    · left; omega
    · left; omega
    · right; exact ⟨by omega, cmpPre_trans h1 h2⟩
  · intro a b
    obtain ⟨a1, a2, a3, ap⟩ := a; obtain ⟨b1, b2, b3, bp⟩ := b
    simp only [vlt, lt3, triple, Prod.mk.injEq, version_eq_iff]
    by_cases e : a1 = b1 ∧ a2 = b2 ∧ a3 = b3
    · cases h : cmpPre ap bp
      · left; right; exact ⟨e, rfl⟩
      · right; left; exact ⟨e.1, e.2.1, e.2.2, cmpPre_eq.mp h⟩
      · right; right; right; exact ⟨⟨e.1.symm, e.2.1.symm, e.2.2.symm⟩, cmpPre_gt.mp h⟩
    · by_cases l : a1 < b1 ∨ (a1 = b1 ∧ (a2 < b2 ∨ (a2 = b2 ∧ a3 < b3)))
      · left; left; exact l
      · right; right; left; omega

/-- **semver_parse_covered.** Every comparator of a requirement the parser accepts is of a form the
    specification covers: `op` applied to a partial version without pre-release tag
    (`semver_spec_release`, and `semver_pre_excluded` for pre-release versions), or a comparator
    with all three components (`semver_spec_full`). -/
theorem semver_parse_covered (s : String) (r : Req) (h : parseReq s = some r) :
    ∀ c ∈ r, (∃ op p, c = PV.cmp op p) ∨ (∃ op I J K pre, c = { op, major := I, minor := some J, patch := some K, pre }) := by
  intro c hc
  obtain ⟨h1, h2⟩ := parseReq_shape h c hc
  obtain ⟨op, I, mi, pa, pre⟩ := c
  cases mi with
  | none =>
    have := h1 rfl; simp only at this; subst this
    have := h2 rfl; simp only at this; subst this
    exact .inl ⟨op, .major I, rfl⟩
  | some J =>
    cases pa with
    | none =>
      have := h2 rfl; simp only at this; subst this
      exact .inl ⟨op, .minor I J, rfl⟩
    | some K => exact .inr ⟨op, I, J, K, pre, rfl⟩

example : parseReq ">=1.2.3-rc.1, <2" = some
    [{ op := .greaterEq, major := 1, minor := some 2, patch := some 3, pre := [.str "rc".toList, .num 1] },
     PV.cmp .less (.major 2)] := by decide

end TypifyModel.C13

import TypifyModel.Proofs.Lemmas.Determinism
import TypifyModel.Generated.HashSites
import TypifyModel.Generated.Interior
/-! # C12 — the generated code depends only on the settings and the content of the schema document

What is proved here, for all inputs:

* parsing forgets the order of object members (`parse_perm`, `canon_perm`): a JSON object is read into
  a `BTreeMap` (the translator re-checks on every run that `preserve_order` is off,
  `no_preserve_order`), and building a `BTreeMap` from duplicate-key-free pairs gives the same map for
  every order of insertion;
* every way in which typify's own code observes a `HashMap`/`HashSet` gives the same answer for every
  iteration order of the collection (`unique_perm`, `len_perm`, `contains_perm`, `subset_perm`,
  `counts_perm`, `sorted_perm`, `keyed_insert_perm`), and the table of all hash-collection sites that
  the translator regenerates from the current source contains only such observations
  (`hash_sites_ok`). A new order-dependent iteration in the source makes `hash_sites_ok` fail;
* `to_stream` walks `BTreeMap`s: the render of a space does not depend on the order in which its
  entries were inserted (`render_pure`).

What is not proved: that the Rust standard library's hash collections behave like "a set/map with an
arbitrary iteration order" (`RandomState` is not modelled), and that the translator finds and
classifies every site correctly. Process-level repetition is exercised by the check (fresh processes,
permuted documents), not proved. -/
namespace TypifyModel.C12
open TypifyModel TypifyModel.Determinism

variable {K V α : Type}

/-! ## parsing -/

/-- **Key order of the document text is irrelevant.** Inserting the members of an object into a
    `BTreeMap` gives the same map for every order of the members, provided no key is repeated. -/
theorem parse_perm [DecidableEq K] (o : LinOrd K) {xs ys : List (K × V)}
    (hp : xs.Perm ys) (hnd : NoDupKeys xs) : toMap o xs = toMap o ys :=
  insertMany_perm o hp hnd []

example : toMap strOrd [("b", 1), ("a", 2), ("c", 3)] = toMap strOrd [("c", 3), ("b", 1), ("a", 2)] :=
  parse_perm strOrd (by decide) (by unfold NoDupKeys; decide)

/-- the result is the in-order listing of a `BTreeMap`: strictly ascending keys -/
theorem parse_sorted [DecidableEq K] (o : LinOrd K) (xs : List (K × V)) : SortedKeys o (toMap o xs) :=
  insertMany_sorted o xs [] List.Pairwise.nil

example : toMap strOrd [("b", 1), ("a", 2), ("é", 4), ("c", 3)] = [("a", 2), ("b", 1), ("c", 3), ("é", 4)] := by
  decide

/-- the map has exactly the keys of the text -/
theorem parse_keys [DecidableEq K] (o : LinOrd K) (xs : List (K × V)) (k : K) :
    k ∈ (toMap o xs).map (·.1) ↔ k ∈ xs.map (·.1) := by
  unfold toMap; rw [mem_keys_insertMany]; simp

/-- **Duplicate keys**: the last occurrence in the text wins (serde_json's `MapAccess` loop calls
    `BTreeMap::insert` per member) … -/
theorem parse_dup_last_wins [DecidableEq K] (o : LinOrd K) (xs : List (K × V)) (k : K) (v : V) :
    lookup k (toMap o (xs ++ [(k, v)])) = some v := by
  unfold toMap insertMany
  rw [List.foldl_append]
  exact lookup_insertSorted_self o k v _ (insertMany_sorted o xs [] List.Pairwise.nil)

/-- … so with a repeated key the order of the text *is* observable: the hypothesis `NoDupKeys` of
    `parse_perm` cannot be dropped. -/
theorem parse_dup_order_matters :
    toMap strOrd [("a", 1), ("a", 2)] ≠ toMap strOrd [("a", 2), ("a", 1)] := by decide

/-- **Nested documents.** Two documents that differ only in the order of object members, at any
    depth, and that repeat no key inside one object, are parsed to the same value. -/
theorem canon_perm {a b : Json} (h : JPerm a b) (hnd : noDupDeep a = true) :
    canon a = canon b ∧ noDupDeep b = true := by
  induction h with
  | refl j => exact ⟨rfl, hnd⟩
  | trans _ _ ih1 ih2 =>
    obtain ⟨e1, n1⟩ := ih1 hnd
    obtain ⟨e2, n2⟩ := ih2 n1
    exact ⟨e1.trans e2, n2⟩
  | arrCons _ _ ih1 ih2 =>
    simp only [noDupDeep, noDupList, Bool.and_eq_true] at hnd
    obtain ⟨e1, n1⟩ := ih1 hnd.1
    obtain ⟨e2, n2⟩ := ih2 (by simpa [noDupDeep] using hnd.2)
    simp only [canon, Json.arr.injEq] at e2
    simp only [noDupDeep] at n2
    refine ⟨?_, ?_⟩
    · simp only [canon, canonList, e1, e2]
    · simp only [noDupDeep, noDupList, n1, n2, Bool.and_self]
  | @objCons k v w r s _ _ ih1 ih2 =>
    simp only [noDupDeep, noDupMembers, List.map_cons, List.nodup_cons, Bool.and_eq_true,
      decide_eq_true_eq] at hnd
    obtain ⟨⟨hk, hkeys⟩, hv, hm⟩ := hnd
    obtain ⟨e1, n1⟩ := ih1 hv
    obtain ⟨e2, n2⟩ := ih2 (by simp [noDupDeep, hkeys, hm])
    simp only [canon, Json.obj.injEq] at e2
    simp only [noDupDeep, Bool.and_eq_true, decide_eq_true_eq] at n2
    have keysCM : ∀ l : List (String × Json), (canonMembers l).map (·.1) = l.map (·.1) := by
      intro l
      induction l with
      | nil => rfl
      | cons x l ih => obtain ⟨x1, x2⟩ := x; simp [canonMembers, ih]
    -- the key set of `s` is the key set of `r`
    have hks : k ∉ s.map (·.1) := by
      intro hmem
      have h1 : k ∈ (toMap strOrd (canonMembers s)).map (·.1) := by
        rw [parse_keys, keysCM]; exact hmem
      rw [← e2, parse_keys, keysCM] at h1
      exact hk h1
    have ndr : NoDupKeys ((k, canon v) :: canonMembers r) := by
      unfold NoDupKeys
      rw [List.map_cons, keysCM, List.nodup_cons]
      exact ⟨hk, hkeys⟩
    have nds : NoDupKeys ((k, canon w) :: canonMembers s) := by
      unfold NoDupKeys
      rw [List.map_cons, keysCM, List.nodup_cons]
      exact ⟨hks, n2.1⟩
    refine ⟨?_, ?_⟩
    · simp only [canon, canonMembers, Json.obj.injEq]
      rw [toMap_cons strOrd _ _ ndr, toMap_cons strOrd _ _ nds, e1, e2]
    · simp only [noDupDeep, noDupMembers, List.map_cons, List.nodup_cons, Bool.and_eq_true,
        decide_eq_true_eq]
      exact ⟨⟨hks, n2.1⟩, n1, n2.2⟩
  | @objPerm kvs kvs' hp =>
    simp only [noDupDeep, Bool.and_eq_true, decide_eq_true_eq] at hnd
    have cmPerm : (canonMembers kvs).Perm (canonMembers kvs') := by
      clear hnd
      induction hp with
      | nil => exact List.Perm.refl _
      | cons x _ ih => obtain ⟨x1, x2⟩ := x; simp only [canonMembers]; exact List.Perm.cons _ ih
      | swap x y l =>
        obtain ⟨x1, x2⟩ := x; obtain ⟨y1, y2⟩ := y
        simp only [canonMembers]; exact List.Perm.swap _ _ _
      | trans _ _ ih1 ih2 => exact ih1.trans ih2
    have keysCM : ∀ l : List (String × Json), (canonMembers l).map (·.1) = l.map (·.1) := by
      intro l
      induction l with
      | nil => rfl
      | cons x l ih => obtain ⟨x1, x2⟩ := x; simp [canonMembers, ih]
    have ndm : ∀ {l l' : List (String × Json)}, l.Perm l' → noDupMembers l = true → noDupMembers l' = true := by
      intro l l' hpp
      induction hpp with
      | nil => exact id
      | cons x _ ih =>
        obtain ⟨x1, x2⟩ := x
        simp only [noDupMembers, Bool.and_eq_true]
        exact fun h => ⟨h.1, ih h.2⟩
      | swap x y l =>
        obtain ⟨x1, x2⟩ := x; obtain ⟨y1, y2⟩ := y
        simp only [noDupMembers, Bool.and_eq_true]
        exact fun h => ⟨h.2.1, h.1, h.2.2⟩
      | trans _ _ ih1 ih2 => exact fun h => ih2 (ih1 h)
    refine ⟨?_, ?_⟩
    · simp only [canon, Json.obj.injEq]
      exact parse_perm strOrd cmPerm (by unfold NoDupKeys; rw [keysCM]; exact hnd.1)
    · simp only [noDupDeep, Bool.and_eq_true, decide_eq_true_eq]
      exact ⟨(List.Perm.nodup_iff (hp.map (·.1))).mp hnd.1, ndm hp hnd.2⟩

example :
    canon (.obj [("b", .arr [.obj [("y", .null), ("x", .num "1")]]), ("a", .str "s")]) =
    canon (.obj [("a", .str "s"), ("b", .arr [.obj [("x", .num "1"), ("y", .null)]])]) :=
  (canon_perm
    (.trans (.objPerm (List.Perm.swap _ _ _))
      (.objCons (.refl _) (.objCons (.arrCons (.objPerm (List.Perm.swap _ _ _)) (.refl _)) (.refl _))))
    (by decide)).1

/-! ## consumers of hash collections: the answer is the same for every iteration order -/

/-- the `HashSet::insert`-all idiom (`util::unique`) computes "no element occurs twice" … -/
theorem unique_iff_nodup [DecidableEq α] (xs : List α) : unique xs = true ↔ xs.Nodup := by
  unfold unique; rw [insertAll_iff]; simp

/-- … which does not depend on the order of the items -/
theorem unique_perm [DecidableEq α] {xs ys : List α} (hp : xs.Perm ys) : unique xs = unique ys := by
  have h := hp.nodup_iff
  cases hx : unique xs <;> cases hy : unique ys <;> try rfl
  · exact absurd ((unique_iff_nodup xs).mpr (h.mpr ((unique_iff_nodup ys).mp hy))) (by simp [hx])
  · exact absurd ((unique_iff_nodup ys).mpr (h.mp ((unique_iff_nodup xs).mp hx))) (by simp [hy])

example : unique ["A", "B", "A"] = false ∧ unique ["B", "A", "A"] = false ∧ unique ["A", "B"] = true := by
  decide

/-- `collect::<HashSet<_>>().len()` (`enums.rs`): the number of distinct items, for every order -/
theorem len_perm [DecidableEq α] {xs ys : List α} (hp : xs.Perm ys) : hlen xs = hlen ys := by
  unfold hlen
  apply List.Perm.length_eq
  rw [List.perm_ext_iff_of_nodup (collectSet_nodup xs) (collectSet_nodup ys)]
  intro a
  rw [mem_collectSet, mem_collectSet]
  exact hp.mem_iff

/-- every representation of the same set (any iteration order, i.e. any duplicate-free list with the
    same members) has the same length -/
theorem len_repr [DecidableEq α] (xs s : List α) (hs : s.Nodup) (hm : ∀ a, a ∈ s ↔ a ∈ xs) :
    s.length = hlen xs := by
  unfold hlen
  apply List.Perm.length_eq
  rw [List.perm_ext_iff_of_nodup hs (collectSet_nodup xs)]
  intro a; rw [mem_collectSet]; exact hm a

example : hlen ["A", "B", "A", "C"] = 3 ∧ hlen ["C", "A", "A", "B"] = 3 := by decide

/-- keyed lookups (`contains`, `contains_key`, `get`) -/
theorem contains_perm [DecidableEq α] {xs ys : List α} (hp : xs.Perm ys) (a : α) :
    contains xs a = contains ys a := by
  unfold contains
  exact decide_eq_decide.mpr hp.mem_iff

example : contains [3, 1, 2] 2 = contains [1, 2, 3] 2 := contains_perm (by decide) 2

/-- `BTreeMap::get` after keyed inserts in any order -/
theorem lookup_perm [DecidableEq K] (o : LinOrd K) {xs ys : List (K × V)}
    (hp : xs.Perm ys) (hnd : NoDupKeys xs) (k : K) : lookup k (toMap o xs) = lookup k (toMap o ys) := by
  rw [parse_perm o hp hnd]

/-- `counts.entry(k).and_modify(|n| *n += 1).or_insert(0)` over all items, then `counts.get(k)`
    (`type_entry.rs`, the duplicate-variant-name panic message) -/
theorem counts_perm [DecidableEq α] {xs ys : List α} (hp : xs.Perm ys) (k : α) :
    counts xs k = counts ys k := by
  unfold counts; rw [hp.count_eq k]

example : counts ["A", "B", "A"] "A" = some 1 ∧ counts ["A", "B", "A"] "C" = none := by decide

/-- `a.is_subset(&b)` (`util.rs`, mutual exclusivity of object schemas) -/
theorem subset_perm [DecidableEq α] {xs xs' ys ys' : List α} (hx : xs.Perm xs') (hy : ys.Perm ys') :
    isSubset xs ys = isSubset xs' ys' := by
  unfold isSubset
  rw [hx.all_eq]
  congr 1
  funext a
  exact decide_eq_decide.mpr hy.mem_iff

example : isSubset [("t", "a")] [("u", "b"), ("t", "a")] = true ∧ isSubset [("t", "a")] [("t", "b")] = false := by
  decide

/-- **Sorting erases the iteration order**: insertion sort over a linear order returns the same list
    for every permutation of its input (elements that compare equal both ways are identical, so there
    is no stability question). -/
theorem sorted_perm (o : LinOrd α) {xs ys : List α} (hp : xs.Perm ys) :
    insertionSort o xs = insertionSort o ys := by
  induction hp with
  | nil => rfl
  | cons x _ ih => simp only [insertionSort, ih]
  | swap x y l => simp only [insertionSort]; exact orderedInsert_comm o y x _
  | trans _ _ ih1 ih2 => exact ih1.trans ih2

/-- and it is a sort: an ordered permutation of the input -/
theorem sorted_is_sort (o : LinOrd α) (xs : List α) :
    Sorted o (insertionSort o xs) ∧ (insertionSort o xs).Perm xs :=
  ⟨insertionSort_sorted o xs, insertionSort_perm_self o xs⟩

example : insertionSort strOrd ["b", "c", "a"] = ["a", "b", "c"] ∧ sortedIter natOrd [3, 1, 2] = [1, 2, 3] := by
  decide

/-- iteration of a `HashMap` whose body only performs `BTreeMap::insert(key(k), f(k, v))` with `key`
    injective on the map's keys (typify-macro: `patch` and `replace` are written into
    `TypeSpaceSettings` this way, `key` being the token text of the identifier): the resulting
    `BTreeMap` is the same for every iteration order. -/
theorem keyed_insert_perm {K' V' : Type} [DecidableEq K] [DecidableEq K'] (o : LinOrd K')
    (key : K → K') (f : K → V → V') (hinj : ∀ a b, key a = key b → a = b)
    {xs ys : List (K × V)} (hp : xs.Perm ys) (hnd : NoDupKeys xs) :
    toMap o (xs.map fun kv => (key kv.1, f kv.1 kv.2)) = toMap o (ys.map fun kv => (key kv.1, f kv.1 kv.2)) := by
  apply parse_perm o (hp.map _)
  unfold NoDupKeys at hnd ⊢
  rw [List.map_map]
  have : ((fun x : K' × V' => x.1) ∘ fun kv : K × V => (key kv.1, f kv.1 kv.2)) = key ∘ (fun kv : K × V => kv.1) := by
    funext kv; rfl
  rw [this, ← List.map_map]
  exact List.Pairwise.map key (fun a b hab h => hab (hinj a b h)) hnd

/-- without injectivity it is not: two names for one original crate (the `crates` setting of the macro
    before the fix of 8ab9bbc in /repo, `key` = the original crate's name) -/
theorem keyed_insert_not_injective :
    toMap strOrd ([("aaa", "orig"), ("bbb", "orig")].map fun kv => (kv.2, kv.1)) ≠
    toMap strOrd ([("bbb", "orig"), ("aaa", "orig")].map fun kv => (kv.2, kv.1)) := by decide

/-! ## the tie to the source: T5 -/

/-- **Every `HashMap`/`HashSet` value in the current source of typify-impl, typify-macro,
    cargo-typify and typify is observed only through operations whose answer is independent of the
    iteration order** (the theorems above, one per consumer kind). The table is regenerated by the
    translator on every run; an order-dependent iteration or an unclassifiable use is a row with
    `.iterate` / `.unknown` and breaks this theorem. -/
theorem hash_sites_ok :
    ∀ s ∈ Generated.hashSites, s.consumers ≠ [] ∧ ∀ c ∈ s.consumers, c ∈ orderFree := by
  decide

example : Generated.hashSites ≠ [] := by decide

/-- `serde_json::Map` and `schemars::Map` are `BTreeMap`: no manifest and no lock-file entry enables
    `preserve_order` (re-checked by the translator) -/
theorem no_preserve_order : Generated.preserveOrder = false := by decide

/-! ## rendering -/

/-- **`to_stream` iterates `BTreeMap`s.** The model's render is a function of the entry map, and the
    map does not remember the order in which entries with distinct ids were inserted; calling it
    twice on the same space is literally the same term (`rfl`). What is *not* modelled: that std's
    `HashMap`/`HashSet` with `RandomState` really is "a collection with an arbitrary iteration order"
    and nothing else, and OS/process state in general — repeated processes are exercised, not proved. -/
theorem render_pure {T : Type} {xs ys : List (Nat × List T)} (hp : xs.Perm ys) (hnd : NoDupKeys xs) :
    render xs = render ys ∧ render xs = render xs := by
  unfold render
  rw [parse_perm natOrd hp hnd]
  exact ⟨rfl, rfl⟩

example : render [(2, ["struct", "B"]), (1, ["struct", "A"])] = ["struct", "A", "struct", "B"] := by decide

/-- **Nothing reachable from `&self` can change between two renderings.** `to_stream(&self)`, `to_tokens` and every
    function they call receive the type space by shared reference. The table T5b, regenerated from the current source
    of all four crates (non-test, hooks excluded), lists every mention of a type built on `UnsafeCell` (`Cell`,
    `RefCell`, `OnceCell`, `Mutex`, atomics, ...), every `static mut`, thread-local and lazily initialised static, and
    every `unsafe` block, fn or impl; it is empty. In safe Rust without such a construct a `&T` gives no write access
    to anything it reaches (the aliasing rule the compiler enforces — trusted, not modelled), so the model's
    rendering being a function of the space (`render_pure`) is faithful for repeated calls. A `RefCell` cache, a
    counter in a `static`, or an `unsafe` write added to the source re-opens this obligation. -/
theorem no_hidden_state :
    Generated.interiorSites = [] ∧ Generated.unsafeSites = [] ∧ Generated.interiorUnparsed = [] ∧
    0 < Generated.interiorFilesScanned := by decide

end TypifyModel.C12
